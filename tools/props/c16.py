"""C16 — grisubal meshes exactly the input geometry.

Implementation-only end-to-end oracle (the f64 rounding of the pipeline is not modelled; the pipeline itself is, over exact rationals: DESIGN.md §13.2 C16): the
harness drives the public `honeycomb_kernels::grisubal::grisubal` on generated geometries and the
clauses of the property are evaluated here, independently, on exact `Fraction`s of the f64 values
of the resulting map (explicit tolerance 1e-9 where a clause is geometric).

Correspondence stream (model = `Honeycomb/Model/Grisubal.lean`): the rejection rule
`detect_orientation_issue` through the `orient` command on arbitrary segment lists.
"""
import itertools
import random
from fractions import Fraction as Fr

import grisgeo as gg
import hv
from hv import Case

SPEC = {
    "lean_modules": ["Honeycomb.Props.C16", "Honeycomb.Props.C16Cross", "Honeycomb.Props.C16Clip", "Honeycomb.Props.C16Insert", "Honeycomb.Props.C16Grid", "Honeycomb.Props.C16Edges",
                     "Honeycomb.Props.C16EdgeInsert", "Honeycomb.Props.C16Chain", "Honeycomb.Props.C16ChainGrid", "Honeycomb.Props.C16Step5Total", "Honeycomb.Props.C16InsertTotal", "Honeycomb.Props.C16Steps23Total", "Honeycomb.Props.C16Step5Pipe", "Honeycomb.Props.C16Gen", "Honeycomb.Props.C17Gen"],
    "gen": ["gcross", "pre"],
    "required_theorems": [
        # Props/C17Gen.lean: the on-grid-line tests of detect_overlaps and the grid sizing of grisubal/routines/pre_processing.rs as translated
        "C17_gen_on_grid_axes", "C17_gen_on_grid", "C17_gen_on_grid_eq", "C17_gen_refl_guard", "C16_gen_grid_data", "C16_gen_grid_origin", "C16_gen_grid_cells",
        # Props/C16Gen.lean: the intersection step generate_intersection_data of grisubal/routines/compute_intersecs.rs as translated IS crossingsOf
        "C16_gen_cross_macro_names", "C16_gen_cross_left", "C16_gen_cross_right", "C16_gen_cross_down", "C16_gen_cross_up", "C16_gen_cross_arms_complete", "C16_gen_cross_cell", "C16_gen_cross_row_pos", "C16_gen_cross_row_neg", "C16_gen_cross_col_pos", "C16_gen_cross_col_neg", "C16_gen_cross_diag_vpos", "C16_gen_cross_diag_vneg", "C16_gen_cross_diag_hpos", "C16_gen_cross_diag_hneg", "C16_gen_cross_unit", "C16_gen_cross_row", "C16_gen_cross_col", "C16_gen_cross_diag_pick", "C16_gen_cross_step", "C16_gen_cross_sorted","C16_orientation_rejection_iff", "C16_orientation_accepts_iff_nodup", "C16_closed_loop_accepted",
                          "C16_repeated_origin_rejected", "C16_repeated_endpoint_rejected", "C16_grid_margins", "C16_grid_tight",
                          "C16_crossings_sound", "C16_crossings_on_grid_lines", "C16_crossings_complete", "C16_crossings_sorted", "C16_crossings_count", "C16_metadata_order", "C16_metadata_same_intersections", "C16_metadata_spec",
                          "C16_markFaces_spec", "C16_markFaces_err", "C16_markFaces_total", "C16_markFaces_err_iff",
                          "C16_slots_genpos", "C16_hits_slot_numbers", "C16_group_sorted", "C16_intersection_ids_spec",
                          "C16_intersection_ids_distinct", "C16_intersection_darts_spec", "C16_intersection_darts_distinct",
                          "C16_unwritten_slot_null", "C16_insert_edge_spec",
                          "C16_shift_lt_half", "C16_on_line_for_one_shift", "C16_shift_loop_terminates", "C16_shift_loop_exit",
                          "C16_no_vertex_on_grid_corner", "C17_no_vertex_on_grid_line",
                          "C16_walk_edge_spec", "C16_edge_of_key_spec", "C16_edge_data_spec", "C16_edge_data_order_independent",
                          "C16_buildBaseEdge_spec", "C16_markBoundary_spec", "C16_insertOneEdge_inv", "C16_insertOneEdge_shape", "C16_insert_edges_inv",
                          "C16_pipeline_clip_hyps", "C16_pipeline_clip_WF",
                          "C16_steps23_carries", "C16_stepFive_carries", "C16_crossings_are_vertices", "C16_poi_are_vertices",
                          "C16_edge_darts_in_use", "keysOK_of_hit_edges", "C16_crossings_are_vertices_partial", "C16_poi_are_vertices_partial",
                          "C16_sideCoords_gridMap10", "C16_hitDartsOK_gridMap10", "C16_crossings_are_vertices_on_grid",
                          "C16_poi_are_vertices_on_grid", "C17_poi_are_node_vertices_on_grid",
                          "C16_buildBaseEdge_ok_iff", "C16_stepFive_total_partial", "C16_pipeline_total_nopoi_partial",
                          "C16_pipeline_total_nopoi_on_grid_partial", "C16_insertVertices_total_partial", "C16_stepFive_total_indep_partial",
                          "C16_pipeline_total_partial", "C16_pipeline_total_on_grid_partial", "C16_steps23_total_partial", "C16_steps23_total_on_grid",
                          "C17_capture_pipeline_total_on_grid_partial",
                          "C17_poi_are_node_vertices", "C16_deleteDarts_spec", "C16_deleteDarts_order_independent",
                          "C16_clip_spec", "C16_clip_WF", "C16_clip_order_independent", "C16_clipLeft_spec", "C16_clipRight_spec",
                          "C16_between_crossings_one_cell"],
    "trusted_base": [
        "Lean 4.33 kernel; axioms propext, Classical.choice, Quot.sound only",
        "hand-written model Honeycomb/Model/Grisubal.lean (detect_orientation_issue; sizing formulas of compute_overlapping_grid) "
        "tied to /repo by the hcmodel/hcimpl correspondence on the `orient` command (exhaustive small segment lists + random "
        "lists) and by comparing the model's `ogrid` answers with the bounding box of every unclipped map grisubal returns",
        "hand-written model `crossingsOf` (Model/Grisubal.lean: generate_intersection_data for one segment, the four "
        "intersection macros, the three cases, the epsilon bands, retain + stable sort) tied to /repo through the public API: "
        "`grisubal none` then the harness command `gcross` reads off the returned map the vertices lying inside each input "
        "segment, in the order of the segment; compared with the model's list — as equal exact rationals on the exact family "
        "(zonogons with sides (+-2^a, +-2^b), power-of-two cells: every f64 operation of the kernel is exact), within 1e-9 on "
        "general polygons — and with the independent Python computation; `gchain` checks that consecutive ones are joined "
        "by an edge. Direct tie through the hook grisubal::verif::intersection_data (/repo dbd85ff): `gcrossd` dumps the real "
        "intersection_metadata of one segment on a fresh grid, (dart id, t) in identifier order, unwritten slots as `0 nan`, compared "
        "with the model's `slotsOf` (= `crossingsMeta` + the slots left at (0, NaN)) as IDENTICAL TEXT (dart ids and exact rational "
        "t) on the exact family (1500 segments quick / 12000 thorough: power-of-two cells, dyadic ends, |dx|, |dy| in {0} u {2^a}, "
        "grids up to 4000 cells, all ten code paths; + 400 / 3200 segments through 1..8 grid corners, four diagonal directions) and "
        "with equal dart ids and t within 1e-9 on 500 / 4000 general segments",
        "hand-written model of steps 2 + 3 (Model/Grisubal.lean: hitsOf, groupOf, slicesFrom, idAssignments, intersectionIds = "
        "group_intersections_per_edge + compute_intersection_ids, HashMap iteration order as a parameter; Model/GrisubalInsert.lean: "
        "stepsTwoThree = these + add_free_darts + C14's insertVerticesOnEdge per edge) tied DIRECTLY through the hook "
        "grisubal::verif::intersection_darts (/repo 1a6fc02): `gids` on both drivers — dart vector, `wf` and full snapshot of the map "
        "after insertion as IDENTICAL TEXT, the real HashMap order being read off the implementation's result (block of edge e starts at "
        "beta1(e)) and handed to the model; 800 / 6400 random slot vectors on fresh grids (unwritten slots, several hits per edge from "
        "both sides, equal positions, positions 0 / 1 -> panic on both sides) + the real slot vectors of 80 / 640 corner and 80 / 640 "
        "on-line geometries; plus a hook-level Python oracle on the implementation (each written slot k: res[k] is a new dart on the "
        "beta1 chain of the dart hit, its vertex is the point at position t; unwritten slots 0; 2 new darts per written slot; wf)",
        "hand-written model of steps 1 (whole geometry: `segmentsOf`, `slotsAll`), 4 (`edgeData`: generate_edge_data, HashMap order as a "
        "parameter) and 5 (`stepFive`: insert_edges_in_map = build_base_edge + insert_vertices_on_edge with placeholder positions + "
        "replacement of the placeholders by the points of interest (+ VertexAnchor::Node(edge index) when the map has anchors) + "
        "mark_boundary) in Model/Grisubal.lean / Model/GrisubalInsert.lean, tied through the hooks grisubal::verif::{segments, edge_data, "
        "insert_edges} (/repo 5e09671): protocol `gseg`, `gedges`, `gins` on both drivers and `gpipe` (implementation: steps 1-5 hook by "
        "hook on a fresh grid, every intermediate datum dumped); stream `whole pipeline`: for exact-family geometries (zonogons, non-convex "
        "exact polygons, edges through corners; shuffled segment orders; clips none / left / right in turn) the model is driven step by "
        "step with the HashMap orders read off the implementation's data: segments + slots, dart vector, edge data (as a set), then `wf` and "
        "the FULL snapshot after step 5 (beta, flags, coordinates, Boundary tags, anchors) and after the clip as IDENTICAL TEXT; and the map "
        "of the end-to-end call `grisubal <clip>` is the hook-by-hook map up to the numbering of the darts (implementation only)",
        "hand-written model Model/Clip.lean (clip_left / clip_right / mark_faces / delete_darts over the per-dart Boundary storage 9) "
        "tied through the hook grisubal::verif::{clip_left, clip_right, Boundary}: protocol `bndinit` / `wbnd` / `clip left|right` on "
        "both drivers; streams: 300 tagged grids (regions, missing / flipped / stray / explicit-None tags), every well-formed 2-map "
        "with <= 3 darts (+ sampled 4-dart maps) x random tags, and the real pre-clip maps rebuilt from `grisubal none` with "
        "recomputed tags (also checked: clipping them gives the mesh `grisubal left|right` returns); full `snap` + `wf` compared, "
        "coordinates at live vertex identifiers only (stale slots depend on the HashSet order)",
        "hand-written model `overlappingGrid` (compute_overlapping_grid with the origin-shift loop, detect_overlaps) tied through the "
        "public API: `ogridg grisubal` = grisubal with Clip::None then the bounding box of the returned map, identical text with the "
        "model and with the independent Python evaluation shifted_grid",
        "Rust harness /verif/harness/hcimpl/src/gris.rs (writes the geometry as a legacy ASCII VTK file, calls the public "
        "grisubal) and tools/grisgeo.py + tools/props/c16.py (the exact oracle: independent crossings, areas, sides, coverage)",
        "vtkio's legacy reader (the geometry reaches the kernel through a file)",
    ],
    "assumptions": [
        "general position is the generator's filter: no geometry vertex on a grid line of the grid the kernel chooses "
        "(origin = bounding-box minimum - 1.5 cells), no segment through a grid corner, simple pairwise disjoint loops, "
        "consistent orientation (holes reversed). Every stream that evaluates a clause of the property stays inside it. The streams "
        "`edges through grid corners` and `vertices on grid lines` (exact families) lie OUTSIDE the statement's general position: they "
        "are correspondence-only (steps 1-5, model vs implementation through the cfg(honeycomb_verif) wrappers), no clause of C16 is evaluated on them",
        "geometric clauses are validated on the f64 instantiation with tolerance 1e-9 (positions) / 1e-9 relative (areas); "
        "signs of face areas and all topology are exact; rounding itself is not modelled",
        "C16_crossings_* are stated over exact rationals for segments in eps-general position (GenPos: ends inside the grid "
        "quadrant and on no grid line, every crossing at a parameter in (eps, 1-eps) and at least eps cells from every grid "
        "corner; eps > 0 arbitrary, 2^-52 in the kernel); f64 rounding is not modelled",
        "fewer than 2^32 darts",
    ],
    "rule": "quick: ~130 geometries (convex, star-shaped non-convex, polygon with hole, hole with island, two polygons; both "
            "global orientations) x cell sizes {1, 1/2, 3/4, 1x1/2, 3/4x1/2, 2, 5/4x3/4, 3/8} x clip {none, left, right} x "
            "points of interest {all, some, none}; vertex lattices 1/16, 1/32 and 1/10 (non-dyadic); + loops inside one cell; "
            "+ mis-oriented variants (one reversed segment, extra segment from a used vertex) x 3 clips; + nested loops turning the "
            "same way x {left, right} (must be rejected by the clip step); segment / point-of-interest cells listed in scrambled "
            "order; + exhaustive "
            "`orient` lists (all lists of <= 3 pairs over 3 vertices, random longer ones); + step-1 tie (`gcross`): 60 zonogons "
            "(exact family, equality of rationals) and 60 general polygons (1e-9), every segment, all code paths (same cell, "
            "neighbour, row+-, column+-, four diagonal directions; counts in the evidence); + direct step-1 tie (`gcrossd`, hook): 1500 "
            "exact + 500 general + 400 corner segments; + clip tie (hook): tagged grids, all maps <= 3 darts, rebuilt real pre-clip maps; "
            "+ steps 2-3 tie (`gids`, hook): 800 slot vectors; + outside general position, correspondence only: 80 polygons with an edge "
            "through a grid corner and 80 with a vertex on a grid line: gcrossd on every segment, gids on the real slot vector. "
            "+ origin-shift loop: 40 polygons with vertices on corners of the successive grids (1..4 shifts): `ogridg` tie, and "
            "the end-to-end oracle on those in general position w.r.t. the final grid; + whole pipeline hook by hook (gpipe / gseg / gids / "
            "gedges / gins / clip): 25 zonogons + 25 non-convex exact polygons (in scope) and 25 polygons with an edge through a corner "
            "(correspondence only). thorough: x8. "
            "distinct_nontrivial = distinct implementation transcripts.",
    "observations": [
        "OBSERVATION outside the property (not a finding: C16 is stated for boundaries in general position with respect to the grid): "
        "the diagonal branch of generate_intersection_data (cells of the two ends differ in both directions) keeps an intersection only "
        "when its parameter s along the segment satisfies eps < s <= 1 - eps, so a crossing at s = 0 or s = 1 — a segment end lying on a "
        "grid line, which compute_overlapping_grid tolerates in grisubal (only corners and same-cell reflections shift the origin; "
        "capture_geometry shifts for every vertex on a line) and remove_redundant_poi counts on — is dropped although l1_dist counted "
        "that grid line; the neighbour / row / column branches record it. The slot stays (0, NaN); the vertex on the grid line is then "
        "no vertex of the mesh (its point of interest was removed as redundant), the new edge joins two intersections lying in "
        "different cells and the clip step reports a between-boundary inconsistency. Repro: grisubal none 1 1 5 3/2 -5/2 5/2 -5/4 1 0 "
        "-1/4 -3/2 1 -11/4 5 4 0 3 4 2 3 1 2 0 1 5 4 0 1 2 3 -> ok, vertex (5/2,-5/4) absent; same with `left` -> err "
        "InconsistentOrientation. The model `slotsOf` reproduces the unwritten slot (stream `vertices on grid lines`, counted in its note).",
        "OBSERVATION outside the property: a boundary segment lying ALONG a grid line makes insert_vertices_on_edge fail with VertexBound "
        "(t = 1 at the corner) and grisubal panics on the unwrap: grisubal none 1 1 4 -3/4 -1/2 -3/4 3/2 -13/4 3/2 -3 -3/4 4 2 3 3 0 0 1 1 2 4 0 1 2 3",
        "after /repo 2e893a8 every clause of C16 also holds on the corner family (2025 cases over two seeds, all segment orders, 3 clips; "
        "run by hand with the end-to-end oracle, not part of the check since it is outside the stated scope)",
    ],
    "not_proved": [
        "end-to-end geometric clauses (result well-formed and fully embedded, no negatively oriented face, every crossing "
        "and every retained point of interest is a vertex, faces tile the grid rectangle, exactly one side kept, kept area = "
        "region area, every segment covered by free boundary edges): validated by the exact oracle on the real "
        "implementation, not proved",
        "compute_overlapping_grid is modelled with its origin-shift loop and detect_overlaps (`overlappingGrid`), tied through "
        "`ogridg`, and proved over exact rationals (Props/C16Grid.lean: the loop ends within 2|V| shifts, cumulated shift < 1/2 so "
        "C16_grid_margins / C16_grid_tight apply, after it no vertex on a grid corner (grisubal) / grid line (capture)); NOT proved: "
        "f64 (the `%` test is exact, the subtraction before it is not in general), the i32 overflow of 2^(i+1) beyond 30 shifts; step 1 (generate_intersection_data) is modelled and "
        "proved for one segment over exact rationals under eps-general position (C16_crossings_*: sound, complete, sorted, count = "
        "number of pre-allocated slots = C16_slots_genpos: no slot stays (0, NaN), one cell between consecutive crossings); NOT proved: "
        "that f64 rounding preserves these (the tie is exact only on the exact family); segments through grid corners "
        "(IntersecCorner) and segment ends on grid lines are modelled (`slotsOf`) and tied on exact families, outside GenPos: no "
        "theorem describes step 1 there; step 1 is tied directly (dart ids and exact t) through the hook, and the identifier-indexed vector "
        "is related to the vertex chain by C16_metadata_*",
        "steps 2 + 3 (group_intersections_per_edge, compute_intersection_ids, insert_intersections) are modelled, tied directly "
        "through the hook intersection_darts, and proved for EVERY HashMap iteration order: C16_hits_slot_numbers (ids are slot "
        "numbers, /repo 2e893a8), C16_group_sorted, C16_intersection_ids_spec / _distinct, C16_intersection_darts_spec / _distinct / "
        "C16_unwritten_slot_null (every written slot k gets its own dart at res[k], unwritten slots shift nothing), and on the map "
        "C16_insert_edge_spec (one edge: WF, C14's InsertResult chain, hit i reads fh[i] / sh[len-1-i] with beta1(beta2 sh[len-1-i]) = "
        "fh[i], the vertex of fh[i] carries the point at t_i). NOT proved: the induction over all edges of insert_intersections "
        "(frame clauses of InsertResult; validated by the gids tie), that add_free_darts provides the live free block (tied)",
        "steps 4 + 5 (generate_edge_data, insert_edges_in_map) are modelled, tied through the hooks and proved: step 4 (Props/C16Edges.lean) — "
        "the walk collects exactly the points of interest of the chain up to the next intersection, in order (C16_walk_edge_spec, "
        "C16_edge_of_key_spec: start dart beta2(dart of the start crossing), end dart = dart of the end crossing), one edge per key, the set of "
        "edges independent of the HashMap order (C16_edge_data_spec, C16_edge_data_order_independent); step 5 (Props/C16EdgeInsert.lean) — "
        "build_base_edge (C16_buildBaseEdge_spec: explicit beta images, WF, all attributes untouched), one iteration (C16_insertOneEdge_inv: WF, "
        "counts, tags Left/Right/absent, opposite tags on the two sides, remaining darts live free untagged; C16_insertOneEdge_shape: chain start "
        "-> new darts -> end, the j-th point of interest is the coordinate of the vertex of the j-th intermediate dart, Node(i) anchor with the "
        "anchor storages, Left on the chain and Right on its beta2 images), the whole loop from an untagged map (C16_insert_edges_inv), hence the "
        "hypotheses of C16_clip_WF for BOTH clips (C16_pipeline_clip_hyps) and the composition C16_pipeline_clip_WF",
        "THE CHAIN (Props/C16Chain.lean): for the modelled pipeline `pipelineMap` (steps 1-5 on the grid map, both HashMap orders universally "
        "quantified) — C16_crossings_are_vertices: every geometry whose segments are in eps-general position, every grid: if the run succeeds, "
        "every crossing of every segment with a grid line is a vertex of the result at the crossing point; C16_poi_are_vertices / "
        "C17_poi_are_node_vertices: every point of interest on a chain between two crossings is a vertex at its coordinates, anchored Node(j) in "
        "capture. Proved inside: completeness + written slot of the crossing, the ALL-EDGES induction of step 3 (insertIntersections_carries / "
        "C16_steps23_carries: disjoint fresh blocks, frame transport of C14's per-edge facts), WF and no tag after step 3, vertex stability "
        "(identifier and slot) through add_free_darts, build_base_edge (carries_buildBaseEdge: orbit calculus), insert_vertices_on_edge, the "
        "placeholder replacement and mark_boundary (C16_stepFive_carries); EdgeDartsInUse (C16_edge_darts_in_use: in general position every key / "
        "end of new_segments is a written slot, whose dart is in use and 2-linked after step 3: second all-edges induction "
        "insertIntersections_linked) and KeysOK (keysOK_of_hit_edges) are now PROVED — the `_partial` theorems keep them as hypotheses. "
        "On the grid of the model's builder (Props/C16ChainGrid.lean: gridMap10 = buildGrid2 of C12 + the session's storages) SideCoords and "
        "HitDartsOK are THEOREMS (C16_sideCoords_gridMap10, C16_hitDartsOK_gridMap10: C12's vertex positions / beta tables + "
        "C16_crossings_sound, for geometries inside the grid with one cell of margin = C16_grid_margins), so "
        "C16_crossings_are_vertices_on_grid / C16_poi_are_vertices_on_grid / C17_poi_are_node_vertices_on_grid carry NO hypothesis about the "
        "map. REMAINING NAMED HYPOTHESES of the full forms, each with a satisfiable example and evaluated by "
        "the `whole pipeline` tie on every case: success of the run — for step 5 DECIDABLE sufficient conditions are now proved, forwards "
        "(Props/C16Step5Total.lean, C16InsertTotal.lean, C16Step5Pipe.lean): C16_buildBaseEdge_ok_iff (build_base_edge succeeds EXACTLY when "
        "start has a successor, end a predecessor and beta1(start) != end: the consecutive-darts panic is its only failure); "
        "C16_insertVertices_total_partial (insert_vertices_on_edge answers Ok on a 2-linked edge with successors, free distinct spare darts, "
        "positions in ]0,1[ and both end points valued: the converse of the Ok => structure theorems of C14); C16_stepFive_total_partial (edges "
        "without intermediate point, possibly sharing darts) and C16_stepFive_total_indep_partial (any number of intermediate points, pairwise "
        "independent edges): insert_edges_in_map succeeds when every edge is Ready (+ a coordinate at both end points) IN THE MAP BEFORE THE "
        "STEP — the conditions are transported along the loop; inside the pipeline C16_pipeline_total_(nopoi_)partial / _on_grid_partial: "
        "`pipelineReady(All)` (steps 2-3 succeed, step 4 yields its edges, the edges Ready / valued / independent in the map after step 3: "
        "decidable, checked before step 5, evaluated by `decide` in the examples) implies pipelineMap = some m. Steps 2-3 likewise "
        "(Props/C16Steps23Total.lean): insertIntersections_total / C16_steps23_total_partial (every insert_vertices_on_edge of the loop answers "
        "Ok: crossed edges 2-linked with successors, positions in ]0,1[, end points valued; transported along the loop) and, with no hypothesis "
        "about the map, C16_steps23_total_on_grid: on the builder grid steps 2-3 SUCCEED for every geometry in general position inside the grid "
        "and every HashMap order. NOT proved: that step 4 yields its edges (no missing key / diverging walk) and Ready / Indep of those edges "
        "from the geometry (they are the evaluated part of pipelineReadyAll); boundary (1-linked) crossed edges; "
        "SideCoords (the grid map carries the side the kernel computed at every crossing dart: builder coordinates + C16_crossings_sound; "
        "clause `position`); HitDartsOK (about the grid map only: the darts the slots name are in use, have a successor and are 2-linked — "
        "interior grid edges); KeysAreHitEdges (about the HashMap only: it yields each key once and its keys are exactly the edges hit); the keys "
        "of step 4 are intersections (the filter of generate_edge_data); OnChain (the point of interest lies on a chain leaving an intersection: "
        "false exactly for D16a). NOT needed by these clauses and NOT proved: EdgesInOneCell (each new edge inside one cell across segment "
        "joints: evaluated by the clause `edges-in-one-cell`; C16_between_crossings_one_cell covers one segment); that closed consistently "
        "oriented loops crossing a grid line satisfy OnChain for all their points of interest (graph argument on new_segments, not done); "
        "the remaining clauses of C16 (tiling, areas, sides, no negative face) stay end-to-end only; f64",
        "clip step: modelled, tied through the hook and proved on the topology (Props/C16Clip.lean: closure, error, deletion for "
        "every HashSet order, order independence, WF + 2-free boundary; mark_faces total: the loop ends within the model's fuel, "
        "error iff a closure face carries the other tag). NOT proved: totality of delete_darts (panics on a kept boundary dart "
        "without coordinates: modelled and tied); coordinates and vertex anchors after the clip (restored from the saved kept-boundary darts; which "
        "stale slots keep a value depends on the HashSet order); (that the tags written by insert_edges_in_map satisfy the "
        "hypotheses of C16_clip_WF IS proved: C16_pipeline_clip_hyps)",
        "clauses that are FALSE on the current tree: known findings D16a (a boundary loop inside one cell is dropped) and D16b (negatively "
        "oriented face on a same-side dip), reported by the end-to-end oracle on every run",
    ],
}


# ---------------------------------------------------------------------------------------------
# oracle
# ---------------------------------------------------------------------------------------------

def poly_area_loops(loops):
    """area of the even-odd interior of properly nested simple loops"""
    # nesting depth parity by a vertex test
    tot = Fr(0)
    for i, lp in enumerate(loops):
        if len(lp) < 3:
            continue
        depth = sum(1 for j, other in enumerate(loops) if j != i and len(other) >= 3 and gg.point_in_loops(lp[0], [other]))
        a = abs(gg.area2(lp)) / 2
        tot += a if depth % 2 == 0 else -a
    return tot


def check_mesh(g, clip, s, wfline):
    """all clauses of C16 for a valid geometry; returns list of 'tag: detail' strings"""
    out = []
    m = gg.Mesh(s)
    if wfline != "wf true true true":
        out.append(f"not-wf: harness says {wfline}")
    w = m.wf()
    if w:
        out.append("not-wf: " + ", ".join(w))
        return out
    if m.open_darts:
        out.append(f"open-face: dart {m.open_darts[0]} is 0- or 1-free")
        return out
    # fully embedded
    miss = [v for v in m.vertices if s["a0"][v] is None]
    if miss:
        out.append(f"not-embedded: vertex {miss[0]} of in-use darts has no coordinates ({len(miss)} such)")
        return out
    ox, oy, nx, ny = g.grid()
    cx, cy = g.cell
    X1, Y1 = ox + nx * cx, oy + ny * cy
    # faces
    areas = []
    neg = zero = 0
    for cyc in m.faces:
        a2 = gg.area2(m.face_pts(cyc))
        areas.append(a2 / 2)
        if a2 < 0:
            neg += 1
            if neg == 1:
                out.append(f"neg-face: face of dart {min(cyc)} has signed area {float(a2 / 2):.6g}")
        elif a2 == 0:
            zero += 1
    if zero and g.all_poi():
        out.append(f"zero-face: {zero} face(s) of area 0 although every corner is a point of interest")
    total = sum(areas, Fr(0))
    # crossings / points of interest are vertices
    idx = gg.PointIndex([s["a0"][v] for v in m.vertices])
    cr = g.crossings()
    missing = [(k, pt) for k, t, pt in cr if not idx.has(pt)]
    if missing:
        k, pt = missing[0]
        out.append(f"crossing-missing: {len(missing)} of {len(cr)} crossings are no vertex, e.g. segment {g.segs[k]} at ({float(pt[0]):.9g},{float(pt[1]):.9g})")
    exact = set(s["a0"][v] for v in m.vertices)
    pm = [v for v in g.poi_ids() if g.verts[v] not in exact]
    if pm:
        out.append(f"poi-missing: {len(pm)} of {len(g.poi)} points of interest are no vertex, e.g. input vertex {pm[0]}")
    rect = nx * cx * ny * cy
    tol_a = gg.TOL * max(rect, 1)
    cap = g.captured_loops()
    cap_ok = all(len(lp) == 0 or len(lp) >= 3 for lp in cap)
    if clip == "none":
        if abs(total - rect) > tol_a:
            out.append(f"tiling: face areas sum to {float(total):.9g}, grid rectangle {nx}x{ny} cells has {float(rect):.9g}")
        for v in m.vertices:
            p = s["a0"][v]
            if not (ox - gg.TOL <= p[0] <= X1 + gg.TOL and oy - gg.TOL <= p[1] <= Y1 + gg.TOL):
                out.append(f"tiling: vertex {v} lies outside the grid rectangle")
                break
    else:
        # which side is kept: clip left deletes the left side
        keep_interior = (clip == "right") == g.interior_left
        region = poly_area_loops(cap) if cap_ok else None
        if region is not None:
            want = region if keep_interior else rect - region
            if abs(total - want) > tol_a:
                out.append(f"area: kept faces have area {float(total):.9g}, the {'interior' if keep_interior else 'exterior'} "
                           f"side of the captured boundary has {float(want):.9g}")
        bad_side = 0
        caploops = [lp for lp in cap if len(lp) >= 3]
        for cyc, a in zip(m.faces, areas):
            if a <= 0:
                continue
            ip = gg.interior_point(m.face_pts(cyc))
            if ip is None:
                continue
            ins = gg.point_in_loops(ip, caploops)
            if ins is None:
                continue
            if ins != keep_interior:
                bad_side += 1
                if bad_side == 1:
                    out.append(f"side: face of dart {min(cyc)} lies on the side that had to be clipped")
        if g.all_poi():
            want = poly_area_loops(g.loops)
            want = want if keep_interior else rect - want
            if abs(total - want) > tol_a:
                out.append(f"region-area: kept area {float(total):.9g} != region area {float(want):.9g}")
            free = [(m.P[d], m.P[m.b1[d]]) for d in m.boundary_darts()]
            unc = [k for k, (a, b) in enumerate(g.segs) if not gg.covered((g.verts[a], g.verts[b]), free)]
            if unc:
                out.append(f"segment-uncovered: {len(unc)} of {len(g.segs)} input segments are not covered by free boundary "
                           f"edges, e.g. segment {g.segs[unc[0]]}")
    if g.all_poi() and (neg or zero):
        pass  # already reported
    return out


def oracle(case, li):
    if case.oracle != "c16":
        return None
    if any(ln.startswith("<missing") for ln in li):
        return "driver-died: " + li[0]
    g, clip, expect = case.meta["geo"], case.meta["clip"], case.meta["expect"]
    res = li[0] if li else "<end>"
    if expect == "reject":
        if res.startswith("err "):
            return None
        return f"not-rejected: mis-oriented boundary ({case.meta['why']}) answered {res!r}"
    if res == "panic":
        return "panic: grisubal panicked on a valid geometry"
    if res != "ok":
        return f"refused: valid geometry answered {res!r}"
    s = gg.parse_snap(li[2])
    if clip == "none":
        pts = [p for d, p in enumerate(s["a0"]) if p is not None and not s["u"][d]]
        case.meta["bbox"] = (min(p[0] for p in pts), max(p[0] for p in pts), min(p[1] for p in pts), max(p[1] for p in pts))
    f = check_mesh(g, clip, s, li[1])
    if not f:
        return None
    return "; ".join(f[:8]), classify_failure(g, clip, s, li[1], f)


DROPPED_TAGS = {"poi-missing", "area", "region-area", "segment-uncovered", "side"}
FLAT_TAGS = {"neg-face", "side", "area"}


def classify_failure(g, clip, s, wfline, fails):
    """structural signature of a failure (None = not a listed failure mode)"""
    tags = {x.split(":")[0] for x in fails}
    drop = g.loops_crossing_nothing()
    if drop and tags <= DROPPED_TAGS:
        # the result must be exactly what the property requires of the geometry without these loops
        # (if no loop is left no dart is tagged and nothing is clipped: the plain grid)
        g2 = g.without(drop)
        if not check_mesh(g2, clip if g2.loops else "none", s, wfline):
            return "loop-inside-one-cell-dropped"
    flat, crossed = g.flat_chords()
    if crossed and not g.all_poi() and tags <= FLAT_TAGS and not drop:
        # every negatively oriented face touches a crossed flat chord
        m = gg.Mesh(s)
        ok = True
        for cyc in m.faces:
            pts = m.face_pts(cyc)
            if gg.area2(pts) < 0:
                if not any(gg.covered((p, p2), [(a, b)]) or on_seg(p, a, b) for p, p2 in zip(pts, pts[1:] + pts[:1]) for a, b in g.flat_crossed_segs):
                    ok = False
        if ok:
            return "flat-chord-crossed"
    return None


def on_seg(p, a, b):
    """p within TOL of the closed segment ab (axis-parallel segments only)"""
    lo0, hi0 = min(a[0], b[0]) - gg.TOL, max(a[0], b[0]) + gg.TOL
    lo1, hi1 = min(a[1], b[1]) - gg.TOL, max(a[1], b[1]) + gg.TOL
    return lo0 <= p[0] <= hi0 and lo1 <= p[1] <= hi1


# ---------------------------------------------------------------------------------------------
# cases
# ---------------------------------------------------------------------------------------------

KINDS = ["convex", "star", "star", "hole", "two", "island"]


def facts_of(g):
    return {"kind": g.kind, "cell": [str(x) for x in g.cell], "poi_mode": g.poi_mode, "interior_left": g.interior_left,
            "loops_crossing_nothing": g.loops_crossing_nothing(), "n_loops": len(g.loops),
            "flat_chords": list(g.flat_chords()), "all_poi": g.all_poi()}


def geometry_cases(rng, count, cmd="grisubal", clips=("none", "left", "right"), oracle_name="c16"):
    cases = []
    k = 0
    tries = 0
    while k < count and tries < 50 * count:
        tries += 1
        kind = KINDS[k % len(KINDS)]
        cell = gg.CELLS[(k // len(KINDS)) % len(gg.CELLS)]
        g = gg.random_geometry(rng, kind, cell=cell, poi_mode=["all", "some", "all", "none"][k % 4])
        if g is None:
            continue
        ox, oy, nx, ny = g.grid()
        if nx * ny > 900:
            continue
        k += 1
        for clip in clips:
            cases.append(Case(f"{cmd}-{kind}-{k}-{clip}", [g.line(cmd, clip), "wf", "snap"], oracle=oracle_name,
                              meta={"geo": g, "clip": clip, "expect": "mesh", "sig": f"{cmd}-{kind}-{clip}", "facts": facts_of(g)}))
    return cases


def tiny_loop_cases(rng, count, cmd="grisubal", oracle_name="c16"):
    """a loop that fits inside one grid cell (crosses no grid line), alone or next to a big polygon"""
    cases = []
    k = 0
    tries = 0
    while k < count and tries < 100 * count:
        tries += 1
        cell = rng.choice([(Fr(1), Fr(1)), (Fr(2), Fr(2)), (Fr(3, 4), Fr(3, 4))])
        sc = float(cell[0])
        if k % 2 == 0:
            lp = gg.star_polygon(rng, (rng.uniform(-2, 2), rng.uniform(-2, 2)), 0.12 * sc, 0.3 * sc, rng.randint(3, 5), 32)
            loops = [lp] if lp else None
        else:
            c0 = (rng.uniform(-2, 2), rng.uniform(-2, 2))
            big = gg.star_polygon(rng, c0, 1.6 * sc, 2.4 * sc, rng.randint(4, 7), 16)
            small = gg.star_polygon(rng, c0, 0.1 * sc, 0.28 * sc, rng.randint(3, 5), 32)
            loops = [big, small[::-1]] if big and small else None
        if not loops or not gg.loops_simple(loops):
            continue
        g = gg.Geometry(loops, gg.choose_poi(rng, loops, "all"), cell, "tiny")
        g.interior_left, g.poi_mode = True, "all"
        if not g.general_position() or not g.loops_crossing_nothing():
            continue
        k += 1
        for clip in ("none", "right", "left"):
            cases.append(Case(f"{cmd}-tiny-{k}-{clip}", [g.line(cmd, clip), "wf", "snap"], oracle=oracle_name,
                              meta={"geo": g, "clip": clip, "expect": "mesh", "sig": f"{cmd}-tiny-{clip}", "facts": facts_of(g)}))
    return cases


def misoriented_cases(rng, count):
    cases = []
    k = 0
    tries = 0
    while k < count and tries < 50 * count:
        tries += 1
        g = gg.random_geometry(rng, rng.choice(["convex", "star", "hole", "two"]), poi_mode=rng.choice(["all", "none", "some"]))
        if g is None:
            continue
        k += 1
        segs = list(g.segs)
        if k % 2 == 0:
            i = rng.randrange(len(segs))
            a, b = segs[i]
            segs[i] = (b, a)
            why = f"segment {i} reversed: vertex {b} starts two segments, vertex {a} ends two"
        else:
            # an extra segment from a used vertex to another used vertex
            a = rng.randrange(len(g.verts))
            b = rng.choice([v for v in range(len(g.verts)) if v != a and (a, v) not in segs])
            segs.insert(rng.randrange(len(segs) + 1), (a, b))
            why = f"extra segment ({a},{b}): vertex {a} starts two segments"
        for clip in ("none", "left", "right"):
            cases.append(Case(f"misoriented-{k}-{clip}", [g.line("grisubal", clip, segs)], oracle="c16",
                              meta={"geo": g, "clip": clip, "expect": "reject", "why": why, "sig": "misoriented", "facts": facts_of(g)}))
    return cases


def chevron_cases():
    """directed: a V-shaped dip through one cell side whose tip is a regular corner (captured chord on the grid
    line) with a second V inside it; with and without the tip as a point of interest"""
    F = Fr
    cases = []
    k = 0
    for cell, sc in (((F(1), F(1)), F(1)), ((F(1, 2), F(1, 2)), F(1, 2)), ((F(2), F(2)), F(2))):
        for dx, dy in ((F(0), F(0)), (F(3, 16), F(-5, 16))):
            base = [(-1, F(3, 4)), (0, F(-1, 2)), (1, F(3, 4)), (F(5, 8), F(3, 4)), (0, F(-1, 4)), (F(-5, 8), F(3, 4))]
            lp = [(x * sc + dx, y * sc + dy) for x, y in base]
            for pois in ([0, 2, 3, 4, 5], [0, 2, 3, 5], [0, 1, 2, 3, 4, 5], [1, 4], []):
                g = gg.Geometry([lp], [(0, i) for i in pois], cell, "chevron")
                g.interior_left, g.poi_mode = True, "hand"
                assert gg.loops_simple(g.loops) and g.general_position()
                k += 1
                for clip in ("none", "left", "right"):
                    cases.append(Case(f"grisubal-chevron-{k}-{clip}", [g.line("grisubal", clip), "wf", "snap"], oracle="c16",
                                      meta={"geo": g, "clip": clip, "expect": "mesh", "sig": f"chevron-{clip}", "facts": facts_of(g)}))
    return cases


def inconsistent_nesting_cases(rng, count):
    """each loop consistently oriented but the hole turns the same way as the outer loop: with clipping there is no
    side to keep — the clip step must answer with an error (between-boundary inconsistency)"""
    cases = []
    k = 0
    tries = 0
    while k < count and tries < 60 * count:
        tries += 1
        g = gg.random_geometry(rng, rng.choice(["hole", "island"]), reverse=rng.random() < 0.5)
        if g is None:
            continue
        loops = [g.loops[0], g.loops[1][::-1]] + g.loops[2:]
        g2 = gg.Geometry(loops, gg.choose_poi(rng, loops, rng.choice(["all", "none", "some"])), g.cell, "inconsistent-nesting")
        g2.interior_left, g2.poi_mode = g.interior_left, "mixed"
        if not g2.general_position():
            continue
        k += 1
        for clip in ("left", "right"):
            cases.append(Case(f"nesting-{k}-{clip}", [g2.line("grisubal", clip)], oracle="c16",
                              meta={"geo": g2, "clip": clip, "expect": "reject", "sig": "inconsistent-nesting",
                                    "why": "the second loop is nested in the first and turns the same way", "facts": facts_of(g2)}))
    return cases


# ---- `orient`: correspondence of detect_orientation_issue ------------------------------------

def orient_expected(segs):
    o, e = set(), set()
    for a, b in segs:
        if a in o or b in e:
            return "err InconsistentOrientation in-boundary-inconsistency"
        o.add(a)
        e.add(b)
    return "ok"


def orient_cases(rng, tier):
    cases = []
    nv = 3
    pairs = [(a, b) for a in range(nv) for b in range(nv)]
    k = 0
    for ln in range(0, 4):
        for segs in itertools.product(pairs, repeat=ln):
            k += 1
            line = f"orient {nv} {len(segs)} " + " ".join(f"{a} {b}" for a, b in segs)
            cases.append((line.strip(), list(segs)))
    for _ in range(300 if tier == "quick" else 3000):
        nv2 = rng.randint(2, 8)
        ln = rng.randint(1, nv2 + 2)
        if rng.random() < 0.5:
            perm = list(range(nv2))
            rng.shuffle(perm)
            segs = [(perm[i], perm[(i + 1) % nv2]) for i in range(nv2)]
            if rng.random() < 0.5:
                i = rng.randrange(len(segs))
                segs[i] = (segs[i][1], segs[i][0])
        else:
            segs = [(rng.randrange(nv2), rng.randrange(nv2)) for _ in range(ln)]
        cases.append((f"orient {nv2} {len(segs)} " + " ".join(f"{a} {b}" for a, b in segs), segs))
    # batches of 50 lines per case
    out = []
    for i in range(0, len(cases), 50):
        chunk = cases[i:i + 50]
        out.append(Case(f"orient-{i // 50}", ["new 2 0 0"] + [c[0] for c in chunk], oracle="orient",
                        meta={"segs": [c[1] for c in chunk], "sig": "orient"}))
    return out


def orient_oracle(case, li):
    if case.oracle != "orient":
        return None
    got = li[1:]
    fails = []
    for segs, line in zip(case.meta["segs"], got):
        want = orient_expected(segs)
        if line != want:
            fails.append(f"orient-rule: segments {segs} answered {line!r}, the rejection rule says {want!r}")
    if len(got) != len(case.meta["segs"]):
        fails.append("orient-rule: missing output lines")
    return "; ".join(fails[:3]) if fails else None


# ---- sizing of the overlapping grid: model formula (`ogrid`) vs the map the implementation returns ----------

def grid_tie(cases):
    """for every unclipped run: the bounding box of the returned map must be the model's
    [origin, origin + n_cells * cell] on both axes (exact for dyadic inputs, 1e-9 otherwise)"""
    todo = [c for c in cases if c.meta.get("bbox") and c.meta["clip"] == "none"]
    lines, keys = [], []
    for c in todo:
        g = c.meta["geo"]
        xs = [p[0] for p in g.verts]
        ys = [p[1] for p in g.verts]
        lines.append(f"ogrid {gg.rs(g.cell[0])} {gg.rs(min(xs))} {gg.rs(max(xs))}")
        lines.append(f"ogrid {gg.rs(g.cell[1])} {gg.rs(min(ys))} {gg.rs(max(ys))}")
    rc, out = hv.run_bin(hv.HCMODEL, "\n".join(lines) + "\n")
    out = [x for x in out if x]
    stats = {"cases": len(todo), "lines": len(out), "disagreements": 0, "oracle_failures": 0, "impl_outcomes": {}, "ops": {"ogrid": len(lines)},
             "distinct_nontrivial": len(set(out))}
    violations = []
    for k, c in enumerate(todo):
        g = c.meta["geo"]
        x0, x1, y0, y1 = c.meta["bbox"]
        bad = None
        for axis, (lo, hi, cl) in enumerate(((x0, x1, g.cell[0]), (y0, y1, g.cell[1]))):
            ans = out[2 * k + axis].split() if 2 * k + axis < len(out) else ["<missing>"]
            if ans[0] != "ok":
                bad = f"model answered {ans}"
                break
            og, n = Fr(ans[1]), int(ans[2])
            # inputs on a coarse dyadic lattice: every f64 operation of the sizing is exact
            dyadic = all(p[0].denominator <= 4096 and p[1].denominator <= 4096 for p in g.verts)
            tol = 0 if dyadic else gg.TOL
            if abs(lo - og) > tol or abs(hi - (og + n * cl)) > tol * max(1, n):
                bad = f"axis {axis}: model origin {og} cells {n} (end {og + n * cl}), implementation's map spans [{lo}, {hi}]"
                break
        if bad:
            stats["disagreements"] += 1
            violations.append({"kind": "correspondence", "what": f"overlapping grid of case {c.cid}: {bad}", "found_input": False,
                               "sig": "ogrid", "replay": {"case": c.cid, "input_lines": c.lines,
                                                          "theorem_or_correspondence": "gridOrigin/gridCells (Model/Grisubal.lean) vs bounding box of grisubal's map"}})
    return {"stats": stats, "violations": violations[:5], "samples": []}


# ---- step 1 (generate_intersection_data): model `crossingsOf` vs the vertices the real kernel puts on each segment ----

def zonogon_geometry(rng, cell=None):
    """convex centrally symmetric polygon whose sides are vectors (+-2^a, +-2^b) on a dyadic lattice, power-of-two cell
    lengths: every f64 operation of the kernel (s, t, inserted vertex) is exact, so the tie is an equality of rationals"""
    import math
    cell = cell or rng.choice([(Fr(1), Fr(1)), (Fr(1, 2), Fr(1, 2)), (Fr(2), Fr(2)), (Fr(1), Fr(1, 2)), (Fr(1, 4), Fr(1, 4)), (Fr(1, 2), Fr(1))])
    for _ in range(100):
        k = rng.randint(2, 5)
        gens = set()
        while len(gens) < k:
            a, b = rng.randint(-2, 1), rng.randint(-2, 1)
            gens.add((Fr(2) ** a, rng.choice([1, -1]) * Fr(2) ** b))
        gens = sorted(gens, key=lambda v: math.atan2(float(v[1]), float(v[0])))
        if len({(v[1] / v[0]) for v in gens}) != k:
            continue
        p = (Fr(rng.randint(-64, 64), 16) + Fr(1, 32), Fr(rng.randint(-64, 64), 16) + Fr(3, 32))
        pts = []
        for v in gens + [(-v[0], -v[1]) for v in gens]:
            pts.append(p)
            p = (p[0] + v[0], p[1] + v[1])
        if rng.random() < 0.3:
            pts = pts[::-1]
        if not gg.loops_simple([pts]):
            continue
        g = gg.Geometry([pts], gg.choose_poi(rng, [pts], rng.choice(["all", "some", "none"])), cell, "zonogon")
        g.interior_left, g.poi_mode = gg.area2(pts) > 0, "mixed"
        ox, oy, nx, ny = g.grid()
        if g.general_position() and nx * ny <= 900:
            return g
    return None


def cross_lines(g):
    ox, oy, nx, ny = g.grid()
    pre = f"{gg.rs(g.cell[0])} {gg.rs(g.cell[1])} {gg.rs(ox)} {gg.rs(oy)} {nx}"
    return [f"{pre} {gg.rs(g.verts[a][0])} {gg.rs(g.verts[a][1])} {gg.rs(g.verts[b][0])} {gg.rs(g.verts[b][1])}" for a, b in g.segs]


def parse_pts(line):
    parts = line.split("|")
    return [tuple(Fr(x) for x in p.split()) for p in parts[1:]]


def cross_tie(geos, exact):
    """model (hcmodel `gcross`: crossingsOf) vs implementation (`grisubal none` then `gcross`: the vertices of the
    returned map inside each segment, in the order of the segment); also: consecutive ones are joined by an edge and
    the list is what the independent Python computation of the crossings gives"""
    import concurrent.futures as cf
    import math
    icases, mlines = [], []
    for k, g in enumerate(geos):
        cl = cross_lines(g)
        icases.append(Case(f"cross-{g.kind}-{k}", [g.line("grisubal", "none")] + ["gcross " + x for x in cl] + ["gchain " + x for x in cl]))
        mlines += ["gcross " + x for x in cl]
    with cf.ThreadPoolExecutor(2) as ex:
        fi = ex.submit(hv.run_bin, hv.HCIMPL, hv.render(icases))
        fm = ex.submit(hv.run_bin, hv.HCMODEL, "\n".join(mlines) + "\n")
        iout = hv.split_outputs(fi.result()[1])
        mout = [x for x in fm.result()[1] if x]
    stats = {"cases": len(geos), "lines": 0, "disagreements": 0, "oracle_failures": 0, "impl_outcomes": {}, "ops": {"gcross": len(mlines)},
             "distinct_nontrivial": len(set(mout)), "segments": len(mlines), "crossings": 0, "exact": exact, "branches": {}, "genpos_crossings": 0, "outside_genpos": 0}
    violations = []
    at = 0
    for k, g in enumerate(geos):
        li = iout[k][1] if k < len(iout) else ["<missing>"]
        nseg = len(g.segs)
        bad = None
        ox0, oy0, _, _ = g.grid()
        ox, oy = ox0, oy0
        if li[0] != "ok" or len(li) != 1 + 2 * nseg:
            bad = f"implementation answered {li[:2]}"
        else:
            mine = {}
            eps = Fr(1, 2 ** 52)
            for kk, t, pt in g.crossings():
                mine.setdefault(kk, []).append((t, pt))
                # the hypothesis GenPos of the theorems, evaluated on the case
                fu, fv = (pt[0] - ox0) / g.cell[0], (pt[1] - oy0) / g.cell[1]
                on_v = fu.denominator == 1
                other = fv if on_v else fu
                frac = other - math.floor(other)
                if eps < t < 1 - eps and eps <= frac <= 1 - eps and not (fu.denominator == 1 and fv.denominator == 1):
                    stats["genpos_crossings"] += 1
                else:
                    stats["outside_genpos"] += 1
            for j in range(nseg):
                im, mo = li[1 + j], (mout[at + j] if at + j < len(mout) else "<missing>")
                stats["lines"] += 1
                pa, pb = g.verts[g.segs[j][0]], g.verts[g.segs[j][1]]
                di = math.floor((pb[0] - ox) / g.cell[0]) - math.floor((pa[0] - ox) / g.cell[0])
                dj = math.floor((pb[1] - oy) / g.cell[1]) - math.floor((pa[1] - oy) / g.cell[1])
                br = "same-cell" if (di, dj) == (0, 0) else "neighbour" if abs(di) + abs(dj) == 1 else \
                    ("row" + "+-"[di < 0]) if dj == 0 else ("column" + "+-"[dj < 0]) if di == 0 else "diagonal" + "+-"[di < 0] + "+-"[dj < 0]
                stats["branches"][br] = stats["branches"].get(br, 0) + 1
                ref = [pt for _, pt in sorted(mine.get(j, []))]
                if not mo.startswith("ok") or not im.startswith("ok"):
                    bad = f"segment {g.segs[j]}: impl {im[:80]!r} model {mo[:80]!r}"
                    break
                pm, pi = parse_pts(mo), parse_pts(im)
                stats["crossings"] += len(pm)
                if exact and im != mo:
                    bad = f"segment {g.segs[j]}: impl {im[:200]!r} != model {mo[:200]!r} (exact family)"
                    break
                if len(pm) != len(pi) or any(not gg.near(a, b) for a, b in zip(pm, pi)):
                    bad = f"segment {g.segs[j]}: impl has {len(pi)} vertices on it, model {len(pm)} crossings: {im[:160]!r} vs {mo[:160]!r}"
                    break
                if pm != ref:
                    bad = f"segment {g.segs[j]}: model crossings differ from the independent computation ({len(pm)} vs {len(ref)})"
                    break
                if li[1 + nseg + j] != "ok true":
                    bad = f"segment {g.segs[j]}: consecutive crossing vertices are not joined by an edge ({li[1 + nseg + j]})"
                    break
        at += nseg
        if bad:
            stats["disagreements"] += 1
            violations.append({"kind": "correspondence", "what": f"step 1 of grisubal, case cross-{g.kind}-{k}: {bad}", "found_input": False,
                               "sig": "gcross", "replay": {"case": f"cross-{k}", "input_lines": icases[k].lines[:6],
                                                           "theorem_or_correspondence": "crossingsOf (Model/Grisubal.lean) vs vertices on the segment in grisubal's map"}})
    notes = [f"gcross tie ({'exact' if exact else '1e-9'}): {stats['segments']} segments, {stats['crossings']} crossings, "
             f"{stats['genpos_crossings']} of them inside the GenPos hypothesis of C16_crossings_* ({stats['outside_genpos']} outside); "
             f"code paths {dict(sorted(stats['branches'].items()))}"]
    return {"stats": stats, "violations": violations[:5], "notes": notes, "samples": [{"case": icases[0].cid, "input": [x[:200] for x in icases[0].lines[:3]], "model_output": mout[:2]}] if icases else []}


# ---- step 1, direct: the (dart, t) pairs of the real generate_intersection_data (hook verif::intersection_data) -------

def segment_case(rng, exact, corner=False):
    """one segment on a fresh grid, in general position; exact family: power-of-two cells, dyadic ends, |dx|, |dy| in
    {0} u {2^a}: every f64 operation of the four macros is exact; `corner` (exact family only): the segment passes
    through at least one grid corner, every other crossing being in general position"""
    import math
    for _ in range(400):
        if exact and corner:
            cx, cy = Fr(2) ** rng.randint(-2, 1), Fr(2) ** rng.randint(-2, 1)
            ox, oy = Fr(rng.randint(-32, 32), 8), Fr(rng.randint(-32, 32), 8)
            dx = rng.choice([1, -1]) * Fr(2) ** rng.randint(-3, 3)
            dy = rng.choice([1, -1]) * Fr(2) ** rng.randint(-3, 3)
            s0 = Fr(rng.randrange(1, 32, 2), 32)
            ax = ox + cx * rng.randint(2, 9) - s0 * dx
            ay = oy + cy * rng.randint(2, 9) - s0 * dy
        elif exact:
            cx, cy = Fr(2) ** rng.randint(-2, 1), Fr(2) ** rng.randint(-2, 1)
            ox, oy = Fr(rng.randint(-32, 32), 8), Fr(rng.randint(-32, 32), 8)
            dx = rng.choice([0, 1, 1, -1, -1]) * Fr(2) ** rng.randint(-3, 3)
            dy = rng.choice([0, 1, 1, -1, -1]) * Fr(2) ** rng.randint(-3, 3)
            ax = ox + cx * rng.randint(1, 8) + Fr(rng.randrange(1, 64, 2), 64) * cx
            ay = oy + cy * rng.randint(1, 8) + Fr(rng.randrange(1, 64, 2), 64) * cy
        else:
            cx, cy = Fr(rng.choice([1, 2, 3, 5]), rng.choice([1, 2, 4, 3])), Fr(rng.choice([1, 2, 3, 5]), rng.choice([1, 2, 4, 3]))
            ox, oy = Fr(rng.randint(-40, 40), 10), Fr(rng.randint(-40, 40), 10)
            dx, dy = Fr(rng.randint(-60, 60), 10), Fr(rng.randint(-60, 60), 10)
            ax = ox + cx * Fr(rng.randint(100, 900), 100)
            ay = oy + cy * Fr(rng.randint(100, 900), 100)
            cx, cy, ox, oy, ax, ay, dx, dy = (Fr(float(q)) for q in (cx, cy, ox, oy, ax, ay, dx, dy))
        bx, by = ax + dx, ay + dy
        if (dx, dy) == (0, 0):
            continue
        ua, ub, va, vb = (ax - ox) / cx, (bx - ox) / cx, (ay - oy) / cy, (by - oy) / cy
        if min(ua, ub, va, vb) < 1:
            continue
        if any(q.denominator == 1 for q in (ua, ub, va, vb)):
            continue
        if not exact and any(not (gg.TOL < q - math.floor(q) < 1 - gg.TOL) for q in (ua, ub, va, vb)):
            continue      # an end within rounding distance of a grid line: the f64 cell index is not the exact one
        nx, ny = math.floor(max(ua, ub)) + 2, math.floor(max(va, vb)) + 2
        if nx * ny > 4000:
            continue
        # general position with the margin eps (hypothesis GenPos of C16_crossings_*)
        eps = Fr(1, 2 ** 40) if not exact else Fr(1, 2 ** 52)
        ok = True
        crossings = corners = 0
        for (p0, p1, q0, q1) in ((ua, ub, va, vb), (va, vb, ua, ub)):
            lo, hi = min(p0, p1), max(p0, p1)
            for K in range(math.ceil(lo), math.floor(hi) + 1):
                t = (K - p0) / (p1 - p0)
                other = q0 + t * (q1 - q0)
                frac = other - math.floor(other)
                crossings += 1
                if corner and frac == 0 and eps < t < 1 - eps:
                    corners += 1
                elif not (eps < t < 1 - eps and eps <= frac <= 1 - eps):
                    ok = False
        if not ok or (corner and corners == 0):
            continue
        di, dj = math.floor(ub) - math.floor(ua), math.floor(vb) - math.floor(va)
        br = "same-cell" if (di, dj) == (0, 0) else "neighbour" if abs(di) + abs(dj) == 1 else \
            ("row" + "+-"[di < 0]) if dj == 0 else ("column" + "+-"[dj < 0]) if di == 0 else "diagonal" + "+-"[di < 0] + "+-"[dj < 0]
        if corner:
            br = f"{br} through {corners // 2} corner(s)"
        line = "gcrossd " + " ".join(gg.rs(q) for q in (cx, cy, ox, oy)) + f" {nx} {ny} " + " ".join(gg.rs(q) for q in (ax, ay, bx, by))
        return line, br, crossings
    return None


def step1_tie(rng, count, exact, corner=False):
    """hcmodel `slotsOf` vs the hook `verif::intersection_data`: dart identifiers and relative positions t, in
    identifier order, unwritten slots as `0 nan`; exact family: identical text (exact rationals); otherwise same darts,
    t within 1e-9"""
    segs = [x for x in (segment_case(rng, exact, corner) for _ in range(count)) if x]
    cases = [Case(f"step1-{'x' if exact else 't'}-{i // 40}", ["new 2 0 0"] + [x[0] for x in segs[i:i + 40]]) for i in range(0, len(segs), 40)]
    res = hv.run_pair(cases)
    stats = {"cases": len(segs), "lines": 0, "disagreements": 0, "oracle_failures": 0, "impl_outcomes": {}, "ops": {"gcrossd": len(segs)},
             "distinct_nontrivial": 0, "exhaustive": False}
    branches, ncross = {}, 0
    for _, br, c in segs:
        branches[br] = branches.get(br, 0) + 1
        ncross += c
    violations, distinct = [], set()
    k = 0
    for c, li, lm in res:
        for ln, (a, b) in enumerate(zip(li[1:], lm[1:])):
            stats["lines"] += 1
            distinct.add(a)
            same = a == b
            if not same and not exact and a.startswith("ok") and b.startswith("ok"):
                pa = [x.split() for x in a[2:].split(";") if x.strip()]
                pb = [x.split() for x in b[2:].split(";") if x.strip()]
                same = len(pa) == len(pb) and all(x[0] == y[0] and x[1] != "nan" and abs(Fr(x[1]) - Fr(y[1])) <= gg.TOL for x, y in zip(pa, pb))
            exp = segs[k + ln][2]
            n_impl = len([x for x in a[2:].split(";") if x.strip()]) if a.startswith("ok") else -1
            if not same or n_impl != exp:
                stats["disagreements"] += 1
                if len(violations) < 5:
                    violations.append({"kind": "correspondence", "found_input": False, "sig": "gcrossd",
                                       "what": f"step 1 of grisubal (generate_intersection_data): {c.lines[1 + ln]!r}: impl={a[:200]!r} model={b[:200]!r} "
                                               f"(independent count of crossings: {exp})",
                                       "replay": {"case": c.cid, "input_lines": [c.lines[1 + ln]], "impl_output": [a], "model_output": [b],
                                                  "theorem_or_correspondence": "crossingsOf (Model/Grisubal.lean) vs grisubal::verif::intersection_data"}})
        k += len(c.lines) - 1
    stats["distinct_nontrivial"] = len(distinct)
    notes = [f"gcrossd tie ({'exact: identical text' if exact else 'same darts, t within 1e-9'}): {len(segs)} segments, {ncross} crossings, " +
             ("each through at least one grid corner (outside GenPos: NaN slots)" if corner else "all inside the GenPos hypothesis of C16_crossings_*") +
             f"; code paths {dict(sorted(branches.items()))}"]
    return {"stats": stats, "violations": violations, "samples": [{"case": "step1", "input": [segs[0][0]], "impl_output": res[0][1][1:2]}] if segs else [], "notes": notes}


# ---- the origin-shift loop of compute_overlapping_grid (vertices on grid lines / corners of the first grid) -----------------

def shifted_grid(g, keep_all_poi):
    """independent evaluation of compute_overlapping_grid: (ox, oy, nx, ny, number of shifts).  grisubal
    (keep_all_poi = False) shifts while a vertex lies on a grid CORNER or a boundary vertex on a grid line has both
    neighbours in one cell; capture_geometry (True) while a vertex lies on any grid LINE (or such a reflection)."""
    import math
    cx, cy = g.cell
    xs, ys = [p[0] for p in g.verts], [p[1] for p in g.verts]
    nxt = {a: b for a, b in g.segs}
    prv = {b: a for a, b in g.segs}
    for k in range(64):
        sh = Fr(1, 2) - Fr(1, 2 ** (k + 1))
        ox, oy = min(xs) - cx * Fr(3, 2) + cx * sh, min(ys) - cy * Fr(3, 2) + cy * sh
        on = [(((x - ox) / cx).denominator == 1, ((y - oy) / cy).denominator == 1) for x, y in g.verts]
        cell = lambda p: (math.floor((p[0] - ox) / cx), math.floor((p[1] - oy) / cy))
        on_grid = any((a or b) if keep_all_poi else (a and b) for a, b in on)
        reflect = any((a or b) and i in nxt and i in prv and cell(g.verts[prv[i]]) == cell(g.verts[nxt[i]]) for i, (a, b) in enumerate(on))
        if not (on_grid or reflect):
            return ox, oy, math.ceil((max(xs) - ox) / cx) + 1, math.ceil((max(ys) - oy) / cy) + 1, k
    return None


def shift_geometry(rng, keep_all_poi, depth):
    """simple polygon on the lattice cell/16 with `depth` vertices moved onto the grid lines of the successive origins:
    the j-th one sits (integer + 1/2, 3/4, 7/8, 15/16) cells from the bounding-box minimum — on one axis (a grid line:
    capture_geometry shifts) or, for grisubal, on both (a grid corner); returns the geometry with its grid fixed to the
    independent evaluation of the loop, which must have run at least once"""
    import math
    F = [Fr(1, 2), Fr(3, 4), Fr(7, 8), Fr(15, 16)]
    for _ in range(300):
        cx, cy = rng.choice([(Fr(1), Fr(1)), (Fr(1, 2), Fr(1, 2)), (Fr(2), Fr(2)), (Fr(1), Fr(1, 2))])
        den = int(16 / min(cx, cy))
        sc = float(max(cx, cy))
        lp = gg.star_polygon(rng, (rng.uniform(-2, 2), rng.uniform(-2, 2)), 1.0 * sc, 2.8 * sc, rng.randint(4, 8), den, convex=rng.random() < 0.4)
        if not lp:
            continue
        lp = [list(p) for p in lp]
        mn = (min(p[0] for p in lp), min(p[1] for p in lp))
        idx = rng.sample(range(len(lp)), min(depth, len(lp)))
        for j, i in enumerate(idx):
            axes = (0, 1) if not keep_all_poi else (rng.choice([(0,), (1,), (0,), (1,), (0, 1)]))
            for ax in axes:
                c = (cx, cy)[ax]
                lp[i][ax] = mn[ax] + c * (math.floor((lp[i][ax] - mn[ax]) / c) + F[j])
        lp = [tuple(p) for p in lp]
        if len(set(lp)) != len(lp) or not gg.loops_simple([lp]) or gg.area2(lp) == 0:
            continue
        if gg.area2(lp) < 0:
            lp = lp[::-1]
        rev = rng.random() < 0.3
        if rev:
            lp = lp[::-1]
        poi_mode = rng.choice(["all", "all", "some", "none"])
        g = gg.Geometry([lp], gg.choose_poi(rng, [lp], poi_mode), (cx, cy), "shift")
        g.interior_left, g.poi_mode = not rev, poi_mode
        sg = shifted_grid(g, keep_all_poi)
        if sg is None or sg[4] == 0:
            continue
        g.fixed_grid, g.shifts = sg[:4], sg[4]
        # the property's hypothesis is general position with respect to the grid the call ENDS with: grisubal's loop only
        # shifts away corners and reflections, so a vertex may by chance remain on a line of the final grid (e.g. a segment
        # lying along it: `VertexBound` panic, recorded as an observation outside C16 in DESIGN 13.4) -- not part of this stream
        if not g.general_position():
            continue
        return g
    return None


def shift_geometries(rng, count, keep_all_poi):
    res = []
    k = 0
    while len(res) < count and k < 20 * count:
        k += 1
        g = shift_geometry(rng, keep_all_poi, 1 + k % 4)
        if g is not None:
            res.append(g)
    return res


def flat_shape_cases(rng, count, cmd):
    """shapes the pre-processing refuses (`InvalidShape`): no vertex, all vertices on one vertical / horizontal line -- the
    answer of the call vs the model's `overlappingGrid` (notes/TIECOV.md: no stream executed these arms)"""
    cases = []
    for k in range(count):
        kind = k % 3
        n = 0 if kind == 0 else rng.randint(1, 5)
        c = Fr(rng.randint(-8, 8), 4)
        pts = [((c, Fr(rng.randint(-12, 12), 4)) if kind == 1 else (Fr(rng.randint(-12, 12), 4), c)) for _ in range(n)]
        segs = [(i, i + 1) for i in range(n - 1)]
        cell = rng.choice([(Fr(1), Fr(1)), (Fr(1, 2), Fr(1)), (Fr(2), Fr(1, 2))])
        toks = [f"ogridg {cmd} none", gg.rs(cell[0]), gg.rs(cell[1]), str(n)] + [f"{gg.rs(x)} {gg.rs(y)}" for x, y in pts] + \
            [str(len(segs))] + [f"{a} {b}" for a, b in segs] + ["0"]
        cases.append(Case(f"flat-{cmd}-{k}", ["new 2 0 0", " ".join(toks)], oracle="flat", meta={"sig": "ogridg-flat", "n": n}))

    def orc(case, li):
        if len(li) < 2 or not li[1].startswith("err InvalidShape"):
            return f"a shape with no extent along an axis was not refused: {li[1] if len(li) > 1 else None!r}"
        return None
    return hv.campaign(cases, orc)


def shift_grid_tie(geos, cmd):
    """`ogridg`: the grid the call chooses (read off the map it returns unclipped) vs the model's `overlappingGrid` (identical
    text) vs the independent evaluation above"""
    cases = [Case(f"shiftgrid-{cmd}-{k}", ["new 2 0 0", g.line("ogridg " + cmd, "none")], oracle="shiftgrid", meta={"geo": g, "sig": "ogridg"})
             for k, g in enumerate(geos)]

    def orc(case, li):
        g = case.meta["geo"]
        ox, oy, nx, ny = g.fixed_grid
        want = f"ok {gg.rs(ox)} {gg.rs(oy)} {nx} {ny}"
        if len(li) < 2 or li[1] != want:
            return f"grid: the call answered {li[1] if len(li) > 1 else None!r}, the shift loop evaluated independently gives {want!r} ({g.shifts} shifts)"
        return None
    r = hv.campaign(cases, orc)
    hist = {}
    for g in geos:
        hist[g.shifts] = hist.get(g.shifts, 0) + 1
    r.setdefault("notes", []).append(f"origin-shift loop ({cmd}): {len(geos)} polygons, number of shifts -> polygons: {dict(sorted(hist.items()))}")
    return r


def shift_cases(geos, cmd="grisubal", oracle_name="c16", obs=("wf", "snap")):
    cases = []
    for k, g in enumerate(geos):
        for clip in ("none", "left", "right"):
            cases.append(Case(f"{cmd}-shift-{k}-{clip}", [g.line(cmd, clip)] + list(obs), oracle=oracle_name,
                              meta={"geo": g, "clip": clip, "expect": "mesh", "sig": f"shift-{clip}", "facts": dict(facts_of(g), shifts=g.shifts)}))
    return cases


# ---- steps 2 + 3 (hook grisubal::verif::intersection_darts): model `stepsTwoThree` vs implementation, + independent oracle ---

def steps23_case(rng, k):
    """a fresh grid (power-of-two cells, dyadic origin) and a slot vector: written slots (dart, dyadic t in ]0,1[), unwritten
    slots `0 nan`, several hits per edge from both sides, equal positions; a few vectors with t = 0 / 1 (VertexBound -> the
    kernel's `.unwrap()` panics)"""
    nx, ny = rng.randint(1, 4), rng.randint(1, 3)
    cx, cy = Fr(2) ** rng.randint(-1, 1), Fr(2) ** rng.randint(-1, 1)
    ox, oy = Fr(rng.randint(-8, 8), 4), Fr(rng.randint(-8, 8), 4)
    nd = 4 * nx * ny
    n = rng.choice([0, 1, 2, 3, 4, 6, 8, 12])
    pool = [rng.randint(1, nd) for _ in range(max(1, n // 2))] if rng.random() < 0.6 else None
    bad = rng.random() < 0.06
    slots = []
    for _ in range(n):
        if rng.random() < 0.2:
            slots.append((0, "nan"))
            continue
        d = rng.choice(pool) if pool else rng.randint(1, nd)
        t = Fr(rng.randrange(1, 16), 16)
        if bad and rng.random() < 0.3:
            t = Fr(rng.choice([0, 1]))
        slots.append((d, t))
    grid = f"grid 2 0 0 ncl {gg.rs(ox)} {gg.rs(oy)} {nx} {ny} {gg.rs(cx)} {gg.rs(cy)}"
    return grid, slots


def gids_line(keys, slots):
    return f"gids {len(keys)} " + "".join(f"{e} " for e in keys) + f"{len(slots)}" + "".join(f" {d} {t if t == 'nan' else gg.rs(t)}" for d, t in slots)


def steps23_tie(rng, count):
    """1. the implementation runs `snap; gids; wf; snap`; 2. independent oracle on its output (every written slot k gets at
    res[k] a new dart lying on the side of the dart hit, whose vertex is the point at position t of that dart; unwritten
    slots get 0; 2 new darts per written slot; map well formed); 3. the iteration order of the HashMap is read off the
    result (the block of edge e starts at beta1(e)) and handed to the model, whose reply, `wf` and `snap` must be
    IDENTICAL TEXT (the model is parametric in that order: C16_intersection_ids_spec holds for every order)"""
    return steps23_run([steps23_case(rng, k) for k in range(count)], "steps23")


def steps23_run(raw, prefix):
    """`raw`: list of (grid command, slot vector); see steps23_tie"""
    cases = [Case(f"{prefix}-{k}", [g, "snap", gids_line([], sl), "wf", "snap"]) for k, (g, sl) in enumerate(raw)]
    rc, out = hv.run_bin(hv.HCIMPL, hv.render(cases))
    gi = hv.split_outputs(out)
    stats = {"cases": len(cases), "lines": 0, "disagreements": 0, "oracle_failures": 0, "impl_outcomes": {}, "ops": {"gids": len(cases)},
             "distinct_nontrivial": 0, "exhaustive": False}
    violations, distinct, mcases = [], set(), []
    orders = {"first-insertion": 0, "other": 0}
    multi = nanslots = written = 0
    for k, c in enumerate(cases):
        li = gi[k][1] if k < len(gi) else ["<missing>"] * 5
        stats["lines"] += len(li)
        distinct.add("\n".join(li))
        slots = raw[k][1]
        fails = []
        keys = []
        if len(li) < 5 or not li[1].startswith("snap") or not li[4].startswith("snap"):
            fails.append(f"driver: {li[:5]}")
        else:
            pre, post = gg.parse_snap(li[1]), gg.parse_snap(li[4])
            b2 = pre["b"][2]
            edge = lambda d: b2[d] if b2[d] and b2[d] < d else d
            hit = [(i, d, t) for i, (d, t) in enumerate(slots) if t != "nan"]
            written += len(hit)
            nanslots += len(slots) - len(hit)
            per = {}
            for i, d, t in hit:
                per.setdefault(edge(d), []).append((t if edge(d) == d else 1 - t, i, d))
            multi += sum(1 for v in per.values() if len(v) > 1)
            badedges = {e for e, v in per.items() if any(t <= 0 or t >= 1 for t, _, _ in v)}
            base = pre["n"]
            key = li[2].split()[0]
            stats["impl_outcomes"][key] = stats["impl_outcomes"].get(key, 0) + 1
            done = sorted((e for e in per if post["b"][1][e] >= base), key=lambda e: post["b"][1][e])
            if li[2] == "panic":
                if not badedges:
                    fails.append("panic: intersection_darts panicked although every position lies in ]0,1[")
                if set(done) & badedges:
                    fails.append("panic-state: an edge with a position outside ]0,1[ was subdivided")
                keys = done + sorted(badedges) + sorted(e for e in per if e not in done and e not in badedges)
            elif li[2].startswith("ok"):
                keys = done
                res = [int(x) for x in li[2].split()[1:]]
                if badedges:
                    fails.append("accepted: a position outside ]0,1[ was inserted")
                elif len(res) != len(slots):
                    fails.append(f"length: {len(res)} darts for {len(slots)} slots")
                else:
                    if li[3] != "wf true true true":
                        fails.append(f"not-wf: {li[3]}")
                    if post["n"] != base + 2 * len(hit):
                        fails.append(f"dart-count: {post['n']} darts, expected {base} + 2 x {len(hit)}")
                    mpre, mpost = gg.Mesh(pre), gg.Mesh(post)
                    if sorted(done) != sorted(per):
                        fails.append("edge-not-subdivided: " + str(sorted(set(per) - set(done))))
                    for i, (d, t) in enumerate(slots):
                        if t == "nan":
                            if res[i] != 0:
                                fails.append(f"unwritten-slot: slot {i} got dart {res[i]}")
                            continue
                        x = res[i]
                        if not (base <= x < post["n"]):
                            fails.append(f"not-new: slot {i} got dart {x}")
                            continue
                        a, b = mpre.P[d], mpre.P[pre["b"][1][d]]
                        want = (a[0] + t * (b[0] - a[0]), a[1] + t * (b[1] - a[1]))
                        if mpost.P[x][:2] != want:
                            fails.append(f"position: slot {i} (dart {d}, t {t}) got dart {x} at {mpost.P[x]} instead of {want}")
                        chain, y = [], post["b"][1][d]
                        while y >= base and len(chain) <= len(slots):
                            chain.append(y)
                            y = post["b"][1][y]
                        if x not in chain or y != pre["b"][1][d]:
                            fails.append(f"side: slot {i}: dart {x} is not on the beta1 chain {chain} from dart {d} to its old successor")
                    if len(set(r for r in res if r)) != len(hit):
                        fails.append("not-distinct: two written slots share a dart")
            else:
                fails.append(f"reply: {li[2]!r}")
        if fails:
            stats["oracle_failures"] += 1
            violations.append({"kind": "oracle", "found_input": True, "sig": "gids", "finding": None, "tags": sorted({f.split(":")[0] for f in fails}),
                               "what": f"steps 2+3 of grisubal on case {c.cid}: " + "; ".join(fails[:6]),
                               "replay": {"case": c.cid, "input_lines": c.lines, "impl_output": [x[:400] for x in li], "oracle_failure": "; ".join(fails[:6]),
                                          "replay_cmd": f"printf '%s\\n' <input_lines> | {hv.HCIMPL_PATH}"}})
        first = []
        for i, (d, t) in enumerate(slots):
            if t != "nan" and len(li) >= 2 and li[1].startswith("snap"):
                e = edge(d)
                if e not in first:
                    first.append(e)
        orders["first-insertion" if keys == first else "other"] += 1
        mcases.append(Case(c.cid, [c.lines[0], "snap", gids_line(keys, slots), "wf", "snap"]))
    rc, outm = hv.run_bin(hv.HCMODEL, hv.render(mcases))
    gm = hv.split_outputs(outm)
    for k, c in enumerate(mcases):
        li = gi[k][1] if k < len(gi) else ["<missing>"]
        lm = gm[k][1] if k < len(gm) else ["<missing>"]
        if li != lm:
            stats["disagreements"] += 1
            if sum(1 for v in violations if v["kind"] == "correspondence") < 5:
                j = next((j for j, (a, b) in enumerate(zip(li, lm)) if a != b), min(len(li), len(lm)))
                violations.append({"kind": "correspondence", "found_input": False, "sig": "gids",
                                   "what": f"steps 2+3 of grisubal on case {c.cid} (line {j}): impl={li[j][:200] if j < len(li) else None!r} "
                                           f"model={lm[j][:200] if j < len(lm) else None!r}",
                                   "replay": {"case": c.cid, "input_lines": c.lines, "impl_output": [x[:400] for x in li], "model_output": [x[:400] for x in lm],
                                              "theorem_or_correspondence": "stepsTwoThree (Model/GrisubalInsert.lean) vs grisubal::verif::intersection_darts"}})
    stats["distinct_nontrivial"] = len(distinct)
    notes = [f"gids tie (identical text: ids, wf, full snapshot): {len(cases)} slot vectors, {written} written + {nanslots} unwritten slots, {multi} edges hit "
             f"more than once; HashMap iteration order read off the implementation's result: {orders}; outcomes {stats['impl_outcomes']}"]
    return {"stats": stats, "violations": violations,
            "samples": [{"case": cases[0].cid, "input": cases[0].lines, "impl_output": [x[:300] for x in gi[0][1]]}] if cases and gi else [], "notes": notes}


# ---- the whole pipeline, step by step (hooks segments / intersection_data / intersection_darts / edge_data / insert_edges) ----

def grid_beta2(nx, ny, d):
    """beta2 of dart d of the fresh nx x ny grid (cell (x, y): darts 1 + 4(x + nx y) + {0 bottom, 1 right, 2 top, 3 left})"""
    c, k = divmod(d - 1, 4)
    x, y = c % nx, c // nx
    if k == 0:
        return 0 if y == 0 else 1 + 4 * (x + nx * (y - 1)) + 2
    if k == 1:
        return 0 if x == nx - 1 else 1 + 4 * (x + 1 + nx * y) + 3
    if k == 2:
        return 0 if y == ny - 1 else 1 + 4 * (x + nx * (y + 1))
    return 0 if x == 0 else 1 + 4 * (x - 1 + nx * y) + 1


def mesh_canon(s, anchors=False):
    """a snapshot up to the numbering of its darts: every in-use dart as (origin, destination, origin of its predecessor,
    2-free?, [kind of the vertex anchor]) — directed sides are unique in these meshes"""
    m = gg.Mesh(s)
    out = set()
    for d in m.used:
        va = None
        if anchors and "a6" in s["a"]:
            t = s["a"]["a6"][m.vid[d]]
            va = None if t == "none" else int(t) % 4
        out.add((m.P[d], m.P[m.b1[d]] if m.b1[d] else None, m.P[m.b0[d]] if m.b0[d] else None, m.b2[d] == 0, va))
    return out, len(m.used)


def pipeline5_tie(pairs, capture, prefix):
    """steps 1-5 (+ clip, + classify for capture), hook by hook on the implementation (`gpipe`: every intermediate datum
    dumped) and step by step on the model (`gseg`, `gids`, `gedges`, `gins` with the HashMap orders read off the
    implementation's data): segments + slots, dart vector and map after insertion, edge data (as a set), and the final
    `wf` / `snap` (after clip / classify too) as IDENTICAL TEXT; then the map of the end-to-end call `grisubal|capture <clip>`
    must be the step-by-step one up to the numbering of the darts"""
    import math
    cmd = "capture" if capture else "grisubal"
    icases, metas = [], []
    for k, (g, segs) in enumerate(pairs):
        ox, oy, nx, ny = g.grid()
        clip = ("none", "left", "right")[k % 3]
        head = " ".join(gg.rs(q) for q in (g.cell[0], g.cell[1], ox, oy)) + f" {nx} {ny}"
        poi = sorted(g.poi_ids())
        geo = f"{len(g.verts)} " + " ".join(f"{gg.rs(x)} {gg.rs(y)}" for x, y in g.verts) + f" {len(segs)} " + " ".join(f"{a} {b}" for a, b in segs) + \
            f" {len(poi)}" + "".join(f" {p}" for p in poi)
        tail = ["wf", "snap"] + ([f"clip {clip}", "wf", "snap"] if clip != "none" else []) + (["classify", "snap"] if capture else [])
        icases.append(Case(f"{prefix}-{k}", [f"gpipe {int(capture)} {head} {geo}"] + tail + [g.line(cmd, clip, segs=segs), "wf", "snap"]))
        metas.append((g, segs, clip, head, geo, tail, (ox, oy, nx, ny)))
    rc, out = hv.run_bin(hv.HCIMPL, hv.render(icases))
    gi = hv.split_outputs(out)
    stats = {"cases": len(icases), "lines": 0, "disagreements": 0, "oracle_failures": 0, "impl_outcomes": {}, "ops": {"gpipe": len(icases)},
             "distinct_nontrivial": 0, "exhaustive": False}
    violations, distinct, mcases, keep = [], set(), [], []
    nedges = npoi = ncorner = 0

    def viol(kind, c, what, li, lm=None):
        if sum(1 for v in violations if v["kind"] == kind) < 5:
            v = {"kind": kind, "found_input": kind == "oracle", "sig": "gpipe", "what": f"grisubal pipeline, case {c.cid}: {what}",
                 "replay": {"case": c.cid, "input_lines": c.lines, "impl_output": [x[:400] for x in li],
                            "theorem_or_correspondence": "steps 1-5 of grisubal (Model/Grisubal.lean, Model/GrisubalInsert.lean) vs the hooks of grisubal::verif"}}
            if kind == "oracle":
                v.update({"finding": None, "tags": ["pipeline"], "replay": dict(v["replay"], oracle_failure=what, replay_cmd=f"printf '%s\\n' <input_lines> | {hv.HCIMPL_PATH}")})
            if lm is not None:
                v["replay"]["model_output"] = [x[:400] for x in lm]
            violations.append(v)

    for k, c in enumerate(icases):
        g, segs, clip, head, geo, tail, (ox, oy, nx, ny) = metas[k]
        li = gi[k][1] if k < len(gi) else ["<missing>"]
        stats["lines"] += len(li)
        distinct.add("\n".join(li))
        if not li or not li[0].startswith("ok ") or len(li) != 1 + len(tail) + 3:
            stats["oracle_failures"] += 1
            viol("oracle", c, f"the hooks did not run through: {li[:1]}", li)
            continue
        seg_s, slot_s, ids_s, edges_s = [x.strip() for x in li[0][3:].split("|")]
        slots = [x.split() for x in slot_s.split(";") if x.strip()]
        ids = [int(x) for x in ids_s.split()]
        per = {}
        for (d, t), r in zip(slots, ids):
            if t != "nan":
                d = int(d)
                b2 = grid_beta2(nx, ny, d)
                e = b2 if b2 and b2 < d else d
                per[e] = min(per.get(e, r), r)
        keys = sorted(per, key=lambda e: per[e])
        edges = [x.strip() for x in edges_s.split(";") if x.strip()]
        nedges += len(edges)
        npoi += sum(int(e.split()[1]) for e in edges)
        ncorner += seg_s.count("C") // 2
        gx = head.split()
        mlines = [f"grid 2 0 0 ncl {gx[2]} {gx[3]} {gx[4]} {gx[5]} {gx[0]} {gx[1]}"] + (["ancinit"] if capture else []) + ["bndinit", f"gseg {head} {geo}",
                  f"gids {len(keys)} " + "".join(f"{e} " for e in keys) + f"{len(slots)}" + "".join(f" {d} {t}" for d, t in slots),
                  f"gedges {len(g.verts)} " + " ".join(f"{gg.rs(x)} {gg.rs(y)}" for x, y in g.verts) + f" {len(seg_s.split())} {seg_s} {len(ids)}" + "".join(f" {i}" for i in ids),
                  f"gins {len(edges)} " + " ".join(edges)] + tail
        mcases.append(Case(c.cid, mlines))
        keep.append((k, c, li, seg_s, slot_s, ids_s, edges, len(mlines) - len(tail)))
        # the named hypotheses of Props/C16Chain.lean, evaluated on the implementation's own data
        hyp = []
        if li[2].startswith("snap"):
            s5 = gg.parse_snap(li[2])
            m5 = gg.Mesh(s5)
            cxy = (Fr(gx[0]), Fr(gx[1]))
            oxy = (Fr(gx[2]), Fr(gx[3]))
            for (d, t), r in zip(slots, ids):
                if t == "nan":
                    continue
                d, t = int(d), Fr(t)
                cc, kk = divmod(d - 1, 4)
                ix, iy = cc % nx, cc // nx
                cor = [(ix, iy), (ix + 1, iy), (ix + 1, iy + 1), (ix, iy + 1)]
                a = tuple(oxy[q] + cor[kk][q] * cxy[q] for q in (0, 1))
                b = tuple(oxy[q] + cor[(kk + 1) % 4][q] * cxy[q] for q in (0, 1))
                want = (a[0] + t * (b[0] - a[0]), a[1] + t * (b[1] - a[1]))
                if not (0 < r < s5["n"]) or s5["u"][r] or m5.P[r] is None or m5.P[r][:2] != want:
                    hyp.append(f"position: slot ({d}, {t}) has dart {r} at {m5.P[r] if 0 < r < s5['n'] else None}, not at {want}")
            for etxt in edges:
                tk = etxt.split()
                a, ni, b = int(tk[0]), int(tk[1]), int(tk[-1])
                if not (0 < a < s5["n"] and 0 < b < s5["n"]) or s5["u"][a] or s5["u"][b]:
                    hyp.append(f"edge-darts-in-use: edge {etxt!r}")
                    continue
                pts = [m5.P[m5.b1[a]][:2]] + [(Fr(tk[2 + 2 * q]), Fr(tk[3 + 2 * q])) for q in range(ni)] + [m5.P[b][:2]]
                for q in (0, 1):
                    rel = [(pt[q] - oxy[q]) / cxy[q] for pt in pts]
                    if math.ceil(max(rel)) - 1 > math.floor(min(rel)):
                        hyp.append(f"edges-in-one-cell: edge {etxt!r} spans more than one cell along axis {q}")
                        break
        if hyp:
            stats["oracle_failures"] += 1
            viol("oracle", c, "; ".join(hyp[:4]), li)
        # end-to-end vs step by step, up to renumbering (implementation only)
        e2e = li[1 + len(tail):]
        step_snap = li[len(tail) - (2 if capture else 0)]
        if e2e[0] != "ok" or e2e[1] != "wf true true true" or not e2e[2].startswith("snap") or not step_snap.startswith("snap"):
            stats["oracle_failures"] += 1
            viol("oracle", c, f"the end-to-end call answered {e2e[:2]}", li)
        else:
            a, na = mesh_canon(gg.parse_snap(step_snap), capture)
            b, nb = mesh_canon(gg.parse_snap(e2e[2]), capture)
            if a != b or na != nb:
                stats["oracle_failures"] += 1
                viol("oracle", c, f"the map of `{cmd} {clip}` is not the hook-by-hook map up to renumbering ({na} vs {nb} darts, {len(a ^ b)} sides differ)", li)
    rc, outm = hv.run_bin(hv.HCMODEL, hv.render(mcases))
    gm = hv.split_outputs(outm)
    for j, (k, c, li, seg_s, slot_s, ids_s, edges, nhead) in enumerate(keep):
        lm = gm[j][1] if j < len(gm) else ["<missing>"]
        tail_i = [canon_clip(x) for x in li[1:1 + len(lm) - nhead]]
        tail_m = [canon_clip(x) for x in lm[nhead:]]
        at = nhead - 4
        bad = None
        if len(lm) < nhead:
            bad = f"model transcript too short: {lm[-1:]}"
        elif lm[at] != f"ok {seg_s} | {slot_s}":
            bad = f"step 1: impl={seg_s[:150]} | {slot_s[:150]!r} model={lm[at][:300]!r}"
        elif lm[at + 1] != ("ok " + ids_s).strip():
            bad = f"steps 2-3: impl ids={ids_s[:200]!r} model={lm[at + 1][:200]!r}"
        elif sorted(x.strip() for x in lm[at + 2][2:].split(";") if x.strip()) != sorted(edges):
            bad = f"step 4: impl edges={sorted(edges)[:4]} model={lm[at + 2][:300]!r}"
        elif lm[at + 3] != "ok":
            bad = f"step 5: model answered {lm[at + 3]!r}"
        elif tail_i != tail_m:
            jj = next((q for q, (a, b) in enumerate(zip(tail_i, tail_m)) if a != b), min(len(tail_i), len(tail_m)))
            bad = f"after step 5 (line {jj} of the tail {metas[k][5]}): impl={tail_i[jj][:200] if jj < len(tail_i) else None!r} model={tail_m[jj][:200] if jj < len(tail_m) else None!r}"
        if bad:
            stats["disagreements"] += 1
            viol("correspondence", icases[k], bad, li, lm)
    stats["distinct_nontrivial"] = len(distinct)
    notes = [f"pipeline tie ({cmd}, {prefix}): {len(icases)} geometries, {nedges} new edges with {npoi} intermediate points of interest, {ncorner} corner "
             f"intersections; clips none/left/right in turn" + ("; classify after the clip" if capture else "")]
    return {"stats": stats, "violations": violations, "samples": [{"case": icases[0].cid, "input": [x[:300] for x in icases[0].lines], "impl_output": [x[:300] for x in gi[0][1][:3]]}] if icases and gi else [], "notes": notes}


# ---- boundary segments through grid corners (outside general position, handled by the kernel: IntersecCorner) ----------

def corner_geometry(rng, want_corner=True):
    """exact family: closed polygon of 3-6 edges whose steps are (cell size) x ({0} u {2^a}) in each direction, vertices at
    cell centres-ish offsets so that no vertex lies on a grid line (no origin shift), at least one edge passing through a
    grid corner strictly inside it"""
    cx, cy = rng.choice([(Fr(1), Fr(1)), (Fr(1), Fr(2)), (Fr(1, 2), Fr(1)), (Fr(2), Fr(2)), (Fr(1, 2), Fr(1, 2))])
    vals = [0, 1, 1, 2, 2, 4]
    for _ in range(400):
        k = rng.randint(3, 6)
        steps = []
        for _ in range(k - 1):
            steps.append((rng.choice([1, -1]) * rng.choice(vals), rng.choice([1, -1]) * rng.choice(vals)))
        last = (-sum(a for a, _ in steps), -sum(b for _, b in steps))
        if abs(last[0]) not in vals or abs(last[1]) not in vals:
            continue
        steps.append(last)
        if any(st == (0, 0) for st in steps):
            continue
        pts = [(0, 0)]
        for a, b in steps[:-1]:
            pts.append((pts[-1][0] + a, pts[-1][1] + b))
        if len(set(pts)) != len(pts) or max(abs(x) for x, _ in pts) > 7 or max(abs(y) for _, y in pts) > 7:
            continue
        # vertices at integer offsets from the minimum, in cell units: the grid lines sit at min + 1/2 + Z
        fx, fy = Fr(rng.choice([-3, 0, 1, 5]), 4), Fr(rng.choice([-2, 0, 3, 7]), 4)
        lp = [(fx + x * cx, fy + y * cy) for x, y in pts]
        if not gg.loops_simple([lp]):
            continue
        if gg.area2(lp) == 0:
            continue
        poi_mode = rng.choice(["all", "all", "none", "some"])
        g = gg.Geometry([lp], gg.choose_poi(rng, [lp], poi_mode), (cx, cy), "corner")
        g.interior_left, g.poi_mode = gg.area2(lp) > 0, poi_mode
        ox, oy, nx, ny = g.grid()
        if any(((x - ox) / cx).denominator == 1 or ((y - oy) / cy).denominator == 1 for x, y in g.verts):
            continue
        if g.general_position() == want_corner:
            continue          # want_corner: some edge through a corner; otherwise: general position (same exact family)
        return g
    return None


def corner_cases(rng, count, cmd="grisubal", oracle_name="c16", obs=("wf", "snap")):
    """the end-to-end command on polygons with an edge through a grid corner, several segment orders (used by C17, whose
    statement has no general-position clause; under C16 these geometries are correspondence-only: pipeline_tie)"""
    cases = []
    k = 0
    tries = 0
    while k < count and tries < 40 * count:
        tries += 1
        g = corner_geometry(rng)
        if g is None:
            continue
        k += 1
        for rot in sorted({0, rng.randrange(len(g.segs)), rng.randrange(len(g.segs))}):
            segs = g.segs[rot:] + g.segs[:rot]
            if rng.random() < 0.3:
                segs = segs[::-1]
            for clip in ("none", "left", "right"):
                cases.append(Case(f"{cmd}-corner-{k}-{rot}-{clip}", [g.line(cmd, clip, segs=segs)] + list(obs), oracle=oracle_name,
                                  meta={"geo": g, "clip": clip, "expect": "mesh", "sig": f"corner-{clip}", "facts": facts_of(g)}))
    return cases


# ---- geometry vertices on grid lines (outside general position; the kernel keeps them: only corners shift the origin) -----

def online_geometry(rng):
    """exact family (every corner a point of interest; closed polygon of 3-6 edges whose steps are (cell size) x ({0} u
    {1/2, 1, 2, 4}) in each direction, so that every f64 operation of step 1 is exact): at least one vertex lies on a grid
    line of the grid the kernel chooses; none on a grid corner, none whose two neighbours share a cell (those shift the
    origin), no segment through a grid corner or along a grid line"""
    import math
    cx, cy = rng.choice([(Fr(1), Fr(1)), (Fr(1), Fr(2)), (Fr(1, 2), Fr(1)), (Fr(2), Fr(2))])
    vals = [0, Fr(1, 2), Fr(1, 2), 1, 1, 2, 4]
    for _ in range(2000):
        k = rng.randint(3, 6)
        steps = [(rng.choice([1, -1]) * rng.choice(vals), rng.choice([1, -1]) * rng.choice(vals)) for _ in range(k - 1)]
        last = (-sum(a for a, _ in steps), -sum(b for _, b in steps))
        if abs(last[0]) not in vals or abs(last[1]) not in vals:
            continue
        steps.append(last)
        if any(st == (0, 0) for st in steps):
            continue
        pts = [(Fr(0), Fr(0))]
        for a, b in steps[:-1]:
            pts.append((pts[-1][0] + a, pts[-1][1] + b))
        if len(set(pts)) != len(pts) or max(abs(x) for x, _ in pts) > 7 or max(abs(y) for _, y in pts) > 7:
            continue
        fx, fy = Fr(rng.choice([-3, 0, 1, 5]), 4), Fr(rng.choice([-2, 0, 3, 7]), 4)
        lp = [(fx + x * cx, fy + y * cy) for x, y in pts]
        if not gg.loops_simple([lp]) or gg.area2(lp) == 0:
            continue
        if gg.area2(lp) < 0:
            lp = lp[::-1]
        g = gg.Geometry([lp], gg.choose_poi(rng, [lp], "all"), (cx, cy), "online")
        g.interior_left, g.poi_mode = True, "all"
        ox, oy, nx, ny = g.grid()
        onl = [(((x - ox) / cx).denominator == 1, ((y - oy) / cy).denominator == 1) for x, y in g.verts]
        if not any(a or b for a, b in onl) or any(a and b for a, b in onl):
            continue
        n = len(lp)
        cellof = lambda p: (math.floor((p[0] - ox) / cx), math.floor((p[1] - oy) / cy))
        if any((a or b) and cellof(lp[(i - 1) % n]) == cellof(lp[(i + 1) % n]) for i, (a, b) in enumerate(onl)):
            continue
        ok = True
        for (a, b) in g.segs:
            p, q = g.verts[a], g.verts[b]
            if (onl[a][0] and onl[b][0] and p[0] == q[0]) or (onl[a][1] and onl[b][1] and p[1] == q[1]):
                ok = False
            for i in range(nx + 1):
                gx = ox + i * cx
                if (p[0] - gx) * (q[0] - gx) < 0:
                    t = (gx - p[0]) / (q[0] - p[0])
                    if ((p[1] + t * (q[1] - p[1]) - oy) / cy).denominator == 1:
                        ok = False
        if not ok:
            continue
        g.on_line = [i for i, (a, b) in enumerate(onl) if a or b]
        return g
    return None


def online_geometries(rng, count):
    """(geometry, segment order) pairs"""
    res = []
    while len(res) < count:
        g = online_geometry(rng)
        if g is None:
            break
        rot = rng.randrange(len(g.segs))
        res.append((g, g.segs[rot:] + g.segs[:rot]))
    return res


def corner_geometries(rng, count, want_corner=True):
    res = []
    tries = 0
    while len(res) < count and tries < 40 * count:
        tries += 1
        g = corner_geometry(rng, want_corner)
        if g is None:
            continue
        rot = rng.randrange(len(g.segs))
        segs = g.segs[rot:] + g.segs[:rot]
        res.append((g, segs[::-1] if rng.random() < 0.3 else segs))
    return res


def pipeline_tie(pairs, prefix):
    """steps 1-3 of the kernel, model vs implementation only (no clause of the property is evaluated: these geometries lie
    outside the statement's `general position`): `gcrossd` for every segment on the grid the kernel would choose (slots as
    identical text), then `gids` on the concatenated slot vector of the implementation (steps23_run: identical ids, wf,
    snapshot; the hook-level oracle of steps 2+3 applies, it does not depend on the geometry)"""
    import math
    cases, metas = [], []
    for k, (g, segs) in enumerate(pairs):
        ox, oy, nx, ny = g.grid()
        head = " ".join(gg.rs(q) for q in (g.cell[0], g.cell[1], ox, oy)) + f" {nx} {ny} "
        cases.append(Case(f"{prefix}-{k}", ["new 2 0 0"] + ["gcrossd " + head + " ".join(gg.rs(q) for q in (*g.verts[a], *g.verts[b])) for a, b in segs]))
        metas.append((g, segs, f"grid 2 0 0 ncl {gg.rs(ox)} {gg.rs(oy)} {nx} {ny} {gg.rs(g.cell[0])} {gg.rs(g.cell[1])}"))
    res = hv.run_pair(cases)
    stats = {"cases": len(cases), "lines": 0, "disagreements": 0, "oracle_failures": 0, "impl_outcomes": {}, "ops": {"gcrossd": sum(len(c.lines) - 1 for c in cases)},
             "distinct_nontrivial": 0, "exhaustive": False}
    violations, distinct, raw = [], set(), []
    nseg = unwritten = shifted = dropped_ends = 0
    for (c, li, lm), (g, segs, gridline) in zip(res, metas):
        stats["lines"] += len(li)
        distinct.add("\n".join(li))
        if li != lm:
            stats["disagreements"] += 1
            if len(violations) < 5:
                j = next((j for j, (a, b) in enumerate(zip(li, lm)) if a != b), min(len(li), len(lm)))
                violations.append({"kind": "correspondence", "found_input": False, "sig": "gcrossd",
                                   "what": f"step 1 of grisubal on case {c.cid}: {c.lines[j] if j < len(c.lines) else None!r}: impl={li[j][:200] if j < len(li) else None!r} "
                                           f"model={lm[j][:200] if j < len(lm) else None!r}",
                                   "replay": {"case": c.cid, "input_lines": c.lines, "impl_output": li, "model_output": lm,
                                              "theorem_or_correspondence": "slotsOf (Model/Grisubal.lean) vs grisubal::verif::intersection_data"}})
            continue
        slots = []
        ox, oy, nx, ny = g.grid()
        cellof = lambda p: (math.floor((p[0] - ox) / g.cell[0]), math.floor((p[1] - oy) / g.cell[1]))
        for (a, b), ln in zip(segs, li[1:]):
            nseg += 1
            these = [x.split() for x in ln[2:].split(";") if x.strip()]
            slots += [(0, "nan") if x[1] == "nan" else (int(x[0]), Fr(x[1])) for x in these]
            ca, cb = cellof(g.verts[a]), cellof(g.verts[b])
            if any(x[1] == "nan" for x in these) and ca[0] != cb[0] and ca[1] != cb[1] and \
                    any(v in getattr(g, "on_line", []) for v in (a, b)):
                dropped_ends += 1
        unwritten += sum(1 for _, t in slots if t == "nan")
        seen = False
        for _, t in slots:
            if t == "nan":
                seen = True
            elif seen:
                shifted += 1
                break
        raw.append((gridline, slots))
    r2 = steps23_run(raw, prefix + "-ids")
    stats["distinct_nontrivial"] = len(distinct) + r2["stats"]["distinct_nontrivial"]
    for kk in ("cases", "lines", "disagreements", "oracle_failures"):
        stats[kk] += r2["stats"][kk]
    for kk in ("impl_outcomes", "ops"):
        for a, b in r2["stats"][kk].items():
            stats[kk][a] = stats[kk].get(a, 0) + b
    notes = [f"{prefix}: {len(cases)} geometries, {nseg} segments; real slot vectors with {unwritten} unwritten slots, {shifted} vectors with an unwritten slot "
             f"before a written one (the situation of the repaired D16c: ids = slot numbers on both sides); "
             f"{dropped_ends} diagonal-branch segments with an end on a grid line and an unwritten slot (observation, see SPEC['observations'])"] + r2["notes"]
    return {"stats": stats, "violations": violations + r2["violations"], "samples": r2["samples"][:1], "notes": notes}


# ---- clip step: model (Model/Clip.lean) vs the real clip_left / clip_right (hook grisubal::verif) -----------------------

def canon_clip(line):
    """`delete_darts` iterates a HashSet: which *stale* vertex slots (slots that are no vertex identifier of an in-use dart
    any more) still hold coordinates depends on that order; compare coordinates at live vertex identifiers only"""
    if not line.startswith("snap "):
        return line
    try:
        sn = gg.parse_snap(line)
        m = gg.Mesh(sn)
        live = set(m.vertices)
        parts = [p.strip() for p in line.split("|")]
        out = []
        for p in parts:
            if p.startswith("a0:"):
                toks = p[3:].split()
                out.append("a0: " + " ".join(t if d in live else "~" for d, t in enumerate(toks)))
            else:
                out.append(p)
        return " | ".join(out)
    except Exception:   # noqa: BLE001
        return line


def grid_region_case(rng, k):
    """a grid, a set S of cells; every side between S and its complement is tagged (S side = `inner`, other side = the
    opposite tag): clipping `inner` must delete exactly S; variants: a side left untagged (the closure leaks), a wrong tag
    (error), explicit Boundary::None tags, tags on the outer rim"""
    nx, ny = rng.randint(2, 5), rng.randint(1, 4)
    n = 4 * nx * ny
    cells = [(i, j) for i in range(nx) for j in range(ny)]
    S = set(rng.sample(cells, rng.randint(1, max(1, len(cells) - 1))))
    inner = rng.choice(["L", "R"])
    outer = "R" if inner == "L" else "L"
    base = lambda i, j: 1 + 4 * (i + nx * j)   # noqa: E731
    lines = [f"grid 2 0 0 ncl 0 0 {nx} {ny} 1 1", "bndinit"]
    tags = []
    for (i, j) in cells:
        for k2, (di, dj) in enumerate(((0, -1), (1, 0), (0, 1), (-1, 0))):
            ni, nj = i + di, j + dj
            if (i, j) in S and 0 <= ni < nx and 0 <= nj < ny and (ni, nj) not in S:
                d = base(i, j) + k2
                e = base(ni, nj) + (k2 + 2) % 4
                tags.append((d, inner))
                tags.append((e, outer))
    variant = k % 6
    if variant == 1 and tags:
        tags.pop(rng.randrange(len(tags)))                      # one tag missing
    elif variant == 2 and tags:
        i = rng.randrange(len(tags))
        tags[i] = (tags[i][0], "L" if tags[i][1] == "R" else "R")   # one tag flipped
    elif variant == 3:
        tags += [(rng.randint(1, n), "N") for _ in range(3)]
    elif variant == 4:
        tags.append((rng.randint(1, n), rng.choice("LR")))       # a stray tag
    rng.shuffle(tags)
    lines += [f"wbnd {d} {t}" for d, t in tags]
    side = "left" if (inner == "L") == (variant != 5) else "right"
    lines += ["snap", f"clip {side}", "snap", "wf"]
    return Case(f"clip-grid-{k}", lines, meta={"sig": "clip-grid"})


def small_clip_cases(rng, budget):
    """every well-formed 2-map with <= 3 darts (sampled 4-dart maps) x random tags, both sides"""
    import gens
    cases = []
    k = 0
    for n in range(1, 5):
        maps = list(gens.wf_maps2(n, with_unused=(n <= 3)))
        if n == 4:
            maps = rng.sample(maps, min(budget, len(maps)))
        for b0, b1, b2, u in maps:
            for rep in range(2 if n <= 3 else 1):
                lines = [gens.load_line(2, n, 0, [b0, b1, b2], u), "bndinit"]
                for d in range(1, n + 1):
                    if rng.random() < 0.8:
                        lines.append(f"wv {d} {d} {d * d % 5}")
                    t = rng.choice("LRN---")
                    if t != "-":
                        lines.append(f"wbnd {d} {t}")
                lines += [f"clip {rng.choice(['left', 'right'])}", "snap", "wf"]
                k += 1
                cases.append(Case(f"clip-small-{n}-{k}", lines, meta={"sig": "clip-small"}))
    return cases


def face_set(sn):
    """canonical mesh: the set of faces as cyclic sequences of exact coordinates (rotation-normalised)"""
    m = gg.Mesh(sn)
    out = set()
    for cyc in m.faces:
        pts = m.face_pts(cyc)
        if any(p is None for p in pts):
            return None
        k = min(range(len(pts)), key=lambda i: pts[i])
        out.add(tuple(pts[k:] + pts[:k]))
    return out


def real_clip_cases(geos):
    """the maps the real grisubal builds BEFORE clipping, rebuilt from `grisubal none`: same betas and coordinates, Boundary tags
    recomputed from the captured boundary (dart along the boundary = Left, its beta2 = Right, as mark_boundary does); both drivers
    clip them, and the implementation's result must be the mesh `grisubal left|right` returns directly"""
    import gens
    icases = []
    for k, g in enumerate(geos):
        icases.append(Case(f"pre-{k}", [g.line("grisubal", "none"), "snap", g.line("grisubal", "left"), "snap", g.line("grisubal", "right"), "snap"]))
    rc, out = hv.run_bin(hv.HCIMPL, hv.render(icases))
    groups = hv.split_outputs(out)
    cases = []
    for k, g in enumerate(geos):
        li = groups[k][1] if k < len(groups) else []
        if len(li) != 6 or li[0] != "ok" or li[2] != "ok" or li[4] != "ok":
            continue
        sn = gg.parse_snap(li[1])
        m = gg.Mesh(sn)
        if sn["n"] > 2500:
            continue
        byv = {}
        for d in m.used:
            byv.setdefault(m.P[d], []).append(d)
        tags = {}
        ok = True
        for lp in g.captured_loops():
            for i in range(len(lp)):
                p, q = lp[i], lp[(i + 1) % len(lp)]
                cand = [d for pp, ds in byv.items() if gg.near(pp, p) for d in ds if gg.near(m.P[m.b1[d]], q)]
                if len(cand) != 1 or not m.b2[cand[0]]:
                    ok = False
                    break
                tags[cand[0]] = "L"
                tags[m.b2[cand[0]]] = "R"
        if not ok or not tags:
            continue
        pre = [gens.load_line(2, sn["n"] - 1, 0, [sn["b"][0], sn["b"][1], sn["b"][2]], sn["u"])]
        pre += [f"wv {v} {gg.rs(sn['a0'][v][0])} {gg.rs(sn['a0'][v][1])}" for v in m.vertices]
        pre += ["bndinit"] + [f"wbnd {d} {t}" for d, t in sorted(tags.items())]
        for side, direct in (("left", li[3]), ("right", li[5])):
            cases.append(Case(f"clip-real-{k}-{side}", pre + [f"clip {side}", "snap", "wf"], oracle="clip-real",
                              meta={"sig": "clip-real", "direct": direct}))
    return cases


def real_clip_oracle(case, li):
    if case.oracle != "clip-real":
        return None
    if len(li) < 3 or li[-3] != "ok" or li[-1] != "wf true true true":
        return f"clip-real: clip on the rebuilt map answered {li[-3:-2]} / {li[-1:]}"
    a = face_set(gg.parse_snap(li[-2]))
    b = face_set(gg.parse_snap(case.meta["direct"]))
    if a is None or b is None or a != b:
        return "clip-real: clipping the rebuilt pre-clip map does not give the mesh grisubal returns with the same Clip"
    return None


def clip_tie(rng, tier):
    mult = 1 if tier == "quick" else 8
    cases = [grid_region_case(rng, k) for k in range(300 * mult)] + small_clip_cases(rng, 400 * mult)
    return hv.campaign(cases, None, canon=canon_clip)


# ---------------------------------------------------------------------------------------------
# run
# ---------------------------------------------------------------------------------------------

def run(tier, seed):
    rng = random.Random(seed)
    mult = 1 if tier == "quick" else 8
    parts = []
    parts.append(("orient: detect_orientation_issue, model vs implementation", hv.campaign(orient_cases(rng, tier), orient_oracle)))
    geo = geometry_cases(rng, 130 * mult)
    parts.append(("grisubal on polygons in general position (implementation, exact oracle)", gg.impl_campaign(geo, oracle)))
    parts.append(("overlapping grid: model sizing formula vs bounding box of the returned map", grid_tie(geo)))
    parts.append(("step 1 direct (hook intersection_data): (dart, t) pairs, model vs implementation, exact family", step1_tie(rng, 1500 * mult, True)))
    parts.append(("step 1 direct (hook intersection_data): (dart, t) pairs, general segments (t within 1e-9)", step1_tie(rng, 500 * mult, False)))
    parts.append(("step 1 direct (hook intersection_data): segments through grid corners (NaN slots), exact family (outside GenPos: correspondence only)",
                  step1_tie(rng, 400 * mult, True, corner=True)))
    parts.append(("clip step: model vs the real clip_left / clip_right on hand-made tagged maps", clip_tie(rng, tier)))
    pre = [c.meta["geo"] for c in geo if c.meta["clip"] == "none" and not c.meta["geo"].loops_crossing_nothing()
           and not c.meta["geo"].flat_chords()[0]][:40 * mult]
    parts.append(("clip step on the real pre-clip maps (rebuilt from grisubal none + recomputed tags): model vs implementation, "
                  "and = grisubal left|right", hv.campaign(real_clip_cases(pre), real_clip_oracle, canon=canon_clip)))
    zon = [z for z in (zonogon_geometry(rng) for _ in range(60 * mult)) if z]
    parts.append(("step 1 (crossings per segment): model vs implementation, exact family (zonogons, power-of-two cells)", cross_tie(zon, True)))
    gen = [c.meta["geo"] for c in geo if c.meta["clip"] == "none" and not c.meta["geo"].loops_crossing_nothing()
           and not c.meta["geo"].flat_chords()[0]][:60 * mult]
    parts.append(("step 1 (crossings per segment): model vs implementation, general polygons (tolerance 1e-9)", cross_tie(gen, False)))
    parts.append(("loops inside one grid cell", gg.impl_campaign(tiny_loop_cases(rng, 8 * mult), oracle)))
    parts.append(("directed: nested V dips through one cell side", gg.impl_campaign(chevron_cases(), oracle)))
    shg = shift_geometries(rng, 40 * mult, False)
    parts.append(("origin-shift loop of compute_overlapping_grid (vertices on corners of the first grid): grid of the returned map vs model "
                  "`overlappingGrid` vs independent evaluation", shift_grid_tie(shg, "grisubal")))
    parts.append(("shapes without extent along an axis / without vertices are refused (InvalidShape), model vs implementation",
                  flat_shape_cases(rng, 60 * mult, "grisubal")))
    parts.append(("origin-shift loop: grisubal on the shifted polygons that are in general position w.r.t. the FINAL grid (in scope, exact oracle)",
                  gg.impl_campaign(shift_cases([g for g in shg if g.general_position()]), oracle)))
    zp = []
    for z in (zonogon_geometry(rng) for _ in range(25 * mult)):
        if z:
            sg = z.segs[:]
            rng.shuffle(sg)
            zp.append((z, sg))
    parts.append(("whole pipeline hook by hook (segments, slots, darts, edge data, insert_edges, clip), model vs implementation, and = the "
                  "end-to-end call up to renumbering: zonogons + non-convex exact polygons in general position",
                  pipeline5_tie(zp + corner_geometries(rng, 25 * mult, want_corner=False), False, "pipe")))
    parts.append(("whole pipeline hook by hook: polygons with an edge through a grid corner (outside general position: correspondence only)",
                  pipeline5_tie(corner_geometries(rng, 25 * mult), False, "pipe-corner")))
    parts.append(("steps 2 + 3 direct (hook intersection_darts): ids + map after insertion, model vs implementation, + hook-level oracle",
                  steps23_tie(rng, 800 * mult)))
    parts.append(("edges through grid corners (outside general position: steps 1-3, model vs implementation only)",
                  pipeline_tie(corner_geometries(rng, 80 * mult), "corner")))
    parts.append(("vertices on grid lines (outside general position: steps 1-3, model vs implementation only)",
                  pipeline_tie(online_geometries(rng, 80 * mult), "online")))
    parts.append(("mis-oriented boundaries", gg.impl_campaign(misoriented_cases(rng, 40 * mult), oracle)))
    parts.append(("inconsistently nested loops with clipping", gg.impl_campaign(inconsistent_nesting_cases(rng, 30 * mult), oracle)))
    return hv.merge_results(parts)


# ---------------------------------------------------------------------------------------------
# known findings
# ---------------------------------------------------------------------------------------------

def matches(known, v):
    """a listed finding matches only an oracle failure whose structural signature (classify_failure: recomputed from
    the geometry and the resulting mesh, never from the failure text) is the listed one"""
    return v.get("kind") == "oracle" and v.get("finding") is not None and v.get("finding") == known.get("matcher", {}).get("signature")
