"""C08 — operations composed in one transaction act like the same calls in sequence."""
import random

import gens
import hv
from hv import Case

SPEC = {
    "lean_modules": ["Honeycomb.Props.C08", "Honeycomb.Props.C01GenApi", "Honeycomb.Props.C02GenApi", "Honeycomb.Props.C14Gen", "Honeycomb.Props.C15Gen"],
    # the code fact C08 rests on -- every read and write of an operation goes through the transaction handed to it -- is part of
    # what the translator recognises: `self.beta_transac::<i>(trans, …)`, `self.betas[(i, d)].read(trans)`, `….read(trans)` are the
    # only read shapes it accepts in the translated functions (the whole 2-D and 3-D (un)link / (un)sew API and the single-vertex
    # insertion kernel, swap_edge and the two cut kernels), so a non-transactional read there (`self.beta::<i>(…)`, `is_i_free`, `is_free`, `orbit(…)`) is a refused shape
    "gen": ["dispatch2", "dispatch3", "vins", "remesh"],
    "required_theorems": ["C08_block_equals_sequence", "C08_log_block_equals_sequence",
                          "C01_gen_api", "C02_gen_api", "C14_gen_insertVertexOnEdge", "C15_gen_swapEdge", "C15_gen_cutOuterEdge", "C15_gen_cutInnerEdge"],
    "trusted_base": [
        "Lean 4.33 kernel; axioms propext, Classical.choice, Quot.sound only",
        "model of fast-stm's transaction log (Honeycomb/Model/Stm.lean) and theorem T1 (log semantics = sequential semantics)",
        "hand-written model of the operations, tied to /repo by the differential run (each program is executed on the real code both "
        "ways: one atomically_with_err block vs one block per operation)",
        "Rust harness hcimpl, tools/*.py",
    ],
    "assumptions": [
        "that a real operation reads shared state only through its Transaction is a fact about the code, tested by this campaign, not proved",
    ],
    "rule": "(2-D stream; the 3-D, kernel and remeshing streams are described in their own stats) straight-line programs of 2..5 transactional operations (link/unlink/sew/unsew 1-2, id and orbit queries, vertex/attribute "
            "reads and writes, remove_free_dart_transac) on every kind of small WF 2-map, later operations reusing the darts of earlier ones; "
            "each program is run in sequence and in one block from the same initial state; oracle (implementation only): if every operation "
            "succeeds in sequence, the block returns the same per-operation results and the same full snapshot. "
            "distinct_nontrivial = distinct implementation transcripts; 'all_ok_programs' = programs whose sequence run succeeded.",
    "not_proved": ["that each real operation is a closure over its Transaction only (code fact; campaign, with a separate stream "
                   "for the vertex-insertion kernels whose freeness test used to read committed state: D3, fixed in /repo cc2bcd4)"],
}

N_ALLOK = [0]


def oracle_c08(case, li):
    """output layout: init lines…, seq results (k lines), snap, reload init lines…, 'ok'(tx), queued*k, tx-line, snap"""
    k = case.meta["k"]
    ninit = case.meta["ninit"]
    seq = li[ninit:ninit + k]
    snap1 = li[ninit + k]
    base = ninit + k + 1 + ninit
    txline = li[base + 1 + k]
    snap2 = li[base + 2 + k]
    if any(x.startswith("<missing") for x in li):
        return "driver died"
    if all(x == "ok" or x.startswith("ok ") for x in seq):
        N_ALLOK[0] += 1
        payload = [x[3:] if x.startswith("ok ") else "" for x in seq]
        want = "tx ok " + " ; ".join(payload)
        if txline != want:
            return f"sequence succeeded with results {seq} but the single block returned {txline!r}"
        if snap1 != snap2:
            return f"final maps differ: sequence={snap1!r} block={snap2!r}"
    return None


def tx_op(rng, n, darts):
    l, r = rng.choice(darts), rng.choice(darts)
    k = rng.random()
    if k < 0.12:
        return f"link 1 {l} {r}"
    if k < 0.22:
        return f"link 2 {l} {r}" if l != r else f"unlink 2 {l}"
    if k < 0.34:
        return f"sew 1 {l} {r}"
    if k < 0.46:
        return f"sew 2 {l} {r}" if l != r else f"unsew 2 {l}"
    if k < 0.54:
        return f"unlink 1 {l}"
    if k < 0.60:
        return f"unlink 2 {l}"
    if k < 0.68:
        return f"unsew 1 {l}"
    if k < 0.76:
        return f"unsew 2 {l}"
    if k < 0.80:
        return f"vid {l}"
    if k < 0.83:
        return f"fid {l}"
    if k < 0.86:
        return f"orbit {rng.choice(['v', 'e', 'f', 'vl', 'fl', 'c12', 'c02'])} {l}"
    if k < 0.89:
        return f"rv {l}"
    if k < 0.92:
        return f"wv {l} {gens.dy(rng)} {gens.dy(rng)}"
    if k < 0.95:
        return f"wa {rng.choice([1, 2, 3])} {l} {rng.randint(1, 99)}"
    if k < 0.97:
        return f"eid {l}"
    # accessors a coverage measurement (notes/TIECOV.md) showed no stream executed transactionally
    return rng.choice([f"beta {rng.randint(0, 2)} {l}", f"isun {l}", f"xv {l}", f"xa {rng.choice([1, 2, 3])} {l}",
                       f"ra {rng.choice([1, 2, 3])} {l}"])


def valid_topo_ops(b0, b1, b2, darts):
    """operations whose topological precondition holds on the (simulated) betas"""
    out = []
    for l in darts:
        if b1[l] != 0:
            out += [f"unlink 1 {l}", f"unsew 1 {l}"]
        if b2[l] != 0:
            out += [f"unlink 2 {l}", f"unsew 2 {l}"]
        for r in darts:
            if b1[l] == 0 and b0[r] == 0:
                out += [f"link 1 {l} {r}", f"sew 1 {l} {r}"]
            if l != r and b2[l] == 0 and b2[r] == 0:
                out += [f"link 2 {l} {r}", f"sew 2 {l} {r}"]
    return out


def apply_topo(op, b0, b1, b2):
    t = op.split()
    if t[0] in ("link", "sew"):
        i, l, r = int(t[1]), int(t[2]), int(t[3])
        if i == 1:
            b1[l], b0[r] = r, l
        else:
            b2[l], b2[r] = r, l
    elif t[0] in ("unlink", "unsew"):
        i, l = int(t[1]), int(t[2])
        if i == 1:
            r = b1[l]
            b1[l], b0[r] = 0, 0
        else:
            r = b2[l]
            b2[l], b2[r] = 0, 0


def programs(count, rng, mask=7):
    cases = []
    maps = {n: list(gens.wf_maps2(n, with_unused=False)) for n in (2, 3, 4)}
    for c in range(count):
        n = rng.choice((2, 3, 3, 4, 4, 4))
        b0, b1, b2, u = [list(x) for x in rng.choice(maps[n])]
        darts = list(range(1, n + 1))
        init = [gens.load_line(2, n, mask, [b0, b1, b2], u)] + gens.value_lines(rng, n, mask, pv=0.95, pa=0.5)
        k = rng.randint(2, 5)
        ops = []
        for _ in range(k):
            cand = valid_topo_ops(b0, b1, b2, darts)
            if cand and rng.random() < 0.6:
                op = rng.choice(cand)      # later operations depend on the effects of the earlier ones
                apply_topo(op, b0, b1, b2)
            else:
                op = tx_op(rng, n, darts)
                if op.split()[0] in ("link", "sew", "unlink", "unsew"):
                    ok = op in cand
                    if ok:
                        apply_topo(op, b0, b1, b2)
            ops.append(op)
        lines = init + ops + ["snap"] + init + ["tx"] + ops + ["endtx", "snap"]
        cases.append(Case(f"p{c}", lines, oracle="c08", meta={"sig": "program", "k": k, "ninit": len(init)}))
    return cases


# ---------------------------------------------------------------------------------------------
# separate stream: kernels with non-transactional reads (scan_tx hit list: cell_insertion/vertices.rs uses
# `cmap.is_free`) composed with core operations that edit their spare darts in the same program (D3 class)
# ---------------------------------------------------------------------------------------------

KERNEL_OPS = ("insv", "insvs")


def oracle_c08k(case, li):
    """layout: init, snap S0, ops (k lines), snap S1, init, tx, queued*k, tx-line, snap S2.
    Both directions: all ops succeed in sequence => same results and map in one block; the sequence first fails at
    op j => the block returns that error and publishes nothing."""
    if any(x.startswith("<missing") for x in li):
        return "driver died"
    k, ninit = case.meta["k"], case.meta["ninit"]
    s0 = li[ninit]
    seq = li[ninit + 1:ninit + 1 + k]
    s1 = li[ninit + 1 + k]
    base = ninit + 2 + k + ninit
    txline = li[base + 1 + k]
    s2 = li[base + 2 + k]
    bad = [j for j, x in enumerate(seq) if not (x == "ok" or x.startswith("ok "))]
    if not bad:
        N_ALLOK[0] += 1
        payload = [x[3:] if x.startswith("ok ") else "" for x in seq]
        want = "tx ok " + " ; ".join(payload)
        if txline != want:
            return f"sequence succeeded with results {seq} but the single block returned {txline!r}"
        if s1 != s2:
            return f"final maps differ: sequence={s1!r} block={s2!r}"
        return None
    j = bad[0]
    if txline != "tx " + seq[j]:
        return f"the sequence first fails at op {j} with {seq[j]!r} but the single block returned {txline!r}"
    if s2 != s0:
        return "the failed block changed the map"
    return None


def kernel_programs(count, rng, mask=0):
    cases = []
    maps = {n: list(gens.wf_maps2(n, with_unused=False)) for n in (3, 4, 5)}
    for c in range(count):
        n = rng.choice((3, 4, 4, 5))
        b0, b1, b2, u = rng.choice(maps[n]) if n < 5 else maps[5][rng.randrange(len(maps[5]))]
        darts = list(range(1, n + 1))
        init = [gens.load_line(2, n, mask, [b0, b1, b2], u)] + [f"wv {d} {gens.dy(rng)} {gens.dy(rng)}" for d in darts]
        e = rng.choice(darts)
        others = [d for d in darts if d != e]
        rng.shuffle(others)
        x, y = others[0], others[1]
        ops = []
        # edits of the spare darts AND of the darts around the edge itself (its two darts and their successors): the kernel
        # must see every one of them through the transaction
        be = b2[e]
        around = [d for d in (e, be, b1[e], b1[be] if be else 0) if d]
        for _ in range(rng.randint(1, 3)):
            t = rng.choice([x, x, y, rng.choice(darts)] + around + around)
            o = rng.choice(darts)
            ops.append(rng.choice([f"link 2 {t} {o}", f"link 1 {t} {o}", f"link 1 {o} {t}", f"unlink 2 {t}", f"unlink 1 {t}",
                                   f"unsew 2 {t}", f"unsew 1 {t}", f"sew 2 {t} {o}", f"unlink 1 {o}"]))
        if rng.random() < 0.6:
            ops.append(f"insv {e} {x} {rng.choice([y, 0])} {rng.choice(['-', '1/4'])}")
        else:
            ops.append(f"insvs {e} 2 {x} {rng.choice([y, 0])} 1/2")
        k = len(ops)
        lines = init + ["snap"] + ops + ["snap"] + init + ["tx"] + ops + ["endtx", "snap"]
        cases.append(Case(f"k{c}", lines, oracle="c08k", meta={"sig": "kernel-program", "k": k, "ninit": len(init)}))
    # structured family: a two-dart edge 1|2 with successors, free alternative successors and free spare darts; the
    # program first re-routes a successor of one of the two edge darts (or bisects the same edge) and then inserts
    for c in range(count // 4):
        n = 10
        b0 = [0] * (n + 1); b1 = [0] * (n + 1); b2 = [0] * (n + 1)
        b2[1], b2[2] = 2, 1
        if rng.random() < 0.8:
            b1[1], b0[3] = 3, 1
        if rng.random() < 0.8:
            b1[2], b0[4] = 4, 2
        init = [gens.load_line(2, n, mask, [b0, b1, b2], [0] * (n + 1))] + [f"wv {d} {gens.dy(rng)} {gens.dy(rng)}" for d in range(1, 7)]
        pre = []
        side = rng.choice([1, 2])
        kind = rng.random()
        if kind < 0.4 and b1[side]:
            pre = [f"unlink 1 {side}", f"link 1 {side} {rng.choice([5, 6])}"]
        elif kind < 0.6 and not b1[side]:
            pre = [f"link 1 {side} {rng.choice([5, 6])}"]
        elif kind < 0.8:
            pre = [f"insv 1 7 8 {rng.choice(['-', '1/4'])}"]
        else:
            pre = [f"unsew 1 {side}"] if b1[side] else [f"sew 1 {side} 5"]
        last = rng.choice([f"insv 1 9 10 {rng.choice(['-', '3/4'])}", "insvs 1 2 9 10 1/2", f"insv 2 9 10 -"])
        ops = pre + [last]
        lines = init + ["snap"] + ops + ["snap"] + init + ["tx"] + ops + ["endtx", "snap"]
        cases.append(Case(f"ks{c}", lines, oracle="c08k", meta={"sig": "kernel-program", "k": len(ops), "ninit": len(init)}))
    # the design-round witness and its mirror image
    w = ["load 2 4 0 0 0 1 0 0 ; 0 2 0 0 0 ; 0 0 0 0 0 ; 0 0 0 0 0", "wv 1 0 0", "wv 2 1 0"]
    for name, init, ops in (("d3", w, ["link 2 3 4", "insv 1 3 0 -"]),
                            ("d3m", ["load 2 4 0 0 0 1 0 0 ; 0 2 0 0 0 ; 0 0 0 4 3 ; 0 0 0 0 0", "wv 1 0 0", "wv 2 1 0"],
                             ["unlink 2 3", "insv 1 3 0 -"])):
        lines = init + ["snap"] + ops + ["snap"] + init + ["tx"] + ops + ["endtx", "snap"]
        cases.append(Case(name, lines, oracle="c08k", meta={"sig": "kernel-program", "k": len(ops), "ninit": len(init)}))
    return cases


def programs3(count, rng):
    """3-D stream (CMap3): straight-line programs of link/unlink/sew/unsew of dimensions 1, 2, 3 and id/orbit queries on maps
    built from free darts and from the glued-faces family, biased so that later operations depend on the images written by the
    earlier ones of the SAME program (a 1-link of two darts that were 3-linked just before, a 3-sew of faces 1-linked just
    before, ...).  Same layout and two-directional oracle as `kernel_programs`."""
    cases = []
    fam = [x for x in gens.faces3_maps(2, 3)]
    for c in range(count):
        mask = rng.choice([31, 13, 5, 0, 1])
        if rng.random() < 0.5:
            n = rng.randint(3, 6)
            init = [f"new 3 {n} {mask}"]
        else:
            n, rows, _ = rng.choice(fam)
            extra = rng.randint(0, 2)
            init = [gens.load_line(3, n + extra, mask, [r + [0] * extra for r in rows], [0] * (n + extra + 1))]
            n += extra
        init += gens.value_lines(rng, n, mask, dim=3, pv=rng.choice([1.0, 0.7]), pa=rng.choice([1.0, 0.5, 0.0]))
        darts = list(range(1, n + 1))
        ops = []
        touched = []
        for _ in range(rng.randint(2, 5)):
            pool = touched + touched + darts if touched else darts
            l, r = rng.choice(pool), rng.choice(pool)
            k = rng.random()
            if rng.random() < 0.15:
                # vertex / attribute accessors of CMap3 inside the program (read, write, remove; removal flag; one image)
                st = rng.choice([1, 2, 3, 4, 5])
                op = rng.choice([f"rv {l}", f"xv {l}", f"wv {l} {gens.dy(rng)} {gens.dy(rng)} {gens.dy(rng)}", f"ra {st} {l}",
                                 f"wa {st} {l} {rng.randint(1, 99)}", f"xa {st} {l}", f"isun {l}", f"beta {rng.randint(0, 3)} {l}"])
            elif k < 0.22:
                op = f"{rng.choice(['link', 'sew'])} 3 {l} {r}" if l != r else f"unlink 3 {l}"
            elif k < 0.44:
                op = f"{rng.choice(['link', 'sew'])} 1 {l} {r}"
            elif k < 0.58:
                op = f"{rng.choice(['link', 'sew'])} 2 {l} {r}" if l != r else f"unlink 2 {l}"
            elif k < 0.80:
                op = f"{rng.choice(['unlink', 'unsew'])} {rng.choice([1, 2, 3])} {l}"
            elif k < 0.9:
                op = rng.choice([f"vid {l}", f"eid {l}", f"fid {l}", f"volid {l}"])
            else:
                op = f"orbit {rng.choice(['v', 'e', 'f', 'vol', 'c3', 'c10'])} {l}"
            touched += [l, r]
            ops.append(op)
        lines = init + ["snap"] + ops + ["snap"] + init + ["tx"] + ops + ["endtx", "snap"]
        cases.append(Case(f"q{c}", lines, oracle="c08k", meta={"sig": "program-3d", "k": len(ops), "ninit": len(init)}))
    # directed: both darts of a 1-link got their 3-images earlier in the same program (the mirrored 1-link must happen)
    for name, n, ops in (("q3a", 4, ["link 3 1 3", "link 3 2 4", "link 1 1 2"]),
                         ("q3b", 4, ["link 3 1 3", "link 3 2 4", "sew 1 1 2", "unlink 1 1"]),
                         ("q3c", 6, ["link 1 1 2", "link 1 2 3", "link 1 4 5", "link 1 5 6", "sew 3 2 5", "unsew 3 1"])):
        init = [f"new 3 {n} 1"] + [f"wv {d} {d} 0 0" for d in range(1, n + 1)]
        lines = init + ["snap"] + ops + ["snap"] + init + ["tx"] + ops + ["endtx", "snap"]
        cases.append(Case(name, lines, oracle="c08k", meta={"sig": "program-3d", "k": len(ops), "ninit": len(init)}))
    # directed: a face is OPENED earlier in the same program and then 3-sewn -- the open-face arm of three_sew / three_unsew (the extra
    # end-vertex pair, taken when beta0 of the left dart is null) must see the beta0 written by the program, not the committed one.
    # left path 8 -> 1 -> 2 -> 3, right path 4 -> 5 -> 6 -> 9, dart 7 = beta2(6); cutting 8->1 and 6->9 leaves the mirrored open faces
    # 1-2-3 / 4-5-6 (seeded change C08-11)
    pts = {8: "-1 0 0", 1: "0 0 0", 2: "1 0 0", 3: "1 1 0", 4: "0 1 0", 5: "1 1 0", 6: "1 0 0", 7: "0 0 0", 9: "0 0 0"}
    k = 0
    for mask in (1, 31, 0):
        for cut in ("unsew", "unlink"):
            for pre in (0, 1, 2):          # how many of the two cuts happen BEFORE the program (committed), the rest inside it
                for with7 in (True, False):
                    init = [f"new 3 9 {mask}"] + [f"flink 1 {a} {b}" for a, b in ((8, 1), (1, 2), (2, 3), (4, 5), (5, 6), (6, 9))]
                    if with7:
                        init.append("flink 2 6 7")
                    init += [f"wv {d} {pts[d]}" for d in (8, 1, 2, 3, 4, 5, 6, 7, 9)]
                    if mask & 1:
                        init += [f"wa 1 {d} {10 + d}" for d in (8, 1, 2, 3, 4, 5, 6, 7, 9)]
                    cuts = [f"{cut} 1 8", f"{cut} 1 6"]
                    init += [("f" + c) for c in cuts[:pre]]
                    ops = cuts[pre:] + ["sew 3 1 6", "vid 7", "rv 1", "rv 7"]
                    lines = init + ["snap"] + ops + ["snap"] + init + ["tx"] + ops + ["endtx", "snap"]
                    cases.append(Case(f"q3open{k}", lines, oracle="c08k", meta={"sig": "program-3d", "k": len(ops), "ninit": len(init)}))
                    k += 1
    return cases


def tri_programs(count, rng):
    """triangulation kernels composed with the edits that shape their face in the SAME transaction: (a) a convex polygon whose
    side is first bisected (insv) and the new vertex pushed outwards (wv), then fan / fanconvex / earclip; (b) the whole face built
    by 1-links/1-sews from free darts inside the block, then triangulated.  Layout and two-directional oracle of `kernel_programs`."""
    cases = []
    sq = [(0, 0), (2, 0), (2, 2), (0, 2)]
    out = {1: ("1", "-1/2"), 2: ("5/2", "1"), 3: ("1", "5/2"), 4: ("-1/2", "1")}
    for c in range(count):
        kern = rng.choice(["fan", "fan", "fanconvex", "earclip ccw"])
        if c % 2 == 0:
            n = 10
            b1 = [0, 2, 3, 4, 1] + [0] * 6
            b0 = [0, 4, 1, 2, 3] + [0] * 6
            init = [gens.load_line(2, n, 0, [b0, b1, [0] * (n + 1)], [0] * (n + 1))] + [f"wv {d} {sq[d - 1][0]} {sq[d - 1][1]}" for d in range(1, 5)]
            s = rng.randint(1, 4)
            ops = [f"insv {s} 5 0 -", f"wv 5 {out[s][0]} {out[s][1]}", f"{kern} 1 4 6 7 8 9"]
            if rng.random() < 0.3:
                ops.insert(0, f"vid {rng.randint(1, 4)}")
        else:
            k = rng.choice([4, 5])
            pts = [(0, 0), (2, 0), (3, 2), (1, 3), (-1, 2)][:k] if k == 5 else sq
            n = k + 2 * (k - 3)
            init = [f"new 2 {n} 0"] + [f"wv {d} {pts[d - 1][0]} {pts[d - 1][1]}" for d in range(1, k + 1)]
            links = [f"{rng.choice(['link', 'sew'])} 1 {d} {d % k + 1}" for d in range(1, k + 1)]
            pre = rng.randint(0, k - 1)          # some sides already exist before the block
            init += ["f" + x for x in links[:pre]]
            ops = links[pre:] + [f"{kern} 1 {2 * (k - 3)} " + " ".join(str(d) for d in range(k + 1, n + 1))]
        lines = init + ["snap"] + ops + ["snap"] + init + ["tx"] + ops + ["endtx", "snap"]
        cases.append(Case(f"t{c}", lines, oracle="c08k", meta={"sig": "tri-program", "k": len(ops), "ninit": len(init)}))
    return cases


def remesh_programs(count, rng):
    """separate stream (C15 kernels): programs of swap / cut / collapse mixed with core operations on small split grids (with and
    without anchors), run as a sequence of single transactions and as one block; same layout and oracle as `kernel_programs`"""
    from props import c15
    cases = []
    cfgs = [(1, 1, 0, False), (2, 1, 0, False), (2, 2, 0, False), (2, 1, 224, True), (2, 2, 225, True), (2, 2, 224, True), (3, 2, 224, True)]
    for c in range(count):
        nx, ny, mask, anchors = rng.choice(cfgs)
        pre, g = c15.setup(nx, ny, mask, rng, anchors)
        init = list(pre) + ["add 12"]
        sp = list(range(g.n, g.n + 12))
        ops = []
        focus = []
        for _ in range(rng.randint(1, 3)):
            # later kernels work on the darts the earlier ones of the SAME program just edited (same edge, its neighbours)
            e = rng.choice(focus) if focus and rng.random() < 0.6 else rng.choice(g.linked)
            focus += [e, e, g.b[1][e], g.b[0][e]] + ([g.b[2][e]] if g.b[2][e] else [])
            focus = [x for x in focus if x]
            r = rng.random()
            if r < 0.25:
                ops.append(f"swap {e}")
            elif r < 0.5:
                ops.append(f"collapse {e}")
            elif r < 0.75 and len(sp) >= 8:
                k = 6 if g.b[2][e] else 3
                ops.append(("cutin" if k == 6 else "cutout") + f" {e} " + " ".join(map(str, sp[:k])))
                sp = sp[k:]
            else:
                ops.append(rng.choice([f"unsew 1 {e}", f"unsew 2 {e}", f"sew 2 {e} {rng.choice(g.linked)}", f"vid {e}",
                                       f"link 2 {g.n + 10} {g.n + 11}", f"unlink 1 {e}"]))
        lines = init + ["snap"] + ops + ["snap"] + init + ["tx"] + ops + ["endtx", "snap"]
        cases.append(Case(f"rm{c}", lines, oracle="c08k", meta={"sig": "remesh-program", "k": len(ops), "ninit": len(init)}))
    return cases


def oracle_any(case, li):
    return oracle_c08k(case, li) if case.oracle == "c08k" else oracle_c08(case, li)


def run(tier, seed):
    rng = random.Random(seed)
    N_ALLOK[0] = 0
    count = 30000 if tier == "quick" else 400000
    r = hv.campaign(programs(count, rng), oracle_c08)
    r["stats"]["all_ok_programs"] = N_ALLOK[0]
    rk = hv.campaign(kernel_programs(4000 if tier == "quick" else 40000, rng), oracle_c08k, max_report=30)
    rk["violations"] = dedupe_k(rk["violations"])
    rr = hv.campaign(remesh_programs(1500 if tier == "quick" else 20000, rng), oracle_c08k, max_report=30)
    rt = hv.campaign(tri_programs(1500 if tier == "quick" else 20000, rng), oracle_c08k, max_report=30)
    r3 = hv.campaign(programs3(8000 if tier == "quick" else 120000, rng), oracle_c08k, max_report=30)
    res = hv.merge_results([("random straight-line programs, sequence vs one block", r),
                            ("3-D programs (CMap3: links/sews of dimensions 1-3 depending on images written earlier in the program)", r3),
                            ("kernels with non-transactional reads after edits of their spare darts (scan_tx hit list)", rk),
                            ("remeshing kernels (swap / cut / collapse) composed with core operations", rr),
                            ("triangulation kernels after edits of their face in the same transaction", rt)])
    res["stats"]["all_ok_programs"] = N_ALLOK[0]
    return res


def d3_signature(v):
    """D3: the program ends with insert_vertex(es)_on_edge; every earlier op has the same outcome in both runs; the
    kernel call is answered differently in the two runs, at least one answer being `err InvalidDarts …`; and a spare dart handed to the kernel is
    an argument (or the initial beta image of an argument) of an earlier link/unlink/sew/unsew of the same program.  Re-derived from the raw transcript."""
    if v.get("kind") != "oracle":
        return False
    rp = v.get("replay", {})
    lines, li = rp.get("input_lines", []), rp.get("impl_output", [])
    try:
        txi = lines.index("tx")
        endi = lines.index("endtx")
        ops = lines[txi + 1:endi]
        k = len(ops)
        ninit = txi - (k + 2)
        ninit //= 2
        if lines[ninit] != "snap" or lines[ninit + 1:ninit + 1 + k] != ops:
            return False
        seq = li[ninit + 1:ninit + 1 + k]
        txline = li[endi]
    except Exception:
        return False
    if not ops or ops[-1].split()[0] not in KERNEL_OPS or any(o.split()[0] in KERNEL_OPS for o in ops[:-1]):
        return False
    if any(not (x == "ok" or x.startswith("ok ")) for x in seq[:-1]):
        return False
    t = ops[-1].split()
    spares = [int(t[2]), int(t[3])] if t[0] == "insv" else [int(x) for x in t[3:3 + int(t[2])]]
    touched = set()
    try:
        import kern2
        s0 = kern2.Snap(li[ninit])
    except Exception:
        return False
    for o in ops[:-1]:
        tt = o.split()
        if tt[0] in ("link", "unlink", "sew", "unsew"):
            for x in tt[2:]:
                x = int(x)
                touched.add(x)
                if 0 <= x < s0.n:       # an unlink/unsew also frees the image of its argument
                    touched.update(s0.b[i][x] for i in range(3))
    if not (touched & {s for s in spares if s != 0}):
        return False
    seq_inv = seq[-1].startswith("err InvalidDarts")
    blk_inv = txline.startswith("tx err InvalidDarts")
    blk_ok = txline.startswith("tx ok")
    differ = (seq[-1] == "ok") != blk_ok or (not blk_ok and txline != "tx " + seq[-1])
    return differ and (seq_inv or blk_inv)


def dedupe_k(violations):
    seen, out = set(), []
    for v in violations:
        key = "D3" if d3_signature(v) else None
        if key and key in seen:
            continue
        seen.add(key)
        out.append(v)
    return out


def matches(known, v):
    """No finding of C08 is open here: D3 is repaired (/repo cc2bcd4: the vertex-insertion kernels test their spare darts
    through the transaction), so every divergence between sequence and block is a VIOLATION."""
    return False
