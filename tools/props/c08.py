"""C08 — operations composed in one transaction act like the same calls in sequence."""
import random

import gens
import hv
from hv import Case

SPEC = {
    "lean_modules": ["Honeycomb.Props.C08"],
    "required_theorems": ["C08_block_equals_sequence", "C08_log_block_equals_sequence"],
    "trusted_base": [
        "Lean 4.33 kernel; axioms propext, Classical.choice, Quot.sound only",
        "model of fast-stm's transaction log (Honeycomb/Model/Stm.lean) and theorem T1 (log semantics = sequential semantics)",
        "hand-written model of the operations, tied to /repo by the differential run (each program is executed on the real code both "
        "ways: one atomically_with_err block vs one block per operation)",
        "Rust harness hcimpl, tools/*.py",
    ],
    "assumptions": [
        "that a real operation reads shared state only through its Transaction is a fact about the code, tested by this campaign, not proved",
    ],
    "rule": "straight-line programs of 2..5 transactional operations (link/unlink/sew/unsew 1-2, id and orbit queries, vertex/attribute "
            "reads and writes, remove_free_dart_transac) on every kind of small WF 2-map, later operations reusing the darts of earlier ones; "
            "each program is run in sequence and in one block from the same initial state; oracle (implementation only): if every operation "
            "succeeds in sequence, the block returns the same per-operation results and the same full snapshot. "
            "distinct_nontrivial = distinct implementation transcripts; 'all_ok_programs' = programs whose sequence run succeeded.",
    "not_proved": ["that each real operation is a closure over its Transaction only (code fact; campaign)"],
}

N_ALLOK = [0]


def oracle_c08(case, li):
    """output layout: init lines…, seq results (k lines), snap, reload init lines…, 'ok'(tx), queued*k, tx-line, snap"""
    k = case.meta["k"]
    ninit = case.meta["ninit"]
    seq = li[ninit:ninit + k]
    snap1 = li[ninit + k]
    base = ninit + k + 1 + ninit
    txline = li[base + 1 + k]
    snap2 = li[base + 2 + k]
    if any(x.startswith("<missing") for x in li):
        return "driver died"
    if all(x == "ok" or x.startswith("ok ") for x in seq):
        N_ALLOK[0] += 1
        payload = [x[3:] if x.startswith("ok ") else "" for x in seq]
        want = "tx ok " + " ; ".join(payload)
        if txline != want:
            return f"sequence succeeded with results {seq} but the single block returned {txline!r}"
        if snap1 != snap2:
            return f"final maps differ: sequence={snap1!r} block={snap2!r}"
    return None


def tx_op(rng, n, darts):
    l, r = rng.choice(darts), rng.choice(darts)
    k = rng.random()
    if k < 0.12:
        return f"link 1 {l} {r}"
    if k < 0.22:
        return f"link 2 {l} {r}" if l != r else f"unlink 2 {l}"
    if k < 0.34:
        return f"sew 1 {l} {r}"
    if k < 0.46:
        return f"sew 2 {l} {r}" if l != r else f"unsew 2 {l}"
    if k < 0.54:
        return f"unlink 1 {l}"
    if k < 0.60:
        return f"unlink 2 {l}"
    if k < 0.68:
        return f"unsew 1 {l}"
    if k < 0.76:
        return f"unsew 2 {l}"
    if k < 0.80:
        return f"vid {l}"
    if k < 0.83:
        return f"fid {l}"
    if k < 0.86:
        return f"orbit {rng.choice(['v', 'e', 'f', 'vl', 'fl', 'c12', 'c02'])} {l}"
    if k < 0.89:
        return f"rv {l}"
    if k < 0.92:
        return f"wv {l} {gens.dy(rng)} {gens.dy(rng)}"
    if k < 0.95:
        return f"wa {rng.choice([1, 2, 3])} {l} {rng.randint(1, 99)}"
    if k < 0.97:
        return f"eid {l}"
    return f"beta {rng.randint(0, 2)} {l}"


def programs(count, rng, mask=7):
    cases = []
    maps = {n: list(gens.wf_maps2(n, with_unused=False)) for n in (2, 3, 4)}
    for c in range(count):
        n = rng.choice((2, 3, 3, 4, 4, 4))
        b0, b1, b2, u = rng.choice(maps[n])
        darts = list(range(1, n + 1))
        init = [gens.load_line(2, n, mask, [b0, b1, b2], u)] + gens.value_lines(rng, n, mask, pv=0.95, pa=0.5)
        k = rng.randint(2, 5)
        ops = [tx_op(rng, n, darts) for _ in range(k)]
        lines = init + ops + ["snap"] + init + ["tx"] + ops + ["endtx", "snap"]
        cases.append(Case(f"p{c}", lines, oracle="c08", meta={"sig": "program", "k": k, "ninit": len(init)}))
    return cases


def run(tier, seed):
    rng = random.Random(seed)
    N_ALLOK[0] = 0
    count = 30000 if tier == "quick" else 400000
    r = hv.campaign(programs(count, rng), oracle_c08)
    r["stats"]["all_ok_programs"] = N_ALLOK[0]
    res = hv.merge_results([("random straight-line programs, sequence vs one block", r)])
    res["stats"]["all_ok_programs"] = N_ALLOK[0]
    return res


def matches(known, v):
    return False
