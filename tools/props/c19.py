"""C19 — geometric primitives and the skewness measure obey their contracts.

Four streams (DESIGN.md §7 C19):

1. exact  — `geo <op> <dyadic rationals>`: real `f64` operators (hcimpl) vs the Lean model over `Rat`
   (hcmodel), outputs must be IDENTICAL; in addition every reply of the implementation is compared with an
   independent exact evaluation of the mathematical definition (python `Fraction`) and the algebraic
   clauses of the property (v - v = 0, (v+u)-v = u, compound = binary, dot symmetric, cross antisymmetric
   and orthogonal, orientation sign = sign of the shoelace area, average symmetric/between, unit_dir /
   normal_dir fail iff null vector) are evaluated on the implementation's replies.
2. float  — `geof f64|f32 <op> <bit patterns>` on RANDOM floats (implementation only): the replies are bit
   patterns; the clauses are evaluated here with exact rational arithmetic on the exact values of the
   floats (bit-for-bit equalities as string equality of the bit patterns).
3. skew   — random convex polygons with 3..12 sides through the real `compute_face_skewness_2d/3d`
   (range, regular polygons, invariance under start dart / translation / rotation / scaling / reversal /
   3-D embedding, tolerance 1e-9), and a TOLERANCE tie (1e-12) of the model's `corners` + `skewOfAngles`
   to the implementation: the model lists the corner triples, python measures the angles with the Rust
   formula in double precision, the model evaluates the formula over `Rat`.
4. flop   — `geo flop f64|f32 add|sub|mul|div <bits> <bits>`: ONE hardware operation, exact value of the result,
   compared EXACTLY with the idealised IEEE rounding `rnd 53` / `rnd 24` (round to nearest even, unbounded
   exponent; Lean `Model/Rounding.lean`): with the same definition in python Fractions on every sample
   (implementation only) and with the Lean definition itself on a sub-sample (both drivers).  Operands over
   +-2^480 / +-2^60 with results in the normal range (no overflow, no underflow), exact ties, near-cancellation,
   small integers and dyadics.  This is what makes the rounding theorems of Props/C19b.lean speak about the machine.
"""
import hashlib
import math
import random
import struct
from fractions import Fraction as Fr

import hv
from hv import Case

SPEC = {
    "lean_modules": ["Honeycomb.Props.C19", "Honeycomb.Lemmas.Rounding", "Honeycomb.Props.C19b",
                     "Honeycomb.Lemmas.RoundingRange", "Honeycomb.Props.C19c", "Honeycomb.Props.C19Gen"],
    # Gen/Geometry.lean is re-translated from honeycomb-core/src/geometry/dim2 and dim3 (vector.rs, vertex.rs) before every build
    "gen": ["geom"],
    "required_theorems": [
        # Props/C19Gen.lean: every arithmetic function / operator impl of the four geometry files, per component, IS the model's (rfl);
        # the *_complete theorems fix the list of impls per file (an impl that is added or removed is noticed)
        "C19_gen_structs", "C19_gen_v2_unit_x", "C19_gen_v2_unit_y", "C19_gen_v2_into_inner", "C19_gen_v2_x", "C19_gen_v2_y", "C19_gen_v2_norm", "C19_gen_v2_normal_dir", "C19_gen_v2_dot", "C19_gen_v2_From_tuple", "C19_gen_v2_Add_Vector2", "C19_gen_v2_AddAssign_Vector2", "C19_gen_v2_Sub_Vector2", "C19_gen_v2_SubAssign_Vector2", "C19_gen_v2_Mul_T", "C19_gen_v2_MulAssign_T", "C19_gen_v2_Div_T", "C19_gen_v2_DivAssign_T", "C19_gen_v2_Neg", "C19_gen_v2_complete", "C19_gen_p2_into_inner", "C19_gen_p2_x", "C19_gen_p2_y", "C19_gen_p2_average", "C19_gen_p2_cross_product_from_vertices", "C19_gen_p2_From_tuple", "C19_gen_p2_Add_Vector2", "C19_gen_p2_AddAssign_Vector2", "C19_gen_p2_Add_refVector2", "C19_gen_p2_AddAssign_refVector2", "C19_gen_p2_Sub_Vector2", "C19_gen_p2_SubAssign_Vector2", "C19_gen_p2_Sub_refVector2", "C19_gen_p2_SubAssign_refVector2", "C19_gen_p2_Sub_Vertex2", "C19_gen_p2_complete", "C19_gen_v3_unit_x", "C19_gen_v3_unit_y", "C19_gen_v3_unit_z", "C19_gen_v3_into_inner", "C19_gen_v3_x", "C19_gen_v3_y", "C19_gen_v3_z", "C19_gen_v3_norm", "C19_gen_v3_dot", "C19_gen_v3_cross", "C19_gen_v3_From_tuple", "C19_gen_v3_From_Vector2", "C19_gen_v3_Add_Vector3", "C19_gen_v3_AddAssign_Vector3", "C19_gen_v3_Sub_Vector3", "C19_gen_v3_SubAssign_Vector3", "C19_gen_v3_Mul_T", "C19_gen_v3_MulAssign_T", "C19_gen_v3_Div_T", "C19_gen_v3_DivAssign_T", "C19_gen_v3_Neg", "C19_gen_v3_complete", "C19_gen_p3_into_inner", "C19_gen_p3_x", "C19_gen_p3_y", "C19_gen_p3_z", "C19_gen_p3_average", "C19_gen_p3_From_tuple", "C19_gen_p3_From_Vertex2", "C19_gen_p3_Add_Vector3", "C19_gen_p3_AddAssign_Vector3", "C19_gen_p3_Add_refVector3", "C19_gen_p3_AddAssign_refVector3", "C19_gen_p3_Sub_Vector3", "C19_gen_p3_SubAssign_Vector3", "C19_gen_p3_Sub_refVector3", "C19_gen_p3_SubAssign_refVector3", "C19_gen_p3_Sub_Vertex3", "C19_gen_p3_complete",
        
        "C19_v2_sub_self", "C19_v2_add_sub_cancel", "C19_v2_addAssign_eq", "C19_v2_subAssign_eq",
        "C19_v3_subAssign_eq", "C19_v2_dot_comm", "C19_v3_dot_comm",
        "C19_v3_cross_antisymm", "C19_v3_cross_dot_left", "C19_v3_cross_dot_right",
        "C19_orient_pos_iff_ccw", "C19_orient_neg_iff_cw", "C19_orient_swap", "C19_orient_cyclic",
        "C19_p2_average_comm", "C19_p2_average_between", "C19_p3_average_between",
        "C19_v2_unitDir_err_iff", "C19_v2_normalDir_err_iff", "C19_v3_unitDir_err_iff",
        "C19_unitDirR2_spec", "C19_normalDirR2_spec", "C19_unitDirR3_spec",
        "C19_fl_v2_sub_self", "C19_fl_v2_add_sub_bound", "C19_fl_orient_sign", "C19_fl_v3_cross_dot_bound",
        "C19_fl_v3_cross_antisymm", "C19_fl_p2_average_between", "C19_faceSkew_start_dart",
        "C19_skew_mem_Ico", "C19_skew_eq_zero_of_equiangular", "C19_skew_rotate", "C19_skew_reverse",
        "C19_faceSkew_similarity",
        # round 2: the rounding model is satisfied by idealised IEEE arithmetic (Lemmas/Rounding, Props/C19b)
        "rnd_zero", "rnd_neg", "rnd_monotone", "rnd_rel_error", "rnd_of_representable",
        "rnd_fixes_small_integers", "rnd_idempotent", "representable_rnd", "rnd_mul_pow2",
        "C19b_roundModel", "C19b_roundModel_f64", "C19b_roundModel_f32", "C19b_rnd_odd", "C19b_rnd_monotone",
        "C19b_rep", "C19b_v2_sub_self", "C19b_v2_add_sub_bound", "C19b_orient_sign", "C19b_v3_cross_dot_bound",
        "C19b_v3_cross_antisymm", "C19b_p2_average_between",
        # round 3: bounded exponent range (rndB): no overflow / underflow under explicit magnitude bounds
        "rndB_eq_rnd", "rndB_of_G", "C19c_sub", "C19c_add", "C19c_mul", "C19c_div", "C19c_addsub", "C19c_dot2",
        "C19c_dot3", "C19c_cross", "C19c_orient", "C19c_avg", "C19c_crossDot", "C19c_orient_f64", "C19c_orient_f32",
        "C19c_f64_on_grid", "C19c_f32_on_grid",
    ],
    "trusted_base": [
        "Lean 4.33 kernel; axioms propext, Classical.choice, Quot.sound only",
        "hand-written model Honeycomb/Model/Geometry.lean (one definition per impl block of "
        "geometry/dim2|dim3/{vector,vertex}.rs and the post-loop formula of skewness/mod.rs), tied to /repo by the "
        "`geo` correspondence stream on dyadic inputs",
        "Rust harness /verif/harness/hcimpl/src/geo.rs (operator table over the real types) and tools/props/c19.py "
        "(exact rational oracle; python Fraction)",
        "the float clauses are evaluated on the implementation only (sampling), under no model",
        "Model/Rounding.lean (executable rnd over Rat) tied to the hardware by `geo flop` on both drivers",
    ],
    "assumptions": [
        "rounding theorems are proved under the hypothesis structure RoundModel fl u (relative error <= u < 1 per "
        "operation) and the structure is proved to hold for rnd p (idealised IEEE round-to-nearest-even, unbounded exponent) "
        "with u = 2^-p; that the machine arithmetic is rnd 53 / rnd 24 away from overflow/underflow is validated by the "
        "flop stream",
        "skewness range theorem assumes the corner angles lie in ]0,pi[ and add up to (n-2)pi (angle sum of a "
        "simple polygon - hypothesis, not in Mathlib for n-gons)",
        "hypot/sqrt/acos are outside the model: unit_dir / normal_dir are modelled by radicand + direction and "
        "proved over R with Real.sqrt; their float accuracy is a tolerance test",
        "inputs are finite floats of moderate magnitude (binary exponents within +-20 for f64, +-10 for f32), "
        "including signed zeros; NaN/inf/overflow/underflow are outside the property's domain",
    ],
    "rule": "exact: >= 1 case per operator per argument tuple drawn from dyadic k/2^j (|k|<=64, j<=4), divisors +-2^k and 0; "
            "float: random sign/mantissa/exponent floats plus special values (signed zeros, equal components, "
            "near-collinear triples within a few ulps of the rounding band); skew: convex polygons inscribed in random "
            "ellipses, corner angles in [0.05, pi-0.05]. distinct_nontrivial = distinct implementation transcripts.",
    "not_proved": [
        "that the HARDWARE f64/f32 + - * / are the idealised rounding rnd 53 / rnd 24 (round to nearest even, unbounded "
        "exponent): validated exactly by the flop stream (python definition on every sample, the Lean definition on a "
        "sub-sample), not proved. Given that, every C19_fl_* theorem is unconditional (Props/C19b: RoundModel (rnd p) 2^-p, "
        "rnd odd, monotone, exact on p-bit numbers - all proved)",
        "overflow / underflow: Props/C19c proves that with the BOUNDED rounding rndB (binary64 / binary32 exponent range, "
        "gradual underflow, overflow = none) the operators +, -, *, dot, cross, orientation, (v+u)-v, average, (a x b).w never "
        "leave the normal range and equal the unbounded-arithmetic value when the coordinates are multiples of 2^g with "
        "|x| <= 2^h under explicit conditions (e.g. binary64 floats with 2^-458 <= |x| <= 2^510 or 0 for the orientation "
        "product); outside those bounds nothing is claimed. Scalar division only as a single quotient (C19c_div, partial); "
        "unit_dir / normal_dir (sqrt, hypot) not covered",
        "Sterbenz-style exact subtraction is not proved (not needed: fl(v-v)=0 follows from rnd 0 = 0, the (v+u)-v bound "
        "from the relative error)",
        "bit-for-bit clauses about the compiled code (compound = binary, dot symmetric, average symmetric): proved for "
        "the model in every arithmetic (rfl for any coordinate type / FlR fl for any fl), validated on f64/f32",
        "sign of zero: cross(a,b) and -cross(b,a) differ in the sign of zero components (+0 vs -0); compared as values",
        "unit_dir / normal_dir return a vector of norm 1 +- 1e-12 (f64) / 1e-5 (f32), parallel resp. orthogonal up to the "
        "same tolerance: exact over R (C19_unitDirR2_spec, C19_normalDirR2_spec, C19_unitDirR3_spec), tolerance test on "
        "floats (hypot/sqrt accuracy is outside the model)",
        "skewness ~ 0 for regular polygons and invariance up to 1e-9 in floating point: exact over R "
        "(C19_skew_eq_zero_of_equiangular, C19_faceSkew_similarity, C19_faceSkew_start_dart, C19_skew_reverse), tolerance "
        "test on floats (acos accuracy is outside the model); 3-D faces: the formula is the same, invariance under 3-D "
        "isometries is validated only",
        "polygon angle sum and convexity => angles in ]0,pi[ (hypotheses of C19_skew_mem_Ico)",
        "reversal of the face orientation is proved on the list of corner angles, not on the polygon",
    ],
}

U = {"f64": Fr(1, 2 ** 53), "f32": Fr(1, 2 ** 24)}
DIR_TOL = {"f64": Fr(1, 10 ** 12), "f32": Fr(1, 10 ** 5)}

# ---------------------------------------------------------------------------------------------
# operator table: name -> (arity, compound-of)
# ---------------------------------------------------------------------------------------------

# binary operator -> list of variants that must give the same result (compound / by-reference forms)
COMPOUND = {
    "v2add": ["v2addassign"], "v2sub": ["v2subassign"], "v2mul": ["v2mulassign"], "v2div": ["v2divassign"],
    "v3add": ["v3addassign"], "v3sub": ["v3subassign"], "v3mul": ["v3mulassign"], "v3div": ["v3divassign"],
    "p2addv": ["p2addvassign", "p2addvref", "p2addvrefassign"],
    "p2subv": ["p2subvassign", "p2subvref", "p2subvrefassign"],
    "p3addv": ["p3addvassign", "p3addvref", "p3addvrefassign"],
    "p3subv": ["p3subvassign", "p3subvref", "p3subvrefassign"],
}
ARITY = {"v2add": 4, "v2sub": 4, "v2mul": 3, "v2div": 3, "v3add": 6, "v3sub": 6, "v3mul": 4, "v3div": 4,
         "p2addv": 4, "p2subv": 4, "p3addv": 6, "p3subv": 6}


def sgn(x):
    return (x > 0) - (x < 0)


def ref(op, a):
    """mathematical definition of every operator over the rationals (the spec, not the code).
    returns a list of Fractions, 'panic', or ('err', variant)"""
    n = len(a)
    if op in ("v2add", "p2addv"):
        return [a[0] + a[2], a[1] + a[3]]
    if op in ("v2sub", "p2subv", "p2sub"):
        return [a[0] - a[2], a[1] - a[3]]
    if op in ("v3add", "p3addv"):
        return [a[i] + a[i + 3] for i in range(3)]
    if op in ("v3sub", "p3subv", "p3sub"):
        return [a[i] - a[i + 3] for i in range(3)]
    if op in ("v2mul", "v3mul"):
        return [x * a[-1] for x in a[:-1]]
    if op in ("v2div", "v3div"):
        return "panic" if a[-1] == 0 else [x / a[-1] for x in a[:-1]]
    if op in ("v2neg", "v3neg"):
        return [-x for x in a]
    if op == "v2dot":
        return [a[0] * a[2] + a[1] * a[3]]
    if op == "v3dot":
        return [sum(a[i] * a[i + 3] for i in range(3))]
    if op == "v3cross":
        x, y = a[:3], a[3:]
        return [x[1] * y[2] - x[2] * y[1], x[2] * y[0] - x[0] * y[2], x[0] * y[1] - x[1] * y[0]]
    if op == "v3crossdot":
        return [Fr(0), Fr(0)]
    if op in ("v2addsub", "p2addsub"):
        return [a[2], a[3]]
    if op in ("v3addsub", "p3addsub"):
        return list(a[3:])
    if op == "p2average":
        return [(a[0] + a[2]) / 2, (a[1] + a[3]) / 2]
    if op == "p3average":
        return [(a[i] + a[i + 3]) / 2 for i in range(3)]
    if op == "p2orient":
        # shoelace formula (twice the signed area), NOT the expression of the code
        (ax, ay, bx, by, cx, cy) = a
        return [ax * (by - cy) + bx * (cy - ay) + cx * (ay - by)]
    if op in ("v2tuple", "p2tuple", "v3tuple", "p3tuple"):
        return list(a)
    if op in ("v3fromv2", "p3fromp2"):
        return [a[0], a[1], Fr(0)]
    if op == "v2unitx":
        return [Fr(1), Fr(0)]
    if op == "v2unity":
        return [Fr(0), Fr(1)]
    if op == "v3unitx":
        return [Fr(1), Fr(0), Fr(0)]
    if op == "v3unity":
        return [Fr(0), Fr(1), Fr(0)]
    if op == "v3unitz":
        return [Fr(0), Fr(0), Fr(1)]
    if op in ("v2default", "p2default"):
        return [Fr(0), Fr(0)]
    if op in ("v3default", "p3default"):
        return [Fr(0), Fr(0), Fr(0)]
    for base, vs in COMPOUND.items():
        if op in vs:
            return ref(base, a)
    raise KeyError((op, n))


def rs(q):
    q = Fr(q)
    return str(q.numerator) if q.denominator == 1 else f"{q.numerator}/{q.denominator}"


def parse_reply(ln):
    """'ok a b' -> [Fraction…]; 'panic'; ('err', v); None on anything else"""
    t = ln.split()
    if not t:
        return None
    if t[0] == "panic":
        return "panic"
    if t[0] == "err" and len(t) == 2:
        return ("err", t[1])
    if t[0] == "ok":
        try:
            return [Fr(x) for x in t[1:]]
        except (ValueError, ZeroDivisionError):
            return ("raw", t[1:])
    return None


# ---------------------------------------------------------------------------------------------
# stream 1: exact
# ---------------------------------------------------------------------------------------------

def dy(rng):
    r = rng.random()
    if r < 0.12:
        return Fr(0)
    if r < 0.2:
        return Fr(rng.choice([1, -1, 2, -2]))
    return Fr(rng.randint(-64, 64), 2 ** rng.randint(0, 4))


def scal(rng):
    r = rng.random()
    if r < 0.15:
        return Fr(0)
    k = rng.randint(-3, 3)
    return rng.choice([1, -1]) * (Fr(2) ** k)


def geo_line(op, args):
    return "geo " + op + "".join(" " + rs(x) for x in args)


def exact_cases(count, rng):
    cases = []
    # constants
    cases.append(Case("const", [geo_line(o, []) for o in
                                ("v2unitx", "v2unity", "v2default", "v3unitx", "v3unity", "v3unitz", "v3default",
                                 "p2default", "p3default")], oracle="spec", meta={"sig": "constants"}))
    for k in range(count):
        # ---- compound / by-reference variants, one operator family per case
        for base, variants in COMPOUND.items():
            ar = ARITY[base]
            if base.endswith("mul") or base.endswith("div"):
                args = [dy(rng) for _ in range(ar - 1)] + [scal(rng)]
            else:
                args = [dy(rng) for _ in range(ar)]
            if rng.random() < 0.1 and not (base.endswith("mul") or base.endswith("div")):
                args[ar // 2:] = [Fr(0)] * (ar - ar // 2)   # null right-hand side
            lines = [geo_line(base, args)] + [geo_line(v, args) for v in variants]
            cases.append(Case(f"cmp-{base}-{k}", lines, oracle="compound", meta={"sig": f"compound:{base}", "base": base}))
        # ---- 2-D laws
        a = [dy(rng), dy(rng)]
        b = [dy(rng), dy(rng)]
        c = [dy(rng), dy(rng)]
        if rng.random() < 0.2:   # collinear triple
            t = Fr(rng.randint(-4, 4), 2)
            c = [b[0] + t * (b[0] - a[0]), b[1] + t * (b[1] - a[1])]
        if rng.random() < 0.15:
            a = [Fr(0), Fr(0)]
        s = scal(rng)
        lines = [
            geo_line("v2sub", a + a), geo_line("p2sub", a + a),
            geo_line("v2addsub", a + b), geo_line("p2addsub", a + b),
            geo_line("v2dot", a + b), geo_line("v2dot", b + a),
            geo_line("p2orient", a + b + c), geo_line("p2orient", a + c + b), geo_line("p2orient", b + c + a),
            geo_line("p2average", a + b), geo_line("p2average", b + a),
            geo_line("v2unitdir", a), geo_line("v2normaldir", a),
            geo_line("v2neg", a), geo_line("v2mul", a + [s]), geo_line("v2div", a + [s]),
            geo_line("v2add", a + b), geo_line("p2addv", a + b), geo_line("p2subv", a + b), geo_line("p2sub", a + b),
            geo_line("v2tuple", a), geo_line("p2tuple", a), geo_line("v3fromv2", a), geo_line("p3fromp2", a),
        ]
        # directions over many decades (exact dyadic scaling 2^-58 .. 2^50): the null-vector guard is scale free
        for _ in range(2):
            sc = Fr(2) ** rng.randint(-58, 50)
            d = [dy(rng) * sc, dy(rng) * sc]
            if rng.random() < 0.25:
                d[rng.randrange(2)] = Fr(0)
            lines += [geo_line("v2unitdir", d), geo_line("v2normaldir", d)]
        cases.append(Case(f"law2-{k}", lines, oracle="law2", meta={"sig": "laws-2d"}))
        # ---- 3-D laws
        a = [dy(rng) for _ in range(3)]
        b = [dy(rng) for _ in range(3)]
        if rng.random() < 0.15:
            a = [Fr(0)] * 3
        if rng.random() < 0.1:
            b = [2 * x for x in a]
        lines = [
            geo_line("v3sub", a + a), geo_line("p3sub", a + a),
            geo_line("v3addsub", a + b), geo_line("p3addsub", a + b),
            geo_line("v3dot", a + b), geo_line("v3dot", b + a),
            geo_line("v3cross", a + b), geo_line("v3cross", b + a), geo_line("v3crossdot", a + b),
            geo_line("p3average", a + b), geo_line("p3average", b + a),
            geo_line("v3unitdir", a),
            geo_line("v3neg", a), geo_line("v3mul", a + [s]), geo_line("v3div", a + [s]),
            geo_line("v3add", a + b), geo_line("p3addv", a + b), geo_line("p3subv", a + b), geo_line("p3sub", a + b),
            geo_line("v3tuple", a), geo_line("p3tuple", a),
        ]
        for _ in range(2):
            sc = Fr(2) ** rng.randint(-58, 50)
            d = [dy(rng) * sc for _ in range(3)]
            if rng.random() < 0.25:
                d[rng.randrange(3)] = Fr(0)
            lines.append(geo_line("v3unitdir", d))
        cases.append(Case(f"law3-{k}", lines, oracle="law3", meta={"sig": "laws-3d"}))
    return cases


def args_of(line):
    t = line.split()
    return t[1], [Fr(x) for x in t[2:]]


def check_dir(op, a, rep):
    """unit_dir / normal_dir reply on exact inputs: err iff null; sign pattern; tolerance words"""
    null = all(x == 0 for x in a)
    t = rep.split()
    want_err = "InvalidNormDir" if op == "v2normaldir" else "InvalidUnitDir"
    if null:
        return None if rep == f"err {want_err}" else f"{op} on the null vector: {rep!r}, expected err {want_err}"
    if t[:2] != ["ok", "s"]:
        return f"{op} on a non-null vector: {rep!r}"
    d = [-a[1], a[0]] if op == "v2normaldir" else a
    want = [str(sgn(x)) for x in d]
    k = len(d)
    if t[2:2 + k] != want:
        return f"{op}: sign pattern {t[2:2 + k]} expected {want}"
    words = t[2 + k:]
    exp = ["unit", "normal", "ccw"] if op == "v2normaldir" else ["unit", "parallel"]
    if words != exp:
        return f"{op}: tolerance tests {words} expected {exp}"
    return None


def oracle_exact(case, li):
    if case.oracle is None:
        return None
    if len(li) != len(case.lines):
        return f"driver produced {len(li)} lines for {len(case.lines)} commands"
    fails = []
    reps = [parse_reply(x) for x in li]
    if case.oracle == "compound":
        base = case.meta["base"]
        _, a = args_of(case.lines[0])
        want = ref(base, a)
        if reps[0] != want:
            fails.append(f"spec-mismatch {base}: {li[0]!r} expected {want}")
        for ln, rep, raw in zip(case.lines[1:], reps[1:], li[1:]):
            op = ln.split()[1]
            if rep != reps[0]:
                fails.append(f"compound-mismatch {op}: binary {base} -> {li[0]!r}, {op} -> {raw!r}")
        return "; ".join(fails) or None
    # generic: every reply equals the mathematical definition
    for ln, rep, raw in zip(case.lines, reps, li):
        op, a = args_of(ln)
        if op in ("v2unitdir", "v2normaldir", "v3unitdir"):
            f = check_dir(op, a, raw)
            if f:
                fails.append(f)
            continue
        want = ref(op, a)
        if rep != want:
            fails.append(f"spec-mismatch {op} {[rs(x) for x in a]}: {raw!r} expected {want if isinstance(want, str) else [rs(x) for x in want]}")
    if fails:
        return "; ".join(fails[:4])
    # law clauses on the implementation's own replies
    def val(i):
        return reps[i]
    if case.oracle == "law2":
        if any(x != 0 for x in val(0) + val(1)):
            fails.append("v - v != 0")
        if val(4) != val(5):
            fails.append("dot not symmetric")
        e = val(6)[0]
        if val(7)[0] != -e or val(8)[0] != e:
            fails.append("orientation product: swap / cyclic law broken")
        _, abc = args_of(case.lines[6])
        area2 = ref("p2orient", abc)[0]
        if sgn(e) != sgn(area2):
            fails.append(f"orientation sign {sgn(e)} but signed area {area2}")
        if val(9) != val(10):
            fails.append("average not symmetric")
        _, ab = args_of(case.lines[9])
        for i in range(2):
            if not (min(ab[i], ab[i + 2]) <= val(9)[i] <= max(ab[i], ab[i + 2])):
                fails.append("average not between")
    elif case.oracle == "law3":
        if any(x != 0 for x in val(0) + val(1)):
            fails.append("v - v != 0")
        if val(4) != val(5):
            fails.append("dot not symmetric")
        if val(6) != [-x for x in val(7)]:
            fails.append("cross not antisymmetric")
        if val(8) != [0, 0]:
            fails.append("cross not orthogonal")
        if val(9) != val(10):
            fails.append("average not symmetric")
        _, ab = args_of(case.lines[9])
        for i in range(3):
            if not (min(ab[i], ab[i + 3]) <= val(9)[i] <= max(ab[i], ab[i + 3])):
                fails.append("average not between")
    return "; ".join(fails) or None


# ---------------------------------------------------------------------------------------------
# stream 2: float (implementation only)
# ---------------------------------------------------------------------------------------------

def f2hex(ty, x):
    if ty == "f64":
        return struct.pack(">d", x).hex()
    return struct.pack(">f", x).hex()


def hex2f(ty, h):
    if ty == "f64":
        return struct.unpack(">d", bytes.fromhex(h))[0]
    return struct.unpack(">f", bytes.fromhex(h))[0]


def r32(x):
    return struct.unpack(">f", struct.pack(">f", x))[0]


def rnd(ty, x):
    """round a python float to the type"""
    return x if ty == "f64" else r32(x)


def rfloat(rng, ty, special=0.15):
    r = rng.random()
    if r < special:
        return rnd(ty, rng.choice([0.0, -0.0, 1.0, -1.0, 0.5, 2.0, 3.0, -3.0, 0.1, 1e3]))
    if ty == "f64":
        e = rng.randint(-20, 20)
        m = 1.0 + rng.getrandbits(52) / 2.0 ** 52
    else:
        e = rng.randint(-10, 10)
        m = 1.0 + rng.getrandbits(23) / 2.0 ** 23
    return rng.choice([1.0, -1.0]) * math.ldexp(m, e)


def geof_line(ty, op, xs):
    return f"geof {ty} {op}" + "".join(" " + f2hex(ty, x) for x in xs)


def float_cases(count, rng):
    cases = []
    for ty in ("f64", "f32"):
        for k in range(count):
            v2 = lambda: [rfloat(rng, ty), rfloat(rng, ty)]
            v3 = lambda: [rfloat(rng, ty) for _ in range(3)]
            # compound, one family per case
            for base, variants in COMPOUND.items():
                ar = ARITY[base]
                args = [rfloat(rng, ty) for _ in range(ar)]
                if base.endswith("div"):
                    while args[-1] == 0.0:
                        args[-1] = rfloat(rng, ty)
                lines = [geof_line(ty, base, args)] + [geof_line(ty, v, args) for v in variants]
                cases.append(Case(f"{ty}-cmp-{base}-{k}", lines, oracle="f-compound",
                                  meta={"sig": f"compound:{base}", "base": base, "ty": ty}))
            a, b = v2(), v2()
            a3, b3 = v3(), v3()
            cases.append(Case(f"{ty}-selfsub-{k}", [geof_line(ty, "v2sub", a + a), geof_line(ty, "p2sub", a + a),
                                                    geof_line(ty, "v3sub", a3 + a3), geof_line(ty, "p3sub", a3 + a3)],
                              oracle="f-selfsub", meta={"sig": "v-v", "ty": ty}))
            cases.append(Case(f"{ty}-addsub-{k}", [geof_line(ty, "v2addsub", a + b), geof_line(ty, "p2addsub", a + b),
                                                   geof_line(ty, "v3addsub", a3 + b3), geof_line(ty, "p3addsub", a3 + b3)],
                              oracle="f-addsub", meta={"sig": "(v+u)-v", "ty": ty}))
            cases.append(Case(f"{ty}-dot-{k}", [geof_line(ty, "v2dot", a + b), geof_line(ty, "v2dot", b + a),
                                                geof_line(ty, "v3dot", a3 + b3), geof_line(ty, "v3dot", b3 + a3)],
                              oracle="f-dot", meta={"sig": "dot-symmetric", "ty": ty}))
            cases.append(Case(f"{ty}-cross-{k}", [geof_line(ty, "v3cross", a3 + b3), geof_line(ty, "v3cross", b3 + a3),
                                                  geof_line(ty, "v3crossdot", a3 + b3)],
                              oracle="f-cross", meta={"sig": "cross", "ty": ty}))
            cases.append(Case(f"{ty}-avg-{k}", [geof_line(ty, "p2average", a + b), geof_line(ty, "p2average", b + a),
                                                geof_line(ty, "p3average", a3 + b3), geof_line(ty, "p3average", b3 + a3)],
                              oracle="f-avg", meta={"sig": "average", "ty": ty}))
            # orientation: random triple, or nearly collinear (a few ulps around the band)
            p, q = v2(), v2()
            if rng.random() < 0.5:
                r = v2()
            else:
                t = rng.choice([0.5, 2.0, -1.0, 0.25, 3.0, rng.uniform(-3, 3)])
                r = [rnd(ty, q[0] + t * (q[0] - p[0])), rnd(ty, q[1] + t * (q[1] - p[1]))]
                for i in range(2):
                    if rng.random() < 0.6:
                        r[i] = nudge(ty, r[i], rng.randint(-3, 3))
            cases.append(Case(f"{ty}-orient-{k}", [geof_line(ty, "p2orient", p + q + r), geof_line(ty, "p2orient", p + r + q)],
                              oracle="f-orient", meta={"sig": "orientation", "ty": ty}))
            # directions: null vectors with every sign of zero, and random ones
            if k % 8 == 0:
                a = [rng.choice([0.0, -0.0]), rng.choice([0.0, -0.0])]
                a3 = [rng.choice([0.0, -0.0]) for _ in range(3)]
            if k % 8 == 1:
                a = [a[0], 0.0]
                a3 = [0.0, a3[1], -0.0]
            cases.append(Case(f"{ty}-dir-{k}", [geof_line(ty, "v2unitdir", a), geof_line(ty, "v2normaldir", a),
                                                geof_line(ty, "v3unitdir", a3)],
                              oracle="f-dir", meta={"sig": "unit_dir/normal_dir", "ty": ty}))
    return cases


# magnitude sweep: largest |binary exponent| per clause family such that every sum, product and square of the
# clause stays a NORMAL number (no overflow, no underflow/subnormal), i.e. inside the property's quantifier:
#   lin    +,-,average, scalar * and /        results within 2^(2R+2)
#   dot    products of two components         >= 2^(-2R)
#   cross  (a x b).a: products of three, the cancelled component >= ulp: >= 2^(-3R-53) (f64) / 2^(-3R-24) (f32)
#   orient product of two cancelled differences >= 2^(-2R-104) / 2^(-2R-46)
#   dir    squares and their sum (Vector3::norm) within 2^(+-(2R+4))
SWEEP = {"f64": {"lin": 480, "dot": 480, "cross": 280, "orient": 400, "dir": 480},
         "f32": {"lin": 60, "dot": 50, "cross": 24, "orient": 28, "dir": 60}}


def sfloat(rng, ty, k):
    """+-m * 2^k with m in [1,2): a normal float of the type with binary exponent k"""
    if rng.random() < 0.25:
        m = rng.choice([1.0, 1.5, 1.25, 1.75])
    elif ty == "f64":
        m = 1.0 + rng.getrandbits(52) / 2.0 ** 52
    else:
        m = 1.0 + rng.getrandbits(23) / 2.0 ** 23
    return rng.choice([1.0, -1.0]) * math.ldexp(m, k)


def scomps(rng, ty, n, R, allow_zero=True):
    """n components: all at one scale 2^k, or mixed scales, k spread over [-R, R] (extremes included);
    optionally one component replaced by an exact (signed) zero"""
    def pick():
        r = rng.random()
        return -R if r < 0.04 else R if r < 0.08 else rng.randint(-R, R)
    mode = rng.random()
    if mode < 0.5:
        k = pick()
        xs = [sfloat(rng, ty, k) for _ in range(n)]
    else:
        xs = [sfloat(rng, ty, pick()) for _ in range(n)]
    if allow_zero and rng.random() < 0.2:
        xs[rng.randrange(n)] = rng.choice([0.0, -0.0])
    return xs


def scaled_cases(count, rng):
    """the float clauses over many decades of magnitude (see SWEEP)"""
    cases = []
    for ty in ("f64", "f32"):
        R = SWEEP[ty]
        for k in range(count):
            # directions first: the guard on the null vector must not depend on the magnitude
            a = scomps(rng, ty, 2, R["dir"])
            a3 = scomps(rng, ty, 3, R["dir"])
            cases.append(Case(f"{ty}-sdir-{k}", [geof_line(ty, "v2unitdir", a), geof_line(ty, "v2normaldir", a),
                                                 geof_line(ty, "v3unitdir", a3)],
                              oracle="f-dir", meta={"sig": "unit_dir/normal_dir", "ty": ty}))
            for base, variants in COMPOUND.items():
                ar = ARITY[base]
                args = scomps(rng, ty, ar, R["lin"])
                if base.endswith("div"):
                    while args[-1] == 0.0:
                        args[-1] = sfloat(rng, ty, rng.randint(-R["lin"], R["lin"]))
                lines = [geof_line(ty, base, args)] + [geof_line(ty, v, args) for v in variants]
                cases.append(Case(f"{ty}-scmp-{base}-{k}", lines, oracle="f-compound",
                                  meta={"sig": f"compound:{base}", "base": base, "ty": ty}))
            a, b = scomps(rng, ty, 2, R["lin"]), scomps(rng, ty, 2, R["lin"])
            a3, b3 = scomps(rng, ty, 3, R["lin"]), scomps(rng, ty, 3, R["lin"])
            cases.append(Case(f"{ty}-sselfsub-{k}", [geof_line(ty, "v2sub", a + a), geof_line(ty, "p2sub", a + a),
                                                     geof_line(ty, "v3sub", a3 + a3), geof_line(ty, "p3sub", a3 + a3)],
                              oracle="f-selfsub", meta={"sig": "v-v", "ty": ty}))
            cases.append(Case(f"{ty}-saddsub-{k}", [geof_line(ty, "v2addsub", a + b), geof_line(ty, "p2addsub", a + b),
                                                    geof_line(ty, "v3addsub", a3 + b3), geof_line(ty, "p3addsub", a3 + b3)],
                              oracle="f-addsub", meta={"sig": "(v+u)-v", "ty": ty}))
            cases.append(Case(f"{ty}-savg-{k}", [geof_line(ty, "p2average", a + b), geof_line(ty, "p2average", b + a),
                                                 geof_line(ty, "p3average", a3 + b3), geof_line(ty, "p3average", b3 + a3)],
                              oracle="f-avg", meta={"sig": "average", "ty": ty}))
            a, b = scomps(rng, ty, 2, R["dot"]), scomps(rng, ty, 2, R["dot"])
            a3, b3 = scomps(rng, ty, 3, R["dot"]), scomps(rng, ty, 3, R["dot"])
            cases.append(Case(f"{ty}-sdot-{k}", [geof_line(ty, "v2dot", a + b), geof_line(ty, "v2dot", b + a),
                                                 geof_line(ty, "v3dot", a3 + b3), geof_line(ty, "v3dot", b3 + a3)],
                              oracle="f-dot", meta={"sig": "dot-symmetric", "ty": ty}))
            kk = rng.randint(-R["cross"], R["cross"])
            if rng.random() < 0.6:
                a3, b3 = [sfloat(rng, ty, kk) for _ in range(3)], [sfloat(rng, ty, kk) for _ in range(3)]
            else:
                a3, b3 = scomps(rng, ty, 3, R["cross"]), scomps(rng, ty, 3, R["cross"])
            cases.append(Case(f"{ty}-scross-{k}", [geof_line(ty, "v3cross", a3 + b3), geof_line(ty, "v3cross", b3 + a3),
                                                   geof_line(ty, "v3crossdot", a3 + b3)],
                              oracle="f-cross", meta={"sig": "cross", "ty": ty}))
            p, q = scomps(rng, ty, 2, R["orient"], allow_zero=False), scomps(rng, ty, 2, R["orient"], allow_zero=False)
            if rng.random() < 0.5:
                r = scomps(rng, ty, 2, R["orient"])
            else:
                kk = rng.randint(-R["orient"], R["orient"])
                p, q = [sfloat(rng, ty, kk) for _ in range(2)], [sfloat(rng, ty, kk) for _ in range(2)]
                t = rng.choice([0.5, 2.0, -1.0, 0.25, 3.0])
                r = [rnd(ty, q[0] + t * (q[0] - p[0])), rnd(ty, q[1] + t * (q[1] - p[1]))]
                for i in range(2):
                    if rng.random() < 0.6:
                        r[i] = nudge(ty, r[i], rng.randint(-3, 3))
                if any(x != 0.0 and abs(x) < math.ldexp(1.0, -R["orient"] - 2) for x in r):
                    r = scomps(rng, ty, 2, R["orient"])   # cancelled below the sweep: outside the domain
            cases.append(Case(f"{ty}-sorient-{k}", [geof_line(ty, "p2orient", p + q + r), geof_line(ty, "p2orient", p + r + q)],
                              oracle="f-orient", meta={"sig": "orientation", "ty": ty}))
    return cases


def nudge(ty, x, k):
    """move x by k ulps"""
    if k == 0 or x == 0.0:
        return x
    if ty == "f64":
        b = struct.unpack(">q", struct.pack(">d", x))[0]
        return struct.unpack(">d", struct.pack(">q", b + k))[0]
    b = struct.unpack(">i", struct.pack(">f", x))[0]
    return struct.unpack(">f", struct.pack(">i", b + k))[0]


def fargs(case_line):
    t = case_line.split()
    return t[1], t[2], [hex2f(t[1], h) for h in t[3:]]


def fvals(ty, ln):
    """reply -> list of floats | 'panic' | ('err', v) | None"""
    t = ln.split()
    if not t:
        return None
    if t[0] == "panic":
        return "panic"
    if t[0] == "err":
        return ("err", t[1])
    if t[0] == "ok":
        try:
            return [hex2f(ty, h) for h in t[1:]]
        except (ValueError, struct.error):
            return None
    return None


def oracle_float(case, li):
    ty = case.meta["ty"]
    u = U[ty]
    if len(li) != len(case.lines):
        return f"driver produced {len(li)} lines for {len(case.lines)} commands"
    vals = [fvals(ty, x) for x in li]
    for v, raw, ln in zip(vals, li, case.lines):
        if v is None or v == "panic":
            return f"unexpected reply {raw!r} to {ln!r}"
        if isinstance(v, list) and any(math.isnan(x) or math.isinf(x) for x in v):
            return f"non-finite result {raw!r} for {ln!r}"
    fails = []
    kind = case.oracle
    if kind == "f-compound":
        base = case.meta["base"]
        for ln, raw in zip(case.lines[1:], li[1:]):
            op = ln.split()[2]
            if raw != li[0]:
                fails.append(f"compound-mismatch {op}: binary {base} -> {li[0]!r}, {op} -> {raw!r}")
    elif kind == "f-selfsub":
        for ln, v in zip(case.lines, vals):
            if any(x != 0.0 for x in v):
                fails.append(f"v - v != 0 for {ln!r}")
    elif kind == "f-addsub":
        for ln, v in zip(case.lines, vals):
            _, op, a = fargs(ln)
            k = len(a) // 2
            for i in range(k):
                vv, uu = Fr(a[i]), Fr(a[i + k])
                bound = (2 * u + u * u) * (abs(vv) + abs(uu))
                if abs(Fr(v[i]) - uu) > bound:
                    fails.append(f"(v+u)-v off by {float(abs(Fr(v[i]) - uu))} > {float(bound)} in {ln!r}")
    elif kind == "f-dot":
        if li[0] != li[1] or li[2] != li[3]:
            fails.append("dot product not symmetric bit for bit")
        # and within the standard bound of the exact value
        for ln, v in ((case.lines[0], vals[0]), (case.lines[2], vals[2])):
            _, op, a = fargs(ln)
            k = len(a) // 2
            ex = sum(Fr(a[i]) * Fr(a[i + k]) for i in range(k))
            mag = sum(abs(Fr(a[i]) * Fr(a[i + k])) for i in range(k))
            if abs(Fr(v[0]) - ex) > (k * u + k * k * u * u) * mag:
                fails.append(f"dot off the exact value by more than the rounding bound in {ln!r}")
    elif kind == "f-cross":
        c1, c2, cd = vals
        if [Fr(x) for x in c1] != [-Fr(x) for x in c2]:
            fails.append("cross(a,b) != -cross(b,a)")
        _, _, ab = fargs(case.lines[0])
        a, b = [Fr(x) for x in ab[:3]], [Fr(x) for x in ab[3:]]
        p = [abs(a[1] * b[2]) + abs(a[2] * b[1]), abs(a[2] * b[0]) + abs(a[0] * b[2]), abs(a[0] * b[1]) + abs(a[1] * b[0])]
        for w, d in ((a, cd[0]), (b, cd[1])):
            m = sum(abs(w[i]) * p[i] for i in range(3))
            if abs(Fr(d)) > 6 * u * m:
                fails.append(f"|(a x b).w| = {abs(d)} exceeds 6u*M = {float(6 * u * m)}")
        # componentwise accuracy of the cross product itself
        ex = ref("v3cross", a + b)
        for i in range(3):
            if abs(Fr(c1[i]) - ex[i]) > (2 * u + u * u) * p[i]:
                fails.append("cross component off the exact value by more than (2u+u^2)(|p|+|q|)")
    elif kind == "f-avg":
        if li[0] != li[1] or li[2] != li[3]:
            fails.append("average not symmetric bit for bit")
        for ln, v in ((case.lines[0], vals[0]), (case.lines[2], vals[2])):
            _, _, a = fargs(ln)
            k = len(a) // 2
            for i in range(k):
                if not (min(a[i], a[i + k]) <= v[i] <= max(a[i], a[i + k])):
                    fails.append(f"average component {v[i]} not between {a[i]} and {a[i + k]}")
    elif kind == "f-orient":
        g = 3 * u + 3 * u * u + u ** 3
        for ln, v in zip(case.lines, vals):
            _, _, c = fargs(ln)
            ax, ay, bx, by, cx, cy = [Fr(x) for x in c]
            A, B, C, D = bx - ax, cy - by, by - ay, cx - bx
            E = A * B - C * D
            assert E == ref("p2orient", [ax, ay, bx, by, cx, cy])[0]
            if abs(E) > g * (abs(A * B) + abs(C * D)):
                if sgn(Fr(v[0])) != sgn(E):
                    fails.append(f"orientation sign {sgn(v[0])} but exact value {float(E)} is outside the rounding band in {ln!r}")
            else:
                case.meta["in_band"] = case.meta.get("in_band", 0) + 1
        if Fr(vals[0][0]) != -Fr(vals[1][0]):
            # (a,b,c) vs (a,c,b) are different expressions; equal up to rounding only: compare outside the band
            pass
    elif kind == "f-dir":
        tol = DIR_TOL[ty]
        for ln, v, raw in zip(case.lines, vals, li):
            _, op, a = fargs(ln)
            null = all(x == 0.0 for x in a)
            want_err = ("err", "InvalidNormDir" if op == "v2normaldir" else "InvalidUnitDir")
            if null:
                if v != want_err:
                    fails.append(f"{op} on the null vector returned {raw!r}")
                continue
            if not isinstance(v, list):
                fails.append(f"{op} failed on the non-null vector {a}: {raw!r}")
                continue
            r = [Fr(x) for x in v]
            w = [Fr(x) for x in a]
            n2 = sum(x * x for x in r)
            if not ((1 - tol) ** 2 <= n2 <= (1 + tol) ** 2):
                fails.append(f"{op}: |result| = {math.sqrt(float(n2))} not within {float(tol)} of 1")
            w2 = sum(x * x for x in w)
            if op == "v2unitdir":
                cr = r[0] * w[1] - r[1] * w[0]
                if cr * cr > tol * tol * n2 * w2 or r[0] * w[0] + r[1] * w[1] <= 0:
                    fails.append(f"{op}: result not parallel to the input")
            elif op == "v2normaldir":
                dt = r[0] * w[0] + r[1] * w[1]
                if dt * dt > tol * tol * n2 * w2:
                    fails.append(f"{op}: result not orthogonal to the input")
                if w[0] * r[1] - w[1] * r[0] <= 0:
                    fails.append(f"{op}: result is not the counter-clockwise quarter turn")
                if [sgn(x) for x in r] != [sgn(-w[1]), sgn(w[0])]:
                    fails.append(f"{op}: sign pattern")
            else:
                c = ref("v3cross", r + w)
                if sum(x * x for x in c) > tol * tol * n2 * w2 or sum(r[i] * w[i] for i in range(3)) <= 0:
                    fails.append(f"{op}: result not parallel to the input")
    return "; ".join(fails[:4]) or None


def impl_campaign(cases, oracle):
    """run an implementation-only stream; same result shape as hv.campaign"""
    text = hv.render(cases)
    _, out = hv.run_bin(hv.HCIMPL, text)
    groups = hv.split_outputs(out)
    stats = {"cases": len(cases), "lines": 0, "disagreements": 0, "oracle_failures": 0, "impl_outcomes": {}, "ops": {}}
    violations, samples, distinct = [], [], set()
    for k, c in enumerate(cases):
        li = groups[k][1] if k < len(groups) else ["<missing: implementation driver died>"]
        stats["lines"] += len(li)
        distinct.add(hashlib.md5("\n".join(li).encode()).hexdigest())
        for ln in c.lines:
            t = ln.split()
            key = " ".join(t[:3]) if t[0] == "geof" else t[0]
            stats["ops"][key] = stats["ops"].get(key, 0) + 1
        for ln in li:
            t = ln.split(" ")
            key = t[0] if t[0] != "err" else " ".join(t[:2])
            stats["impl_outcomes"][key] = stats["impl_outcomes"].get(key, 0) + 1
        f = oracle(c, li)
        if f:
            stats["oracle_failures"] += 1
            violations.append({
                "kind": "oracle",
                "what": f"property fails on the implementation on case {c.cid}: {f}",
                "found_input": True,
                "sig": c.meta.get("sig", ""),
                "replay": {"case": c.cid, "input_lines": c.lines, "impl_output": li, "oracle_failure": f,
                           "replay_cmd": f"printf '%s\\n' <input_lines> | {hv.HCIMPL_PATH}"},
            })
        if len(samples) < 2:
            samples.append({"case": c.cid, "input": c.lines[:6], "impl_output": li[:6]})
    stats["distinct_nontrivial"] = len(distinct)
    return {"stats": stats, "violations": violations, "samples": samples}


# ---------------------------------------------------------------------------------------------
# stream 3: skewness
# ---------------------------------------------------------------------------------------------

SKEW_TOL = 1e-9
TIE_TOL = 1e-12


def interior_angles(pts):
    n = len(pts)
    out = []
    for i in range(n):
        (x1, y1), (x2, y2), (x3, y3) = pts[i], pts[(i + 1) % n], pts[(i + 2) % n]
        vin = (x1 - x2, y1 - y2)
        vout = (x3 - x2, y3 - y2)
        out.append(corner_angle(vin, vout))
    return out


def corner_angle(vin, vout):
    """the Rust expression in double precision: acos(vin.dot(vout) / (vin.norm() * vout.norm()))"""
    d = vin[0] * vout[0] + vin[1] * vout[1]
    c = d / (math.hypot(*vin) * math.hypot(*vout))
    return math.acos(max(-1.0, min(1.0, c)))


def convex_polygon(rng, n):
    while True:
        cuts = sorted(rng.uniform(0, 2 * math.pi) for _ in range(n))
        gaps = [(cuts[(i + 1) % n] - cuts[i]) % (2 * math.pi) for i in range(n)]
        if min(gaps) < 0.12:
            continue
        ax, bx = rng.uniform(0.6, 1.6), rng.uniform(0.6, 1.6)
        ph = rng.uniform(0, math.pi)
        pts = []
        for t in cuts:
            x, y = ax * math.cos(t), bx * math.sin(t)
            pts.append((x * math.cos(ph) - y * math.sin(ph), x * math.sin(ph) + y * math.cos(ph)))
        ang = interior_angles(pts)
        if min(ang) < 0.05 or max(ang) > math.pi - 0.05:
            continue
        # strictly convex, counter-clockwise
        ok = True
        for i in range(n):
            (x1, y1), (x2, y2), (x3, y3) = pts[i], pts[(i + 1) % n], pts[(i + 2) % n]
            if (x2 - x1) * (y3 - y2) - (y2 - y1) * (x3 - x2) <= 1e-6:
                ok = False
        if ok:
            return pts


def regular_polygon(rng, n):
    r = rng.uniform(0.25, 8.0)
    cx, cy = rng.uniform(-10, 10), rng.uniform(-10, 10)
    ph = rng.uniform(0, 2 * math.pi)
    return [(cx + r * math.cos(ph + 2 * math.pi * i / n), cy + r * math.sin(ph + 2 * math.pi * i / n)) for i in range(n)]


def skew_line(ty, start, pts, dim3=False, glued=False):
    flat = [rnd(ty, c) for p in pts for c in p]
    op = "skew3g" if glued else "skew3" if dim3 else "skew2"
    return f"geof {ty} {op} {start}" + "".join(" " + f2hex(ty, x) for x in flat)


def skew_cases(count, rng):
    cases = []
    for k in range(count):
        n = 3 + k % 10
        pts = convex_polygon(rng, n)
        lines, tags = [skew_line("f64", 1, pts)], ["base"]
        s = rng.randint(2, n)
        lines.append(skew_line("f64", s, pts)); tags.append(f"start dart {s}")
        tx, ty_ = rng.uniform(-100, 100), rng.uniform(-100, 100)
        lines.append(skew_line("f64", 1, [(x + tx, y + ty_) for x, y in pts])); tags.append("translation")
        ph = rng.uniform(0, 2 * math.pi)
        co, si = math.cos(ph), math.sin(ph)
        lines.append(skew_line("f64", 1, [(co * x - si * y, si * x + co * y) for x, y in pts])); tags.append("rotation")
        sc = math.ldexp(rng.uniform(1, 2), rng.randint(-6, 6))
        lines.append(skew_line("f64", 1, [(sc * x, sc * y) for x, y in pts])); tags.append("scaling")
        lines.append(skew_line("f64", 1, [(sc * (co * x - si * y) + tx, sc * (si * x + co * y) + ty_) for x, y in pts]))
        tags.append("similarity")
        lines.append(skew_line("f64", 1, list(reversed(pts)))); tags.append("reversal")
        # 3-D: embed in a random plane
        e1, e2, o = random_frame(rng)
        p3 = [tuple(o[i] + x * e1[i] + y * e2[i] for i in range(3)) for x, y in pts]
        lines.append(skew_line("f64", 1, p3, dim3=True)); tags.append("3-D embedding")
        lines.append(skew_line("f64", rng.randint(1, n), [(x, y, 0.0) for x, y in pts], dim3=True)); tags.append("3-D z=0")
        # the same face shared by two volumes (3-linked): start on the first side, then on the mirrored side
        lines.append(skew_line("f64", 1, p3, glued=True)); tags.append("3-D glued = free")
        lines.append(skew_line("f64", rng.randint(1, n), p3, glued=True)); tags.append("3-D glued, first side")
        lines.append(skew_line("f64", rng.randint(n + 1, 2 * n), p3, glued=True)); tags.append("3-D glued, mirrored side")
        lines.append(skew_line("f32", 1, pts)); tags.append("f32")
        cases.append(Case(f"skew-{k}", lines, oracle="skew", meta={"sig": "skewness", "tags": tags, "pts": pts, "n": n}))
        reg = regular_polygon(rng, n)
        reg3 = [(x, y, 0.0) for x, y in reg]
        cases.append(Case(f"reg-{k}", [skew_line("f64", rng.randint(1, n), reg), skew_line("f32", 1, reg),
                                       skew_line("f64", rng.randint(1, n), reg3, dim3=True),
                                       skew_line("f64", rng.randint(1, 2 * n), reg3, glued=True)], oracle="regular",
                          meta={"sig": "skewness-regular", "n": n}))
    return cases


def random_frame(rng):
    while True:
        a = [rng.gauss(0, 1) for _ in range(3)]
        b = [rng.gauss(0, 1) for _ in range(3)]
        na = math.sqrt(sum(x * x for x in a))
        if na < 0.3:
            continue
        e1 = [x / na for x in a]
        d = sum(x * y for x, y in zip(e1, b))
        b = [y - d * x for x, y in zip(e1, b)]
        nb = math.sqrt(sum(x * x for x in b))
        if nb < 0.3:
            continue
        e2 = [x / nb for x in b]
        return e1, e2, [rng.uniform(-10, 10) for _ in range(3)]


def oracle_skew(case, li):
    if len(li) != len(case.lines):
        return f"driver produced {len(li)} lines for {len(case.lines)} commands"
    vals = []
    for ln, raw in zip(case.lines, li):
        ty = ln.split()[1]
        v = fvals(ty, raw)
        if not isinstance(v, list) or len(v) != 1 or math.isnan(v[0]):
            return f"unexpected reply {raw!r} to a skewness call"
        vals.append(v[0])
    fails = []
    if case.oracle == "regular":
        for ln, v in zip(case.lines, vals):
            tol = SKEW_TOL if ln.split()[1] == "f64" else 1e-4
            if abs(v) > tol:
                fails.append(f"regular {case.meta['n']}-gon has skewness {v}")
        case.meta["negative"] = sum(1 for v in vals if v < 0)
        return "; ".join(fails) or None
    base = vals[0]
    tags = case.meta["tags"]
    if "3-D glued = free" in tags:
        i, j = tags.index("3-D embedding"), tags.index("3-D glued = free")
        if li[i] != li[j]:
            fails.append(f"skewness of a face shared by two volumes ({vals[j]}) differs from the free face on the same points ({vals[i]})")
    for tag, v in zip(case.meta["tags"], vals):
        tol = 1e-3 if tag == "f32" else SKEW_TOL
        if not (-1e-12 <= v <= 1 + 1e-12) and tag != "f32":
            fails.append(f"skewness {v} outside [0,1] ({tag})")
        if tag == "f32" and not (-1e-5 <= v <= 1 + 1e-5):
            fails.append(f"skewness {v} outside [0,1] ({tag})")
        if abs(v - base) > tol:
            fails.append(f"skewness changes by {abs(v - base)} under {tag}")
    return "; ".join(fails[:4]) or None


def skew_tie(cases):
    """tolerance tie of the model's `corners` + `skewOfAngles` to the implementation (base polygons)"""
    base = [c for c in cases if c.oracle == "skew"]
    q1 = []
    for c in base:
        q1.append("geo corners" + "".join(" " + rs(Fr(x)) for p in c.meta["pts"] for x in p))
    _, o1 = hv.run_bin(hv.HCMODEL, "\n".join(q1) + "\n")
    o1 = (o1 + ["<missing: model driver died>"] * len(base))[:len(base)]
    q2, bad = [], []
    pi = rs(Fr(math.pi))
    for c, rep in zip(base, o1):
        t = rep.split()
        if not t or t[0] != "ok":
            bad.append((c, f"model reply to `geo corners`: {rep[:80]!r}"))
            q2.append("# skip")
            continue
        triples = " ".join(t[1:]).split(" ; ")
        if len(triples) != c.meta["n"]:
            bad.append((c, f"model lists {len(triples)} corners for a {c.meta['n']}-gon"))
            q2.append("# skip")
            continue
        ang = []
        for tr in triples:
            ax, ay, bx, by, cx, cy = [float(Fr(x)) for x in tr.split()]
            ang.append(corner_angle((ax - bx, ay - by), (cx - bx, cy - by)))
        q2.append("geo skewang " + pi + "".join(" " + rs(Fr(a)) for a in ang))
    _, o2 = hv.run_bin(hv.HCMODEL, "\n".join(q2) + "\n")
    _, oi = hv.run_bin(hv.HCIMPL, "\n".join(c.lines[0] for c in base) + "\n")
    o2 = (o2 + ["<missing: model driver died>"] * len(base))[:len(base)]
    oi = (oi + ["<missing: implementation driver died>"] * len(base))[:len(base)]
    n_ok, worst = 0, 0.0
    violations = []
    for c, rm, ri in zip(base, o2, oi):
        if rm.startswith("#"):
            continue
        tm = rm.split()
        vi = fvals("f64", ri)
        if len(tm) != 2 or tm[0] != "ok" or not isinstance(vi, list):
            bad.append((c, f"model {rm[:60]!r} / implementation {ri[:60]!r}"))
            continue
        d = abs(float(Fr(tm[1])) - vi[0])
        worst = max(worst, d)
        if d > TIE_TOL:
            bad.append((c, f"model skewOfAngles = {float(Fr(tm[1]))!r}, implementation = {vi[0]!r} (differ by {d})"))
        else:
            n_ok += 1
    for c, msg in bad[:5]:
        violations.append({
            "kind": "correspondence",
            "what": f"skewness tie (tolerance {TIE_TOL}) fails on case {c.cid}: {msg}",
            "found_input": False, "sig": "skew-tie",
            "replay": {"case": c.cid, "input_lines": c.lines[:1], "theorem_or_correspondence":
                       "hcmodel `geo corners` + `geo skewang` vs hcimpl `geof f64 skew2` within 1e-12"},
        })
    stats = {"cases": len(base), "lines": 3 * len(base), "disagreements": len(bad), "oracle_failures": 0,
             "impl_outcomes": {}, "ops": {"geo corners": len(base), "geo skewang": len(base)}, "distinct_nontrivial": n_ok}
    return {"stats": stats, "violations": violations, "samples": [],
            "notes": [f"skewness tie: {n_ok}/{len(base)} polygons within {TIE_TOL} (largest difference {worst:.3e}); "
                      "compared with a TOLERANCE, not exactly (angles measured in double precision by python)"]}


# ---------------------------------------------------------------------------------------------
# stream 4: the hardware arithmetic IS the idealised rounding `rnd 53` / `rnd 24`
# ---------------------------------------------------------------------------------------------

PBITS = {"f64": 53, "f32": 24}


def ilog2_fr(a):
    """floor(log2 a), a > 0 — same definition as HC.Geo.ilog2 (bit lengths + one comparison)"""
    k = (a.numerator.bit_length() - 1) - (a.denominator.bit_length() - 1)
    return k if Fr(2) ** k <= a else k - 1


def round_even_fr(m):
    f = m.numerator // m.denominator
    r = m - f
    if r < Fr(1, 2):
        return f
    if r > Fr(1, 2):
        return f + 1
    return f if f % 2 == 0 else f + 1


def rnd_fr(p, x):
    """HC.Geo.rnd: round to nearest, ties to even, p significant bits, unbounded exponent"""
    if x == 0:
        return Fr(0)
    if x < 0:
        return -rnd_fr(p, -x)
    e = ilog2_fr(x) - (p - 1)
    return round_even_fr(x / Fr(2) ** e) * Fr(2) ** e


def flop_line(ty, op, a, b):
    return f"geo flop {ty} {op} {f2hex(ty, a)} {f2hex(ty, b)}"


def flop_pairs(rng, ty, op, count):
    """operand pairs: random normal floats over many decades (results stay normal: no overflow, no
    underflow), same-binade operands, ties-to-even, near-cancellation, small integers and dyadics"""
    R = {"f64": 480, "f32": 60}[ty]
    P = PBITS[ty]
    out = []
    for i in range(count):
        mode = rng.random()
        k = rng.randint(-R, R)
        if mode < 0.30:      # independent scales
            a, b = sfloat(rng, ty, k), sfloat(rng, ty, rng.randint(-R, R))
        elif mode < 0.50:    # neighbouring binades: every bit of both operands matters
            a, b = sfloat(rng, ty, k), sfloat(rng, ty, max(-R, min(R, k + rng.randint(-3, 3))))
        elif mode < 0.70:    # exact ties
            if op in ("add", "sub"):
                a = sfloat(rng, ty, k)
                # half an ulp of a (odd multiples too): the exact result is a midpoint
                b = rng.choice([1.0, -1.0]) * math.ldexp(rng.choice([1.0, 3.0, 5.0]), k - P)
            elif op == "mul":
                h1, h2 = (27, 27) if ty == "f64" else (12, 13)
                ma = rng.getrandbits(h1 - 1) | (1 << (h1 - 1)) | 1
                mb = rng.getrandbits(h2 - 1) | (1 << (h2 - 1)) | 1
                a = rng.choice([1.0, -1.0]) * math.ldexp(float(ma), k // 2)
                b = rng.choice([1.0, -1.0]) * math.ldexp(float(mb), rng.randint(-R // 2, R // 2))
            else:            # division: quotient exactly representable, or 1/3-like
                b = sfloat(rng, ty, rng.randint(-R // 2, R // 2))
                qf = float(rng.getrandbits(P // 2) | 1)
                a = rnd(ty, b * qf) if rng.random() < 0.5 else sfloat(rng, ty, k)
        elif mode < 0.88:    # near-cancellation (a - b, a + (-b)): Sterbenz region and just outside
            a = sfloat(rng, ty, k)
            b = nudge(ty, a, rng.randint(-8, 8)) if rng.random() < 0.6 else rnd(ty, a * rng.choice([0.5, 0.75, 1.25, 1.5, 2.0, 0.999]))
            if op == "add":
                b = -b
        else:                # small integers and dyadics
            a = rnd(ty, float(rng.randint(-4096, 4096)) / 2 ** rng.randint(0, 6))
            b = rnd(ty, float(rng.randint(-4096, 4096)) / 2 ** rng.randint(0, 6))
        if op == "div" and b == 0.0:
            b = 1.0
        out.append((a, b))
    return out


def flop_cases(count, rng, per_case=25):
    cases = []
    for ty in ("f64", "f32"):
        for op in ("add", "sub", "mul", "div"):
            pairs = flop_pairs(rng, ty, op, count)
            for i in range(0, len(pairs), per_case):
                chunk = pairs[i:i + per_case]
                cases.append(Case(f"flop-{ty}-{op}-{i // per_case}", [flop_line(ty, op, a, b) for a, b in chunk],
                                  oracle="flop", meta={"sig": f"flop:{ty}:{op}", "ty": ty, "op": op, "pairs": chunk}))
    return cases


def oracle_flop(case, li):
    """hardware result == rnd_p(exact result), exactly"""
    if len(li) != len(case.lines):
        return f"driver produced {len(li)} lines for {len(case.lines)} commands"
    ty, op = case.meta["ty"], case.meta["op"]
    p = PBITS[ty]
    fails = []
    for (a, b), ln, raw in zip(case.meta["pairs"], case.lines, li):
        x, y = Fr(a), Fr(b)
        ex = x + y if op == "add" else x - y if op == "sub" else x * y if op == "mul" else x / y
        want = "ok " + rs(rnd_fr(p, ex))
        if raw != want:
            fails.append(f"{ln!r}: hardware {raw[:60]!r}, rnd {p} of the exact result {want[:60]!r}")
        elif ex != 0 and rnd_fr(p, ex) != ex:
            case.meta["inexact"] = case.meta.get("inexact", 0) + 1
            m = ex / Fr(2) ** (ilog2_fr(abs(ex)) - (p - 1))
            if (m - (m.numerator // m.denominator)) == Fr(1, 2):
                case.meta["ties"] = case.meta.get("ties", 0) + 1
    return "; ".join(fails[:3]) or None


# ---------------------------------------------------------------------------------------------

def run(tier, seed):
    rng = random.Random(seed)
    n_exact, n_float, n_skew = (1500, 1000, 600) if tier == "quick" else (20000, 15000, 6000)
    n_scaled = 500 if tier == "quick" else 6000
    n_flop, n_flop_lean = (6000, 600) if tier == "quick" else (100000, 8000)
    parts = []
    ex = exact_cases(n_exact, rng)
    r1 = hv.campaign(ex, oracle_exact)
    ops = {}
    for c in ex:
        for ln in c.lines:
            key = " ".join(ln.split()[:2])
            ops[key] = ops.get(key, 0) + 1
    r1["stats"]["ops"] = ops
    parts.append(("exact: geo operators, model vs implementation + exact oracle", r1))
    fl = float_cases(n_float, rng) + scaled_cases(n_scaled, rng)
    r2 = impl_campaign(fl, oracle_float)
    in_band = sum(c.meta.get("in_band", 0) for c in fl)
    n_or = sum(2 for c in fl if c.oracle == "f-orient")
    r2["notes"] = [f"float stream: {n_or} orientation evaluations, {in_band} inside the rounding band (no sign requirement there)"]
    parts.append(("float: random f64/f32 (moderate magnitudes + sweep over 2^+-480 / 2^+-60), implementation only", r2))
    sk = skew_cases(n_skew, rng)
    r3 = impl_campaign(sk, oracle_skew)
    neg = sum(c.meta.get("negative", 0) for c in sk)
    r3["notes"] = [f"skewness: {neg} regular-polygon evaluations returned a tiny NEGATIVE value (>= -{SKEW_TOL}); "
                   "the range clause is checked up to 1e-12"]
    parts.append(("skewness: convex polygons 3..12 sides, implementation only", r3))
    parts.append(("skewness tie (tolerance)", skew_tie(sk)))
    # hardware + - * / against the idealised rounding: python definition on everything (implementation only),
    # the Lean definition itself on a sample (both drivers, exact diff)
    fp = flop_cases(n_flop, rng)
    r5 = impl_campaign(fp, oracle_flop)
    r5["notes"] = [f"flop: {sum(len(c.lines) for c in fp)} hardware operations compared with rnd 53 / rnd 24 (python Fractions); "
                   f"{sum(c.meta.get('inexact', 0) for c in fp)} inexact results, of which {sum(c.meta.get('ties', 0) for c in fp)} exact ties (to even)"]
    parts.append(("flop: f64/f32 + - * / vs rnd 53 / rnd 24 (python definition), implementation only", r5))
    fs = flop_cases(n_flop_lean, rng)
    r6 = hv.campaign(fs, oracle_flop)
    parts.append(("flop: f64/f32 + - * / vs the Lean rnd (hcmodel), exact", r6))
    return hv.merge_results(parts)


# ---------------------------------------------------------------------------------------------
# known findings
# ---------------------------------------------------------------------------------------------

def matches(known, v):
    """No open finding for C19.  D12 (`Vector2 -= Vector2` subtracted x twice and never y) was repaired in /repo
    commit 90eb331 and is recorded under "fixed" in known_findings.json; a recurrence is a VIOLATION."""
    return False
