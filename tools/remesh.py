"""Specification side of C15 (remeshing primitives), evaluated on `snap` lines with exact Fractions.

Independent of the Lean model and of the Rust code: a mesh is read from a snapshot as its set of
triangles (cyclic triples of the coordinates found at the vertex ids of the three darts), the
specified result of swap / cut / collapse is computed from the snapshot taken BEFORE the call and
compared with the snapshot taken after it.
"""
from collections import Counter
from fractions import Fraction as Fr

import kern2
from kern2 import Snap

HALF = Fr(1, 2)


# ---------------------------------------------------------------------------------------------
# anchors (codes 4*id + dim, as printed by `snap`)
# ---------------------------------------------------------------------------------------------

def acode(tok):
    return None if tok in (None, "none") else int(tok)


def adim(c):
    return c % 4


def amerge(a, b):
    """the documented law: the lower-dimensional anchor wins; equal dimension needs equal ids; an undefined anchor merged
    with a defined one gives the defined one (`merge_incomplete`), two undefined ones cannot be merged (`merge_from_none`).
    returns (ok, value)"""
    if a is None or b is None:
        return (a is not None or b is not None), (a if b is None else b)
    if adim(a) < adim(b):
        return True, a
    if adim(b) < adim(a):
        return True, b
    return (True, a) if a == b else (False, None)


def astr(c):
    return "none" if c is None else "NCSB"[c % 4] + str(c // 4)


# ---------------------------------------------------------------------------------------------
# a snapshot as a mesh
# ---------------------------------------------------------------------------------------------

class Mesh:
    def __init__(self, line):
        s = Snap(line)
        self.s, self.n, self.b, self.u, self.a0 = s, s.n, s.b, s.u, s.a0
        self.raw = line
        self.anch = {k: ([acode(x) for x in s.others[k]] if k in s.others else None) for k in ("a6", "a7", "a8")}
        self.others = {k: v for k, v in s.others.items() if k not in ("a6", "a7", "a8")}
        self._vid = {}
        self.in_use = [d for d in range(1, self.n) if not self.u[d]]
        self.free = [d for d in self.in_use if self.b[0][d] == 0 and self.b[1][d] == 0 and self.b[2][d] == 0]
        self.linked = [d for d in self.in_use if d not in set(self.free)]

    # --- cells
    def vid(self, d):
        if d not in self._vid:
            orb = kern2.vertex_orbit(self.b, d)
            v = min(orb)
            for x in orb:
                self._vid[x] = v
        return self._vid[d]

    def eid(self, d):
        r = self.b[2][d]
        return d if r == 0 else min(d, r)

    def face(self, d):
        """darts of the β1 cycle through d, or None when it is not a closed triangle"""
        b1 = self.b[1]
        x, y = b1[d], b1[b1[d]] if b1[d] else 0
        if x == 0 or y == 0 or b1[y] != d or len({d, x, y}) != 3:
            return None
        if self.b[0][x] != d or self.b[0][y] != x or self.b[0][d] != y:
            return None
        return (d, x, y)

    def fid(self, d):
        f = self.face(d)
        return min(f) if f else d

    def org(self, d):
        v = self.vid(d)
        return self.a0[v] if v < len(self.a0) else None

    def anchor_v(self, d):
        return self.anch["a6"][self.vid(d)] if self.anch["a6"] else None

    def anchor_e(self, d):
        return self.anch["a7"][self.eid(d)] if self.anch["a7"] else None

    def anchor_f(self, d):
        return self.anch["a8"][self.fid(d)] if self.anch["a8"] else None

    # --- predicates
    def structure_ok(self):
        """β0/β1 inverse, β2 a fixed-point-free involution, removed darts free, images in use"""
        b, n = self.b, self.n
        if any(b[i][0] != 0 for i in range(3)):
            return False
        for d in range(1, n):
            for i in range(3):
                x = b[i][d]
                if x >= n or (x and self.u[x]):
                    return False
            if self.u[d] and (b[0][d] or b[1][d] or b[2][d]):
                return False
            if b[1][d] and b[0][b[1][d]] != d:
                return False
            if b[0][d] and b[1][b[0][d]] != d:
                return False
            if b[2][d] and (b[2][b[2][d]] != d or b[2][d] == d):
                return False
        return True

    def non_triangle_darts(self, allowed_free=()):
        """in-use darts that are neither in a closed triangle nor an allowed free (spare) dart"""
        ok = set(allowed_free)
        return [d for d in self.in_use if d not in ok and self.face(d) is None]

    def is_triangle_mesh(self, allowed_free=None):
        allowed = self.free if allowed_free is None else allowed_free
        return self.structure_ok() and not self.non_triangle_darts(allowed)

    def embedded(self):
        return all(self.org(d) is not None for d in self.linked) and self.a0[0] is None

    def triangles(self):
        """{min dart: (p0, p1, p2)} over the closed triangles"""
        out = {}
        for d in self.linked:
            f = self.face(d)
            if f and d == min(f):
                out[d] = tuple(self.org(x) for x in f)
        return out

    def tri_multiset(self):
        return Counter(canon_tri(t) for t in self.triangles().values())

    def counts(self):
        vs = {self.vid(d) for d in self.linked}
        es = {self.eid(d) for d in self.linked}
        fs = {self.fid(d) for d in self.linked}
        return len(vs), len(es), len(fs)

    def neighbours(self, v):
        """vertex ids adjacent to vertex id v"""
        out = set()
        for d in self.linked:
            if self.vid(d) == v:
                if self.b[1][d]:
                    out.add(self.vid(self.b[1][d]))
                if self.b[0][d]:
                    out.add(self.vid(self.b[0][d]))
        out.discard(v)
        return out

    def max_den_bits(self):
        m = 0
        for p in self.a0:
            if p is not None:
                for c in p:
                    m = max(m, c.denominator.bit_length() - 1)
        return m

    def stale_anchors(self):
        """[(kind, id)]: anchors stored under identifiers that are not (no longer) the identifier of a vertex / edge / face of the
        mesh — left behind by finding D15a (the face anchor stays under the old identifier); such a slot becomes visible again
        as soon as a cell takes that identifier"""
        out = []
        ids = {"a6": {self.vid(d) for d in self.in_use}, "a7": {self.eid(d) for d in self.in_use},
               "a8": {self.fid(d) for d in self.in_use}}
        for k, kind in (("a6", "v"), ("a7", "e"), ("a8", "f")):
            if self.anch[k]:
                out += [(kind, i) for i, x in enumerate(self.anch[k]) if x is not None and i not in ids[k]]
        return out

    def fully_anchored(self):
        """every vertex / edge / face of the mesh carries an anchor (when the storages exist)"""
        if not any(self.anch.values()):
            return True
        for d in self.linked:
            if self.anch["a6"] and self.anchor_v(d) is None:
                return False
            if self.anch["a7"] and self.anchor_e(d) is None:
                return False
            if self.anch["a8"] and self.anchor_f(d) is None:
                return False
        return True


def canon_tri(t):
    """cyclic triple as its lexicographically smallest rotation (orientation kept; well defined with repeated points)"""
    key = lambda r: tuple((p is None, p) for p in r)   # noqa: E731
    return min(((t[k], t[(k + 1) % 3], t[(k + 2) % 3]) for k in range(3)), key=key)


def area2(t):
    return kern2.cross3(t[0], t[1], t[2])


def mid(p, q):
    return ((p[0] + q[0]) * HALF, (p[1] + q[1]) * HALF)


# ---------------------------------------------------------------------------------------------
# operations
# ---------------------------------------------------------------------------------------------

def parse_op(line):
    t = line.split()
    if t[0] in ("swap", "collapse") and len(t) == 2:
        return {"kind": t[0], "e": int(t[1]), "nds": []}
    if t[0] == "cutin" and len(t) == 8:
        return {"kind": "cutin", "e": int(t[1]), "nds": [int(x) for x in t[2:]]}
    if t[0] == "cutout" and len(t) == 5:
        return {"kind": "cutout", "e": int(t[1]), "nds": [int(x) for x in t[2:]]}
    return None


def in_guard(m, op):
    """is the call inside the property's guard?  (well-formed, fully embedded triangle mesh, an
    existing edge of the right kind, distinct free spare darts, anchors everywhere when present)"""
    e, nds = op["e"], op["nds"]
    if not (0 < e < m.n) or m.u[e] or e in m.free:
        return False
    if not m.is_triangle_mesh() or not m.embedded():
        return False
    # anchors: any subset of the three storages, any subset of the cells anchored (`with and without anchor attributes`); the
    # clauses compare what is there (an undefined anchor stays undefined).  Only the collapse NEEDS anchors: with a VertexAnchor
    # storage it reads the anchors of the two end points and of the edge, and cannot succeed without them (it retries)
    if m.stale_anchors():
        return False      # garbage left in the anchor storages by an earlier call (D15a): not a state the statement speaks about
    if op["kind"] == "collapse" and m.anch["a6"]:
        if m.anchor_v(e) is None or m.anchor_v(m.b[1][e]) is None or m.anchor_e(e) is None:
            return False
    if len(set(nds)) != len(nds) or any(not (0 < x < m.n) or x not in m.free for x in nds):
        return False
    r = m.b[2][e]
    if op["kind"] in ("swap", "cutin") and r == 0:
        return False
    if op["kind"] == "cutout" and r != 0:
        return False
    # simplicial: the corners of the adjacent triangles are pairwise distinct vertices
    corners = [m.vid(e), m.vid(m.b[1][e]), m.vid(m.b[0][e])] + ([m.vid(m.b[0][r])] if r else [])
    if len(set(corners)) != len(corners):
        return False
    return True


def collapse_target(m, op):
    """('mid'|'left'|'right', None) or (None, reason) when the anchors forbid the collapse"""
    l = op["e"]
    if not m.anch["a6"]:
        return "mid", None
    la, ra, ea = m.anchor_v(l), m.anchor_v(m.b[1][l]), m.anchor_e(l)
    ok, val = amerge(la, ra)
    if not ok:
        return None, "incompatible vertex anchors"
    if ea is None or adim(ea) not in (adim(la), adim(ra)):
        return None, "edge anchor dimension differs from both end points"
    if val == la and val == ra:
        return "mid", None
    return ("left" if val == la else "right"), None


def link_condition(m, op):
    """the end points have no common neighbour besides the opposite corners of the adjacent triangles"""
    l = op["e"]
    r = m.b[2][l]
    va, vb = m.vid(l), m.vid(m.b[1][l])
    opp = {m.vid(m.b[0][l])}
    if r:
        opp.add(m.vid(m.b[0][r]))
    return (m.neighbours(va) & m.neighbours(vb)) == opp and va != vb


def judge(before, res, after, wfline, op):
    """failures of the property on one call, as (tag, detail) pairs"""
    items = []
    ok = res == "ok" or res.startswith("ok ")
    if not ok:
        if before.raw != after.raw:
            items.append(("error-changed-map", f"{res!r} but the map changed"))
        return items
    if not in_guard(before, op):
        return items
    kind, l, nds = op["kind"], op["e"], op["nds"]
    r = before.b[2][l]
    if wfline != "wf true true true" or not after.structure_ok():
        items.append(("wf-lost", wfline))
        return items
    fl, fr = before.face(l), (before.face(r) if r else None)
    A, B, C = before.org(l), before.org(before.b[1][l]), before.org(before.b[0][l])
    D = before.org(before.b[0][r]) if r else None
    told = Counter(before.tri_multiset())
    told[canon_tri((A, B, C))] -= 1
    if r:
        told[canon_tri((B, A, D))] -= 1
    spare_left = [x for x in before.free if x not in nds]
    bad = after.non_triangle_darts(spare_left)
    if bad:
        items.append(("not-triangles", f"in-use darts outside closed triangles: {bad[:8]}"))
    v0, e0, f0 = before.counts()
    v1, e1, f1 = after.counts()
    dv, de, df = v1 - v0, e1 - e0, f1 - f0
    touched = set(fl) | (set(fr) if fr else set()) | set(nds)
    removed = set()
    expect = None
    if kind == "swap":
        expect = told + Counter([canon_tri((A, D, C)), canon_tri((D, B, C))])
        want_counts = (0, 0, 0)
        moved = {l: C, r: D}
    elif kind == "cutin":
        M = mid(A, B)
        expect = told + Counter([canon_tri((A, M, C)), canon_tri((M, B, C)), canon_tri((B, M, D)), canon_tri((M, A, D))])
        want_counts = (1, 3, 2)
        moved = {}
    elif kind == "cutout":
        M = mid(A, B)
        expect = told + Counter([canon_tri((A, M, C)), canon_tri((M, B, C))])
        want_counts = (1, 2, 1)
        moved = {}
    else:
        tgt, why = collapse_target(before, op)
        if tgt is None:
            items.append(("collapse-accepted", f"collapse succeeded although the anchors forbid it: {why}"))
            return items
        if not link_condition(before, op):
            return items   # outside the statement's guard
        P = {"mid": mid(A, B), "left": A, "right": B}[tgt]
        va, vb = before.vid(l), before.vid(before.b[1][l])
        removed = set(fl) | (set(fr) if fr else set())
        expect = Counter()
        for d0, _t in before.triangles().items():
            f = before.face(d0)
            if set(f) & removed:
                continue
            expect[canon_tri(tuple(P if before.vid(x) in (va, vb) else before.org(x) for x in f))] += 1
        want_counts = (-1, -3, -2) if r else (-1, -2, -1)
        moved = {}
        # which darts leave the map is the kernel's choice (dart identity is not geometric): the darts that are no
        # longer part of the mesh must be exactly the newly flagged ones, three per removed triangle
        newly = {x for x in range(1, before.n) if after.u[x] and not before.u[x]}
        gone = {x for x in before.linked if after.face(x) is None}
        if gone - newly:
            items.append(("not-flagged", f"darts left outside the mesh without the removal flag: {sorted(gone - newly)[:8]}"))
        if len(newly) != len(removed) or newly - set(before.linked):
            items.append(("flags", f"{len(newly)} darts flagged ({sorted(newly)[:8]}), {len(removed)} darts belong to the removed triangles"))
        removed = newly | gone
        # orientation around the resulting vertex
        keep = [d for d in before.linked if d not in removed and before.vid(d) in (va, vb) and not after.u[d]]
        signs = set()
        for d in keep:
            f = after.face(d)
            if f and all(after.org(x) is not None for x in f):
                a2 = area2(tuple(after.org(x) for x in f))
                signs.add(0 if a2 == 0 else (1 if a2 > 0 else -1))
        if 1 in signs and -1 in signs:
            items.append(("fan-orientation", "triangles around the resulting vertex have both orientations"))
        elif 0 in signs:
            # /repo 94962f9 (former finding D15g): the post-check refuses a zero cross product, so a successful collapse never
            # leaves a flat triangle at the resulting vertex, whatever the input looked like
            items.append(("fan-orientation", "a triangle around the resulting vertex has zero area"))
    expect = +expect
    got = after.tri_multiset()
    if got != expect:
        miss = list((expect - got).elements())[:3]
        extra = list((got - expect).elements())[:3]
        items.append(("triangles", f"triangle set differs from the specified one: missing {fmt_tris(miss)} unexpected {fmt_tris(extra)}"))
    if (dv, de, df) != want_counts:
        items.append(("counts", f"V/E/F changed by {(dv, de, df)}, specified {want_counts}"))
    # removal flags: only the collapse flags darts, and only those of the removed triangles
    for d in range(1, before.n):
        if before.u[d] != after.u[d] and d not in removed:
            items.append(("flags", f"removal flag of dart {d} changed"))
            break
    # frame: origins (coordinates and vertex anchors) of the surviving darts
    for d in before.linked:
        if d in removed or after.u[d]:
            continue
        want = moved.get(d, before.org(d))
        if kind == "collapse" and before.vid(d) in (va, vb):
            continue
        if after.org(d) != want:
            items.append(("vertex-moved", f"origin of dart {d}: {fmt_pt(before.org(d))} -> {fmt_pt(after.org(d))}"
                          + (f" (specified {fmt_pt(want)})" if d in moved else "")))
    if kind in ("cutin", "cutout"):
        M = mid(A, B)
        if after.org(nds[0]) != M:
            items.append(("midpoint", f"new vertex at {fmt_pt(after.org(nds[0]))}, midpoint is {fmt_pt(M)}"))
    if kind in ("swap", "cutin", "cutout"):
        tn = [after.face(x) for x in ([l, r] if kind == "swap" else [l] + nds)]
        reg_b = area2((A, B, C)) + (area2((B, A, D)) if r else 0)
        seen, reg_a = set(), 0
        for f in tn:
            if f and min(f) not in seen and all(after.org(x) is not None for x in f):
                seen.add(min(f))
                reg_a += area2(tuple(after.org(x) for x in f))
        if reg_a != reg_b:
            items.append(("area", f"signed area of the modified region {reg_b / 2} -> {reg_a / 2}"))
    items += judge_anchors(before, after, op, removed, moved)
    return items


def judge_anchors(before, after, op, removed, moved):
    """anchors of surviving cells are kept or lawfully merged.  Cells are identified through their darts:
    a surviving dart keeps its origin vertex, its edge and its face, except for the cells the operation
    is specified to replace or merge."""
    items = []
    if not any(before.anch.values()):
        return items
    kind, l, nds = op["kind"], op["e"], op["nds"]
    r = before.b[2][l]
    canonical = before.eid(l) == l
    fl, fr = before.face(l), (before.face(r) if r else None)
    tri_removed = (set(fl) | (set(fr) if fr else set())) if kind == "collapse" else set()
    va, vb = before.vid(l), before.vid(before.b[1][l])
    ends = {l, r} if r else {l}
    seen_e, seen_f = set(), set()
    for d in before.linked:
        if d in removed or after.u[d] or after.face(d) is None:
            continue
        # --- vertices
        if before.anch["a6"]:
            if kind == "collapse" and before.vid(d) in (va, vb):
                _ok, val = amerge(before.anchor_v(l), before.anchor_v(before.b[1][l]))
                if after.anchor_v(d) != val:
                    items.append(("anchor-vertex", f"resulting vertex anchored {astr(after.anchor_v(d))}, lawful merge is {astr(val)}"))
            elif kind == "swap" and d in moved:
                src = before.b[0][l] if d == l else before.b[0][r]
                if after.anchor_v(d) != before.anchor_v(src):
                    items.append(("anchor-vertex", f"corner of dart {src}: {astr(before.anchor_v(src))} -> {astr(after.anchor_v(d))}"))
            elif after.anchor_v(d) != before.anchor_v(d):
                items.append(("anchor-vertex", f"vertex of dart {d}: {astr(before.anchor_v(d))} -> {astr(after.anchor_v(d))}"))
        # --- edges: the former edges of the darts forming the edge now
        if before.anch["a7"] and after.eid(d) not in seen_e and not (kind == "swap" and d in ends):
            seen_e.add(after.eid(d))
            members = [x for x in (d, after.b[2][d]) if x and x in before.linked]
            olds = sorted({before.eid(x) for x in members})
            vals = [before.anch["a7"][x] for x in olds]
            got = after.anchor_e(d)
            if len(olds) == 1:
                if got != vals[0]:
                    items.append(("anchor-edge", f"edge of dart {d}: {astr(vals[0])} -> {astr(got)}"))
            elif len(olds) == 2:
                okm, val = amerge(*vals) if None not in vals else (False, None)
                if got not in (set(vals) | ({val} if okm else set())):
                    items.append(("anchor-edge", f"merged edge of dart {d} anchored {astr(got)}, the sides were {astr(vals[0])}, {astr(vals[1])}"))
        # --- faces: the former faces (other than the removed triangles) of the darts forming the face now
        if before.anch["a8"] and after.fid(d) not in seen_f:
            f = after.face(d)
            seen_f.add(after.fid(d))
            if kind == "swap" and (set(f) & (set(fl) | set(fr))):
                continue    # both faces are replaced
            olds = sorted({before.fid(x) for x in f if x in before.linked and x not in tri_removed})
            vals = {before.anch["a8"][x] for x in olds}
            got = after.anchor_f(d)
            if len(vals) == 1 and got not in vals:
                items.append(("anchor-face", f"face of dart {d}: {astr(next(iter(vals)))} -> {astr(got)}"))
    if kind in ("cutin", "cutout"):
        sides = [(l, nds[0:3])] + ([(r, nds[3:6])] if kind == "cutin" else [])
        for base, (n1, n2, n3) in sides:
            fa = before.anchor_f(base)
            if before.anch["a8"]:
                for x in (n1, n2, n3):
                    if after.anchor_f(x) != fa:
                        items.append(("anchor-face", f"new face of dart {x} anchored {astr(after.anchor_f(x))}, the cut face was {astr(fa)}"))
            if before.anch["a7"] and before.anch["a8"] and fa is not None:
                if after.anchor_e(n1) != fa:     # EdgeAnchor::from(FaceAnchor) keeps the code
                    items.append(("anchor-edge", f"new inner edge of dart {n1} anchored {astr(after.anchor_e(n1))}, the cut face was {astr(fa)}"))
        if kind == "cutout" and before.anch["a7"]:
            ea = before.anchor_e(l)
            if after.anchor_e(nds[2]) != ea:
                items.append(("anchor-half-edge", f"second half of the cut edge (dart {nds[2]}) anchored {astr(after.anchor_e(nds[2]))}, "
                              f"the edge was {astr(ea)}"))
        if before.anch["a6"] and before.anch["a7"] and canonical:
            ea = before.anchor_e(l)
            if after.anchor_v(nds[0]) != ea:         # VertexAnchor::from(EdgeAnchor) keeps the code
                items.append(("anchor-vertex", f"new vertex anchored {astr(after.anchor_v(nds[0]))}, the cut edge was {astr(ea)}"))
    return items


def fmt_pt(p):
    return "none" if p is None else f"({p[0]},{p[1]})"


def fmt_tris(ts):
    return "[" + " ".join("<" + " ".join(fmt_pt(p) for p in t) + ">" for t in ts) + "]"


# ---------------------------------------------------------------------------------------------
# signatures of the listed findings (re-derived from the snapshots, never from the model)
# ---------------------------------------------------------------------------------------------

def extend_snap(line, k):
    """the snapshot after `add k`: k new free darts, undefined everywhere"""
    if k == 0:
        return line
    parts = line.split(" | ")
    n = int(parts[0][7:])
    out = [f"snap n={n + k}"]
    for p in parts[1:]:
        key = p.split(":", 1)[0]
        fill = "none" if key.startswith("a") else "0"
        out.append(p + (" " + fill) * k)
    return " | ".join(out)


D9_WEIGHTS = (Fr(1, 2), Fr(1, 4))


def toward(p, q, t):
    return (p[0] + (q[0] - p[0]) * t, p[1] + (q[1] - p[1]) * t)


def d9_pattern(before, after, op):
    """successful swap_edge whose topology is exactly the specified one, but the two corners opposite to the edge
    are pulled towards an end point of the swapped edge: C' = C + t(A - C), D' = D + t(B - D) with t = 1/2 (one
    average of the corner with the isolated end-point copy) or t = 1/4 (the corner's fan is open, so the averaged
    half is averaged once more with the untouched half); the vertex anchors of C and D are merged with those of
    A and B the same way; nothing else differs"""
    l = op["e"]
    r = before.b[2][l]
    b0l, b1l, b0r, b1r = before.b[0][l], before.b[1][l], before.b[0][r], before.b[1][r]
    if after.b[2] != before.b[2] or after.u != before.u or after.n != before.n:
        return False
    if after.face(l) is None or after.face(r) is None:
        return False
    if tuple(after.face(l)) != (l, b0r, b1l) or tuple(after.face(r)) != (r, b0l, b1r):
        return False
    skip = {l, r, b0l, b1l, b0r, b1r}
    for d in before.linked:
        if d not in skip and (after.b[0][d] != before.b[0][d] or after.b[1][d] != before.b[1][d]):
            return False
    A, B, C, D = before.org(l), before.org(r), before.org(b0l), before.org(b0r)
    vc, vd = before.vid(b0l), before.vid(b0r)
    C2, D2 = after.org(l), after.org(r)
    if C2 not in [toward(C, A, t) for t in D9_WEIGHTS] or D2 not in [toward(D, B, t) for t in D9_WEIGHTS]:
        return False
    for d in before.linked:
        want = C2 if (d == l or (d != r and before.vid(d) == vc)) else D2 if (d == r or before.vid(d) == vd) else before.org(d)
        if after.org(d) != want:
            return False
    if before.anch["a6"]:
        okc, ac = amerge(before.anchor_v(b0l), before.anchor_v(l))
        okd, ad = amerge(before.anchor_v(b0r), before.anchor_v(r))
        if not (okc and okd):
            return False
        for d in before.linked:
            want = ac if (d == l or (d != r and before.vid(d) == vc)) else ad if (d == r or before.vid(d) == vd) else before.anchor_v(d)
            if after.anchor_v(d) != want:
                return False
    return True


def d15a_pattern(before, after, op, items):
    """successful collapse_edge towards an end point (anchors choose `left`/`right`): a face next to a removed
    triangle receives that triangle's kept dart in place of its own removed one; its identifier (smallest dart)
    changes and the FaceAnchor stays under the old identifier: the face now shows whatever the slot of its new
    identifier held (nothing, or the anchor of the removed triangle)"""
    tgt, _ = collapse_target(before, op)
    if tgt not in ("left", "right") or not before.anch["a8"]:
        return False
    l = op["e"]
    r = before.b[2][l]
    tri_removed = set(before.face(l)) | (set(before.face(r)) if r else set())
    bad_faces = 0
    for d in after.linked:
        f = after.face(d)
        if f is None or d != min(f):
            continue
        olds = {before.fid(x) for x in f if x not in tri_removed}
        vals = {before.anch["a8"][x] for x in olds}
        if len(vals) != 1:
            return False
        if after.anchor_f(d) in vals:
            continue
        # the face lost its anchor: it must contain a migrated dart, have changed identifier, and show the stale slot
        if not (set(f) & tri_removed) or after.fid(d) in olds or after.anchor_f(d) != before.anch["a8"][after.fid(d)]:
            return False
        bad_faces += 1
    return bad_faces > 0 and bad_faces == len({x for t, x in items if t == "anchor-face"})


def collapse_expect(before, op, P):
    l = op["e"]
    r = before.b[2][l]
    va, vb = before.vid(l), before.vid(before.b[1][l])
    removed = set(before.face(l)) | (set(before.face(r)) if r else set())
    expect = Counter()
    for d0 in before.triangles():
        f = before.face(d0)
        if set(f) & removed:
            continue
        expect[canon_tri(tuple(P if before.vid(x) in (va, vb) else before.org(x) for x in f))] += 1
    return expect


def d15d_pattern(before, after, op):
    """successful collapse_edge to the `midpoint` (no anchors, or equal anchors) where an end point has an open fan
    (boundary vertex): the resulting vertex is A + t(B - A) with t = 1/4 or 3/4 instead of the midpoint (the open
    fan is split in two halves by the unsews; one half is averaged with the other end point, the result is averaged
    again with the other half); with that position every triangle is the specified one"""
    tgt, _ = collapse_target(before, op)
    if tgt != "mid":
        return False
    l = op["e"]
    A, B = before.org(l), before.org(before.b[1][l])
    va, vb = before.vid(l), before.vid(before.b[1][l])
    ps = {after.org(d) for d in before.linked if before.vid(d) in (va, vb) and not after.u[d] and after.face(d)}
    if len(ps) != 1:
        return False
    P = next(iter(ps))
    if P not in (toward(A, B, Fr(1, 4)), toward(A, B, Fr(3, 4))):
        return False

    if not (open_fan(before, va) or open_fan(before, vb)):
        return False
    return after.tri_multiset() == +collapse_expect(before, op, P)


def d15e_pattern(before, after, op):
    """successful collapse_edge towards an end point (anchors choose `left`/`right`) where, in an adjacent triangle,
    the side that should be merged away (d_ne of collapse_halfcell_to_base) lies on the boundary: the routine
    1-unsews the three darts of the triangle and then skips both the removal and the re-sewing: the call returns
    Ok, the three darts stay in use with null beta0/beta1 (one of them still 2-sewn), nothing is flagged for that
    triangle and the two end points are not merged"""
    tgt, _ = collapse_target(before, op)
    if tgt not in ("left", "right"):
        return False
    l = op["e"]
    r = before.b[2][l]
    b0, b1, b2 = before.b
    if tgt == "left":
        halves = [(l, b1[l])] + ([(r, b0[r])] if r else [])
    else:
        halves = [(l, b0[l])] + ([(r, b1[r])] if r else [])
    dangling = set()
    for (d_e, d_ne) in halves:
        if b2[d_ne] == 0:
            dangling |= set(before.face(d_e))
    if not dangling:
        return False
    bad = set(after.non_triangle_darts([x for x in before.free]))
    if bad != dangling:
        return False
    return all(after.b[0][x] == 0 and after.b[1][x] == 0 and not after.u[x] for x in dangling)


def open_fan(m, v):
    """vertex id v lies on the boundary: one of its darts, or the dart before one of them, has no beta2"""
    return any(m.b[2][d] == 0 or m.b[2][m.b[0][d]] == 0 for d in m.linked if m.vid(d) == v)


def d15f_pattern(before, after, op):
    """successful collapse_edge of an INTERIOR edge whose two end points both lie on the boundary (allowed by the
    statement's guard: no common neighbour besides the opposite corners): the mesh is pinched — the darts of the two end
    points end up in TWO vertex orbits carrying the same coordinates, so the number of vertices does not decrease;
    triangles, edges, faces, flags are the specified ones"""
    l = op["e"]
    r = before.b[2][l]
    if not r:
        return False
    va, vb = before.vid(l), before.vid(before.b[1][l])
    if not (open_fan(before, va) and open_fan(before, vb)):
        return False
    surv = [d for d in before.linked if before.vid(d) in (va, vb) and not after.u[d] and after.face(d)]
    orbits = {after.vid(d) for d in surv}
    pts = {after.org(d) for d in surv}
    v0, e0, f0 = before.counts()
    v1, e1, f1 = after.counts()
    return len(orbits) == 2 and len(pts) == 1 and (v1 - v0, e1 - e0, f1 - f0) == (0, -3, -2)


def pinch_checked_half_consistent(before, after, op, res):
    """in a pinched result, the triangles around the vertex orbit the kernel returned (and checked) have one orientation"""
    try:
        vid = int(res.split()[1])
    except Exception:
        return False
    signs = set()
    for d in after.linked:
        if after.vid(d) == vid and after.face(d):
            a2 = area2(tuple(after.org(x) for x in after.face(d)))
            signs.add(0 if a2 == 0 else (1 if a2 > 0 else -1))     # the kernel's test refuses a zero cross product
    return signs in ({1}, {-1})


def window_signatures(before, res, after, op, items, wfline="wf true true true"):
    """set of finding signatures explaining the failures of one call; 'unknown' when something is not explained"""
    tags = {t for t, _ in items}
    if not tags:
        return set()
    ok = res == "ok" or res.startswith("ok ")
    kind = op["kind"]
    sigs = set()
    try:
        if ok and kind == "swap" and tags <= {"triangles", "vertex-moved", "area", "anchor-vertex"} and d9_pattern(before, after, op):
            return {"swap-corner-averaged"}
        if ok and kind == "collapse":
            rest = set(tags)
            if rest == {"anchor-face"} and d15a_pattern(before, after, op, items):
                sigs.add("collapse-face-anchor-not-migrated")
                rest = set()
            elif rest == {"triangles"} and d15d_pattern(before, after, op):
                sigs.add("collapse-midpoint-weighted")
                rest = set()
            elif "counts" in rest and rest <= {"counts", "fan-orientation"} and d15f_pattern(before, after, op) \
                    and ("fan-orientation" not in rest or pinch_checked_half_consistent(before, after, op, res)):
                # the post-check only walks the orbit of the identifier it was given: the other half of a pinched vertex is
                # never examined, so an inverted triangle there is part of the same finding
                sigs.add("collapse-pinches-boundary")
                rest = set()
            elif "not-triangles" in rest and d15e_pattern(before, after, op):
                sigs.add("collapse-base-skips-boundary-side")
                rest = set()
            if not rest and sigs:
                return sigs
            return {"unknown"}
    except Exception:
        return {"unknown"}
    return {"unknown"}
