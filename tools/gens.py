"""Case generators (DESIGN.md §5.2): exhaustive small scope, structured random, malformed."""
import itertools
import random


# ---------------------------------------------------------------------------------------------
# exhaustive enumeration of well-formed 2-maps
# ---------------------------------------------------------------------------------------------

def partial_injections(dom):
    """all partial injections dom -> dom as dicts"""
    dom = list(dom)

    def rec(i, used, cur):
        if i == len(dom):
            yield dict(cur)
            return
        # unmapped
        yield from rec(i + 1, used, cur)
        for t in dom:
            if t not in used:
                cur.append((dom[i], t))
                used.add(t)
                yield from rec(i + 1, used, cur)
                used.discard(t)
                cur.pop()

    yield from rec(0, set(), [])


def matchings(dom):
    """all fixed-point-free partial involutions on dom as dicts"""
    dom = list(dom)
    if not dom:
        yield {}
        return
    a, rest = dom[0], dom[1:]
    for m in matchings(rest):
        yield m
    for k, b in enumerate(rest):
        rest2 = rest[:k] + rest[k + 1:]
        for m in matchings(rest2):
            mm = dict(m)
            mm[a] = b
            mm[b] = a
            yield mm


def wf_maps2(n, with_unused=True):
    """all WF 2-maps with darts 1..n: yields (b0, b1, b2, unused) lists of length n+1"""
    darts = list(range(1, n + 1))
    subsets = [()]
    if with_unused:
        subsets = [s for k in range(0, n + 1) for s in itertools.combinations(darts, k)]
    for un in subsets:
        used = [d for d in darts if d not in un]
        for b1m in partial_injections(used):
            b1 = [0] * (n + 1)
            b0 = [0] * (n + 1)
            for a, b in b1m.items():
                b1[a] = b
                b0[b] = a
            for b2m in matchings(used):
                b2 = [0] * (n + 1)
                for a, b in b2m.items():
                    b2[a] = b
                u = [1 if d in un else 0 for d in range(n + 1)]
                yield b0, b1, b2, u


def load_line(dim, n, mask, rows, unused):
    parts = [" ".join(map(str, r)) for r in rows] + [" ".join(map(str, unused))]
    return f"load {dim} {n} {mask} " + " ; ".join(parts)


def dy(rng, lo=-8, hi=8, den=4):
    """small dyadic rational token"""
    num = rng.randint(lo * den, hi * den)
    import math
    g = math.gcd(num, den)
    nn, dd = num // g, den // g
    return str(nn) if dd == 1 else f"{nn}/{dd}"


def value_lines(rng, n, mask, dim=2, pv=0.8, pa=0.6):
    """random defined/undefined pattern for vertices and attributes at every dart id"""
    out = []
    for d in range(1, n + 1):
        if rng.random() < pv:
            if dim == 2:
                out.append(f"wv {d} {dy(rng)} {dy(rng)}")
            else:
                out.append(f"wv {d} {dy(rng)} {dy(rng)} {dy(rng)}")
        for st in range(1, 6):
            if (mask >> (st - 1)) & 1 and rng.random() < pa:
                out.append(f"wa {st} {d} {100 * st + d}")
    return out


def ops2_all(n, in_use, free=None):
    """every core editing call of C01 with arguments among the in-use darts"""
    ops = []
    for l in in_use:
        for r in in_use:
            ops.append(f"link 1 {l} {r}")
            ops.append(f"sew 1 {l} {r}")
            if l != r:
                ops.append(f"link 2 {l} {r}")
                ops.append(f"sew 2 {l} {r}")
        ops.append(f"unlink 1 {l}")
        ops.append(f"unlink 2 {l}")
        ops.append(f"unsew 1 {l}")
        ops.append(f"unsew 2 {l}")
        ops.append(f"rm {l}")
        # `remove_free_dart_transac` has the precondition "the dart is free" (it performs no check)
        if free is None or l in free:
            ops.append(f"rmtx {l}")
    ops.append("ins")
    ops.append("add 1")
    ops.append("add 2")
    return ops


def random_op2(rng, n, in_use, force_p=0.3):
    """one random valid-argument editing op on a 2-map (in_use = list of in-use darts)"""
    if not in_use:
        return rng.choice(["ins", "add 1", "add 2"])
    k = rng.random()
    l, r = rng.choice(in_use), rng.choice(in_use)
    f = "f" if rng.random() < force_p else ""
    if k < 0.16:
        return f"{f}link 1 {l} {r}"
    if k < 0.30:
        if l == r:
            return f"{f}link 1 {l} {r}"
        return f"{f}link 2 {l} {r}"
    if k < 0.42:
        return f"{f}sew 1 {l} {r}"
    if k < 0.56:
        if l == r:
            return f"{f}sew 1 {l} {r}"
        return f"{f}sew 2 {l} {r}"
    if k < 0.64:
        return f"{f}unlink 1 {l}"
    if k < 0.72:
        return f"{f}unlink 2 {l}"
    if k < 0.80:
        return f"{f}unsew 1 {l}"
    if k < 0.88:
        return f"{f}unsew 2 {l}"
    if k < 0.92:
        return f"rm {l}"
    if k < 0.95:
        return "ins"
    if k < 0.98:
        return "add 1"
    return f"add {rng.randint(2, 4)}"
