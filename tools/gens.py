"""Case generators (DESIGN.md §5.2): exhaustive small scope, structured random, malformed."""
import itertools
import random


# ---------------------------------------------------------------------------------------------
# exhaustive enumeration of well-formed 2-maps
# ---------------------------------------------------------------------------------------------

def partial_injections(dom):
    """all partial injections dom -> dom as dicts"""
    dom = list(dom)

    def rec(i, used, cur):
        if i == len(dom):
            yield dict(cur)
            return
        # unmapped
        yield from rec(i + 1, used, cur)
        for t in dom:
            if t not in used:
                cur.append((dom[i], t))
                used.add(t)
                yield from rec(i + 1, used, cur)
                used.discard(t)
                cur.pop()

    yield from rec(0, set(), [])


def matchings(dom):
    """all fixed-point-free partial involutions on dom as dicts"""
    dom = list(dom)
    if not dom:
        yield {}
        return
    a, rest = dom[0], dom[1:]
    for m in matchings(rest):
        yield m
    for k, b in enumerate(rest):
        rest2 = rest[:k] + rest[k + 1:]
        for m in matchings(rest2):
            mm = dict(m)
            mm[a] = b
            mm[b] = a
            yield mm


def wf_maps2(n, with_unused=True):
    """all WF 2-maps with darts 1..n: yields (b0, b1, b2, unused) lists of length n+1"""
    darts = list(range(1, n + 1))
    subsets = [()]
    if with_unused:
        subsets = [s for k in range(0, n + 1) for s in itertools.combinations(darts, k)]
    for un in subsets:
        used = [d for d in darts if d not in un]
        for b1m in partial_injections(used):
            b1 = [0] * (n + 1)
            b0 = [0] * (n + 1)
            for a, b in b1m.items():
                b1[a] = b
                b0[b] = a
            for b2m in matchings(used):
                b2 = [0] * (n + 1)
                for a, b in b2m.items():
                    b2[a] = b
                u = [1 if d in un else 0 for d in range(n + 1)]
                yield b0, b1, b2, u


def load_line(dim, n, mask, rows, unused):
    parts = [" ".join(map(str, r)) for r in rows] + [" ".join(map(str, unused))]
    return f"load {dim} {n} {mask} " + " ; ".join(parts)


def dy(rng, lo=-8, hi=8, den=4):
    """small dyadic rational token; for den > 2^20 the value is k/den with |k| <= 32 (a tiny mesh)"""
    num = rng.randint(lo * den, hi * den) if den <= (1 << 20) else rng.randint(-32, 32)
    import math
    g = math.gcd(num, den)
    nn, dd = num // g, den // g
    return str(nn) if dd == 1 else f"{nn}/{dd}"


def value_lines(rng, n, mask, dim=2, pv=0.8, pa=0.6, den=4):
    """random defined/undefined pattern for vertices and attributes at every dart id; `den` = denominator of the
    dyadic coordinates (a large power of two gives a tiny mesh: lengths around 1/den)"""
    out = []
    for d in range(1, n + 1):
        if rng.random() < pv:
            if dim == 2:
                out.append(f"wv {d} {dy(rng, den=den)} {dy(rng, den=den)}")
            else:
                out.append(f"wv {d} {dy(rng, den=den)} {dy(rng, den=den)} {dy(rng, den=den)}")
        for st in range(1, 6):
            if (mask >> (st - 1)) & 1 and rng.random() < pa:
                out.append(f"wa {st} {d} {100 * st + d}")
    return out


def ops2_all(n, in_use, free=None):
    """every core editing call of C01 with arguments among the in-use darts"""
    ops = []
    for l in in_use:
        for r in in_use:
            ops.append(f"link 1 {l} {r}")
            ops.append(f"sew 1 {l} {r}")
            if l != r:
                ops.append(f"link 2 {l} {r}")
                ops.append(f"sew 2 {l} {r}")
        ops.append(f"unlink 1 {l}")
        ops.append(f"unlink 2 {l}")
        ops.append(f"unsew 1 {l}")
        ops.append(f"unsew 2 {l}")
        ops.append(f"rm {l}")
        # `remove_free_dart_transac` has the precondition "the dart is free" (it performs no check)
        if free is None or l in free:
            ops.append(f"rmtx {l}")
    ops.append("ins")
    ops.append("add 1")
    ops.append("add 2")
    return ops


def random_op2(rng, n, in_use, force_p=0.3):
    """one random valid-argument editing op on a 2-map (in_use = list of in-use darts)"""
    if not in_use:
        return rng.choice(["ins", "add 1", "add 2"])
    k = rng.random()
    l, r = rng.choice(in_use), rng.choice(in_use)
    f = "f" if rng.random() < force_p else ""
    if k < 0.16:
        return f"{f}link 1 {l} {r}"
    if k < 0.30:
        if l == r:
            return f"{f}link 1 {l} {r}"
        return f"{f}link 2 {l} {r}"
    if k < 0.42:
        return f"{f}sew 1 {l} {r}"
    if k < 0.56:
        if l == r:
            return f"{f}sew 1 {l} {r}"
        return f"{f}sew 2 {l} {r}"
    if k < 0.64:
        return f"{f}unlink 1 {l}"
    if k < 0.72:
        return f"{f}unlink 2 {l}"
    if k < 0.80:
        return f"{f}unsew 1 {l}"
    if k < 0.88:
        return f"{f}unsew 2 {l}"
    if k < 0.92:
        return f"rm {l}"
    if k < 0.95:
        return "ins"
    if k < 0.98:
        return "add 1"
    return f"add {rng.randint(2, 4)}"


# ---------------------------------------------------------------------------------------------
# 3-D maps (CMap3): faces glued by 2-/3-links, exhaustive small maps, polyhedra
# ---------------------------------------------------------------------------------------------

OPS3_LINK = ("link", "sew")
OPS3_UNLINK = ("unlink", "unsew")


def face_shapes(max_sides=4):
    """(sides, closed) for every face shape: closed polygons (1 side = a β1 self-loop) and open chains"""
    return [(k, c) for k in range(1, max_sides + 1) for c in (True, False)]


def faces3_rows(shapes):
    """β rows of the 3-map made of the given separate faces (list of (sides, closed)), darts numbered
    consecutively.  returns (n, [b0, b1, b2, b3], faces) with faces = [(darts, closed)]"""
    n = sum(k for k, _ in shapes)
    b0 = [0] * (n + 1)
    b1 = [0] * (n + 1)
    faces = []
    d = 1
    for k, closed in shapes:
        ds = list(range(d, d + k))
        for i in range(k - 1):
            b1[ds[i]] = ds[i + 1]
            b0[ds[i + 1]] = ds[i]
        if closed:
            b1[ds[-1]] = ds[0]
            b0[ds[0]] = ds[-1]
        faces.append((ds, closed))
        d += k
    return n, [b0, b1, [0] * (n + 1), [0] * (n + 1)], faces


def faces3_maps(max_faces=3, max_sides=4):
    """all ways to build <= max_faces faces with <= max_sides sides by 1-links, closed and open"""
    sh = face_shapes(max_sides)
    for nf in range(1, max_faces + 1):
        for shapes in itertools.product(sh, repeat=nf):
            yield faces3_rows(list(shapes))


def wf_maps3(n, with_unused=False):
    """all 3-maps with darts 1..n satisfying WF of Model/WF.lean with nb = 4 (β1 any partial injection,
    β2 and β3 any fixed-point-free partial involutions, independently — the mirror condition is *not*
    part of WF): yields (b0, b1, b2, b3, unused)"""
    darts = list(range(1, n + 1))
    subsets = [()]
    if with_unused:
        subsets = [s for k in range(0, n + 1) for s in itertools.combinations(darts, k)]
    for un in subsets:
        used = [d for d in darts if d not in un]
        for b1m in partial_injections(used):
            b1 = [0] * (n + 1)
            b0 = [0] * (n + 1)
            for a, b in b1m.items():
                b1[a] = b
                b0[b] = a
            for b2m in matchings(used):
                b2 = [0] * (n + 1)
                for a, b in b2m.items():
                    b2[a] = b
                for b3m in matchings(used):
                    b3 = [0] * (n + 1)
                    for a, b in b3m.items():
                        b3[a] = b
                    u = [1 if d in un else 0 for d in range(n + 1)]
                    yield b0, b1, b2, b3, u


def ops3_all(darts, dims=(1, 2, 3), force=False, extra=True, distinct=False):
    """every link/unlink/sew/unsew of every dimension with every argument pair among `darts`
    (`distinct`: skip l == r for 2- and 3-links/sews, the guard of C02)"""
    f = "f" if force else ""
    ops = []
    for i in dims:
        for l in darts:
            for r in darts:
                if distinct and i != 1 and l == r:
                    continue
                ops.append(f"{f}link {i} {l} {r}")
                ops.append(f"{f}sew {i} {l} {r}")
            ops.append(f"{f}unlink {i} {l}")
            ops.append(f"{f}unsew {i} {l}")
    if extra:
        for l in darts:
            ops.append(f"rm {l}")
        ops += ["ins", "add 1"]
    return ops


def random_op3(rng, in_use, force_p=0.3, dims=(1, 2, 3), weights=None, alloc=True):
    """one random editing op on a 3-map with arguments among the in-use darts"""
    if not in_use:
        return rng.choice(["ins", "add 1", "add 2"])
    l, r = rng.choice(in_use), rng.choice(in_use)
    f = "f" if rng.random() < force_p else ""
    i = rng.choice(dims)
    k = rng.random()
    if alloc and k > 0.95:
        return rng.choice([f"rm {l}", "ins", "add 1", f"add {rng.randint(2, 3)}"])
    kind = rng.choices(["link", "sew", "unlink", "unsew"], weights or [3, 4, 2, 3])[0]
    if kind in OPS3_LINK:
        if i != 1 and l == r:
            i = 1
        return f"{f}{kind} {i} {l} {r}"
    return f"{f}{kind} {i} {l}"


OBS3_POLICIES = ("v", "vl", "e", "f", "fl", "vol", "voll", "c10", "c01", "c23", "c3", "c0123")


def observe3(darts, nt=False, policies=OBS3_POLICIES):
    """observation lines of C03 on a 3-map: all ids and orbits of the given darts, all iterators"""
    s = "nt" if nt else ""
    out = []
    for d in darts:
        out += [f"vid{s} {d}", f"eid{s} {d}", f"fid{s} {d}", f"volid{s} {d}"]
        for p in policies:
            out.append(f"orbit{s} {p} {d}")
    out += ["iterv", "itere", "iterf", "itervol"]
    return out


def faces3_cases(rng, max_faces=2, max_sides=4, mask=31, frac=1.0, per_map=None, with_null=False,
                 pre_ops=0, observe=False, distinct=False, snap_before=False):
    """single-op cases over the glued-faces family: for every map of `faces3_maps` and every
    link/unlink/sew/unsew (all dimensions, all argument pairs; `per_map` = random sample size),
    optionally after `pre_ops` random ops (which create 2-/3-links).  yields (name, lines)."""
    cid = 0
    for n, rows, faces in faces3_maps(max_faces, max_sides):
        if frac < 1.0 and rng.random() > frac:
            continue
        darts = list(range(1, n + 1))
        args = ([0] if with_null else []) + darts + ([n + 1] if with_null else [])
        load = load_line(3, n, mask, rows, [0] * (n + 1))
        ops = ops3_all(args, force=False, extra=False, distinct=distinct) \
            + ops3_all(args, force=True, extra=False, distinct=distinct)
        if per_map is not None and per_map < len(ops):
            ops = rng.sample(ops, per_map)
        vals = value_lines(rng, n, mask, dim=3, pv=rng.choice([1.0, 0.6, 0.0]), pa=rng.choice([1.0, 0.5]))
        pre = [random_op3(rng, darts, alloc=False, weights=[4, 4, 1, 1]) for _ in range(pre_ops)]
        for op in ops:
            cid += 1
            lines = [load] + vals + pre + (["snap"] if snap_before else []) + [op, "snap", "wf"]
            if observe:
                lines += observe3(darts)
            yield f"f3-{cid}", lines


# --- polyhedra ---------------------------------------------------------------------------------
# faces are lists of vertex indices, oriented outward; every edge appears once in each direction

CUBE = ([(0, 0, 0), (1, 0, 0), (1, 1, 0), (0, 1, 0), (0, 0, 1), (1, 0, 1), (1, 1, 1), (0, 1, 1)],
        [[0, 3, 2, 1], [4, 5, 6, 7], [0, 1, 5, 4], [1, 2, 6, 5], [2, 3, 7, 6], [3, 0, 4, 7]])
TETRA = ([(0, 0, 0), (1, 0, 0), (0, 1, 0), (0, 0, 1)],
         [[0, 2, 1], [0, 1, 3], [1, 2, 3], [2, 0, 3]])
PRISM = ([(0, 0, 0), (1, 0, 0), (0, 1, 0), (0, 0, 1), (1, 0, 1), (0, 1, 1)],
         [[0, 2, 1], [3, 4, 5], [0, 1, 4, 3], [1, 2, 5, 4], [2, 0, 3, 5]])
PYRAMID = ([(0, 0, 0), (1, 0, 0), (1, 1, 0), (0, 1, 0), (1 / 2, 1 / 2, 1)],
           [[0, 3, 2, 1], [0, 1, 4], [1, 2, 4], [2, 3, 4], [3, 0, 4]])


def poly_translate(poly, v):
    pts, faces = poly
    return [tuple(p[i] + v[i] for i in range(3)) for p in pts], faces


def poly_mirror(poly, axis=0, plane=0):
    """reflect through the plane `coordinate[axis] = plane` (faces are reversed to stay outward)"""
    pts, faces = poly
    npts = []
    for p in pts:
        q = list(p)
        q[axis] = 2 * plane - q[axis]
        npts.append(tuple(q))
    return npts, [list(reversed(f)) for f in faces]


def _tok(x):
    from fractions import Fraction
    q = Fraction(x).limit_denominator(1 << 20)
    return str(q.numerator) if q.denominator == 1 else f"{q.numerator}/{q.denominator}"


class Poly3:
    """protocol lines building one polyhedron on darts first..first+ndarts-1 of a 3-map.
    `dart[(u, v)]` = the dart of the oriented edge u->v; `face_darts[k]` = darts of face k;
    `origin[d]` = coordinates of the vertex dart d starts from."""

    def __init__(self, poly, first=1):
        pts, faces = poly
        self.pts, self.faces, self.first = pts, faces, first
        self.dart, self.face_darts, self.origin = {}, [], {}
        d = first
        for f in faces:
            ds = []
            for i, u in enumerate(f):
                v = f[(i + 1) % len(f)]
                assert (u, v) not in self.dart, "edge used twice in the same direction"
                self.dart[(u, v)] = d
                self.origin[d] = pts[u]
                ds.append(d)
                d += 1
            self.face_darts.append(ds)
        for (u, v) in self.dart:
            assert (v, u) in self.dart, "open surface"
        self.ndarts = d - first
        self.darts = list(range(first, d))

    def lines(self, values=True, sew=True, force=True, link1="link", attrs=()):
        """1-link the faces, write one point per dart (its origin) and the given attribute lines,
        then 2-sew (or 2-link) the faces"""
        f = "f" if force else ""
        out = []
        for ds in self.face_darts:
            for i, a in enumerate(ds):
                out.append(f"{f}{link1} 1 {a} {ds[(i + 1) % len(ds)]}")
        if values:
            for d in self.darts:
                out.append("wv %d %s %s %s" % ((d,) + tuple(_tok(c) for c in self.origin[d])))
        out += list(attrs)
        op2 = "sew" if sew else "link"
        for (u, v), a in self.dart.items():
            if u < v:
                out.append(f"{f}{op2} 2 {a} {self.dart[(v, u)]}")
        return out


def glue_pairs(pa, pb):
    """dart pairs (a, b) such that 3-sewing a (in polyhedron pa) with b (in pb) identifies two
    geometrically coinciding, oppositely oriented faces"""
    out = []
    for fa in pa.face_darts:
        ca = [pa.origin[d] for d in fa]
        for fb in pb.face_darts:
            if len(fb) != len(fa) or set(pb.origin[d] for d in fb) != set(ca):
                continue
            k = len(fa)
            for a_i, a in enumerate(fa):
                for b_i, b in enumerate(fb):
                    # a: u->v, b must be v->u, and walking β1 from a / β0 from b must stay matched
                    ok = all(pa.origin[fa[(a_i + s) % k]] == pb.origin[fb[(b_i + 1 - s) % k]] for s in range(k))
                    if ok:
                        out.append((a, b))
    return out


def two_cells_lines(rng, pa_poly, pb_poly, mask=31, values=True, sew=True, force=True, glue="sew",
                    pa=0.5, full_default=True):
    """`new 3 n mask` + two polyhedra + one 3-sew/3-link gluing them on a coinciding face (if any).
    returns (lines, Poly3 a, Poly3 b, glue pair or None)"""
    a = Poly3(pa_poly, 1)
    b = Poly3(pb_poly, 1 + a.ndarts)
    n = a.ndarts + b.ndarts

    def attr_lines(p):
        # storages with the default (failing) laws get a value on every dart so that the sews succeed
        out = []
        for d in p.darts:
            for st in range(1, 6):
                if (mask >> (st - 1)) & 1 and (rng.random() < pa or (full_default and st in (2, 5))):
                    out.append(f"wa {st} {d} {100 * st + d}")
        return out

    lines = [f"new 3 {n} {mask}"] + a.lines(values, sew, force, attrs=attr_lines(a)) \
        + b.lines(values, sew, force, attrs=attr_lines(b))
    pairs = glue_pairs(a, b)
    pair = rng.choice(pairs) if pairs else None
    if pair:
        lines.append(f"{'f' if force else ''}{glue} 3 {pair[0]} {pair[1]}")
    return lines, a, b, pair


def cell_pairs():
    """(name, polyhedron A, polyhedron B) sharing exactly one face geometrically"""
    return [
        ("cube+cube", CUBE, poly_translate(CUBE, (1, 0, 0))),
        ("tet+tet", TETRA, poly_mirror(TETRA, 2, 0)),
        ("prism+prism", PRISM, poly_translate(PRISM, (0, 0, 1))),
        ("prism+tet", PRISM, poly_mirror(TETRA, 2, 0)),
        ("cube+pyramid", CUBE, poly_translate(PYRAMID, (0, 0, 1))),
        ("cube+prism", CUBE, poly_mirror(PRISM, 1, 0)),
        ("pyramid+pyramid", PYRAMID, poly_mirror(PYRAMID, 2, 0)),
    ]


def parse_snap(line):
    """`snap ...` output line -> dict: 'n', 'b0'..'b3' (lists of int), 'u', and raw 'a<k>' token lists"""
    parts = [p.strip() for p in line.split("|")]
    out = {"n": int(parts[0].split("=")[1])}
    for p in parts[1:]:
        k, _, v = p.partition(":")
        toks = v.split()
        out[k.strip()] = [int(t) for t in toks] if k.strip()[0] in "bu" else toks
    return out


def face_shape3(snap, d, right=False):
    """shape of the face of dart d walked as `three_link` does (β1 forward on the left side, β0 on the
    right side): ('closed', sides) or ('open', sides, darts_ahead)"""
    fwd, bwd = (snap["b0"], snap["b1"]) if right else (snap["b1"], snap["b0"])
    n = snap["n"]
    ahead, x = 0, fwd[d] if d < n else 0
    while x != 0 and x != d and ahead <= n:
        ahead += 1
        x = fwd[x] if x < n else 0
    if x == d and d != 0:
        return ("closed", ahead + 1)
    behind, x = 0, bwd[d] if d < n else 0
    while x != 0 and behind <= n:
        behind += 1
        x = bwd[x] if x < n else 0
    return ("open", ahead + behind + 1, ahead)


def mirror3(b1, b3):
    """the Mirror predicate of Model/WF.lean on β rows given as lists"""
    n = len(b1)
    for d in range(n):
        if b1[d] != 0 and b3[d] != 0 and b3[b1[d]] != 0 and b1[b3[b1[d]]] != b3[d]:
            return False
    return True
