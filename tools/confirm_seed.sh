#!/bin/bash
# usage: confirm_seed.sh <worktree> <k>    e.g. /tmp/seed_C01 1
# Confirms a seeded change in a scratch worktree: patch applies, builds, existing tests pass with it,
# demo fails with it and passes without it.  Prints one RESULT line.
W=$1; K=$2
O=$W/out/$K
export CARGO_TARGET_DIR=$W/target CARGO_NET_OFFLINE=true
cd $W || exit 2
git checkout -q -- . ; git clean -fdq -e out -e target
head -3 $O/demo.rs | grep -o 'place at [^ ;]*' | head -1 > /tmp/.place_$$ 
PLACE=$(sed 's/place at //' /tmp/.place_$$); rm -f /tmp/.place_$$
if [ -z "$PLACE" ]; then echo "RESULT $W $K no-place-line"; exit 1; fi
CRATE=$(echo $PLACE | cut -d/ -f1); TEST=$(basename $PLACE .rs)
mkdir -p $(dirname $PLACE); cp $O/demo.rs $PLACE
# pristine: demo must pass
cargo test -q -p $CRATE --test $TEST --offline > $O/confirm_demo_pristine.log 2>&1; P=$?
git apply $O/patch.diff || { echo "RESULT $W $K patch-does-not-apply"; exit 1; }
cargo test -q -p $CRATE --test $TEST --offline > $O/confirm_demo_patched.log 2>&1; Q=$?
rm -f $PLACE
cargo test -q -p honeycomb-core -p honeycomb-kernels --offline > $O/confirm_suite_patched.log 2>&1; S=$?
git checkout -q -- . ; git clean -fdq -e out -e target
echo "RESULT $W $K demo_pristine_rc=$P demo_patched_rc=$Q suite_patched_rc=$S  ($( [ $P = 0 ] && [ $Q != 0 ] && [ $S = 0 ] && echo CONFIRMED || echo REJECTED ))"
