#!/bin/bash
# run before every commit in /verif: the proof modules of all claimed checks build from the files on disk, the manifest
# and the evidence files validate against their schemas
cd /verif || exit 2
python3 tools/mkmanifest.py || exit 1
python3 tools/setup.py --lean-only | tail -3 || exit 1
[ "${PIPESTATUS[0]}" = 0 ] || exit 1
python3-vt - <<'P' || exit 1
import json, glob, jsonschema, sys
m = json.load(open('/verif/MANIFEST.json'))
jsonschema.validate(m, json.load(open('/root/.vp/MANIFEST.schema.json')))
es = json.load(open('/root/.vp/EVIDENCE.schema.json'))
bad = 0
for c in m['checks']:
    f = c['evidence_file']
    try:
        e = json.load(open(f)); jsonschema.validate(e, es)
        cov = e['coverage']
        v = e.get('violations'); nv = v if isinstance(v, int) else len(v or [])
        if cov.get('obligations', 0) == 0 or cov.get('obligations') != cov.get('discharged') or nv:
            print('gate: suspicious evidence', f, cov.get('obligations'), cov.get('discharged'), nv); bad += 1
    except Exception as x:
        print('gate: invalid evidence', f, str(x)[:200]); bad += 1
print('gate: manifest ok,', len(m['checks']), 'checks,', bad, 'evidence problems')
sys.exit(1 if bad else 0)
P
echo "gate: OK"
