#!/usr/bin/env python3
"""replay.py <replay.json> — re-run a recorded violation on the current /repo tree.

Rebuilds the harness against /repo's working tree and the model driver, feeds the recorded input lines to both, prints the
first line on which (a) implementation and model differ now, (b) the implementation differs from the recorded run, and the
recorded oracle verdict.  For C07 replays (a witness schedule) the scenario is replayed on the schedule explorer.
Exit 1 when the recorded failure still shows (implementation/model differ, or the implementation output is unchanged and an
oracle failure was recorded), 0 otherwise.
"""
import json
import os
import subprocess
import sys

sys.path.insert(0, os.path.dirname(os.path.abspath(__file__)))
import hv


def main():
    if len(sys.argv) != 2:
        print(__doc__)
        return 2
    rp = json.load(open(sys.argv[1]))
    print(f"property {rp.get('property')}  case {rp.get('case')}  kind {rp.get('kind')}")
    print("what:", rp.get("what"))
    if rp.get("oracle_failure"):
        print("recorded oracle failure:", rp["oracle_failure"])
    if rp.get("theorem_or_correspondence"):
        print("broken obligation:", rp["theorem_or_correspondence"])
    ok, out = hv.cargo_build()
    if not ok:
        print("harness does not build against /repo:\n" + out[-2000:])
        return 1
    ok, out = hv.lake_build(["hcmodel"])
    if not ok:
        print("model driver does not build:\n" + out[-2000:])
        return 1
    still = False
    if rp.get("scenario_lines"):
        sched = os.path.join(hv.BUILD, "sched-target", "release", "hcsched")
        subprocess.run(["cargo", "build", "--release", "--offline"], cwd=os.path.join(hv.VERIF, "harness-sched"),
                       stdout=subprocess.DEVNULL, stderr=subprocess.DEVNULL, env=hv.ENV)
        if os.path.exists(sched):
            p = subprocess.run([sched], input="\n".join(rp["scenario_lines"]) + "\n", stdout=subprocess.PIPE,
                               stderr=subprocess.STDOUT, text=True, timeout=600)
            print("--- schedule explorer on the witness schedule ---")
            print(p.stdout[-6000:])
            for bad in ("panic", "deadlock", "hang", "replay-mismatch"):
                if f'"status": "{bad}' in p.stdout or f"status={bad}" in p.stdout:
                    still = True
    lines = rp.get("input_lines") or []
    if lines:
        text = "\n".join(lines) + "\n"
        _, oi = hv.run_bin(hv.HCIMPL, text)
        _, om = hv.run_bin(hv.HCMODEL, text)
        oi = [l for l in oi if l != ""]
        om = [l for l in om if l != ""]
        rec = rp.get("impl_output") or []
        print(f"--- {len(lines)} input lines; implementation {len(oi)} output lines, model {len(om)} ---")
        d = hv.first_diff(oi, om)
        if "model_output" not in rp:
            print("(implementation-only stream: the recorded run has no model output; the model is not compared)")
        elif d < max(len(oi), len(om)):
            still = True
            print(f"implementation and model DIFFER at output line {d}:")
            print("  input :", lines[d] if d < len(lines) else "<past end>")
            print("  impl  :", oi[d] if d < len(oi) else "<missing>")
            print("  model :", om[d] if d < len(om) else "<missing>")
        else:
            print("implementation and model agree on every line")
        d2 = hv.first_diff(oi, rec) if rec else None
        if rec and d2 >= max(len(oi), len(rec)):
            print("implementation output is identical to the recorded run")
            if rp.get("oracle_failure"):
                still = True
        elif rec:
            print(f"implementation output differs from the recorded run at line {d2}:")
            print("  now     :", oi[d2] if d2 < len(oi) else "<missing>")
            print("  recorded:", rec[d2] if d2 < len(rec) else "<missing>")
        if os.environ.get("REPLAY_VERBOSE"):
            for k, l in enumerate(lines):
                print(f"{k:4d} > {l}\n     i {oi[k] if k < len(oi) else ''}\n     m {om[k] if k < len(om) else ''}")
    print("RESULT:", "the recorded failure still shows" if still else "the recorded failure does not show on the current tree")
    return 1 if still else 0


if __name__ == "__main__":
    sys.exit(main())
