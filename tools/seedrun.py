#!/usr/bin/env python3
"""seedrun.py <seed-id> <pid> [<pid>...]: apply seeded/<seed-id>/patch.diff to /repo, run the quick checks of the
given properties, undo the patch, record which checks raised a VIOLATION in seeded/<seed-id>/detection.json."""
import json, os, subprocess, sys, time
seed, pids = sys.argv[1], sys.argv[2:]
d = f"/verif/seeded/{seed}"
# one seeded run at a time (several people use this script): exclusive lock, then wait for a clean /repo
import fcntl
os.makedirs("/verif/.build", exist_ok=True)
_lock = open("/verif/.build/seedrun.lock", "w")
fcntl.flock(_lock, fcntl.LOCK_EX)
for _ in range(120):
    st = subprocess.run(["git", "-C", "/repo", "status", "--porcelain"], capture_output=True, text=True).stdout.strip()
    if not st:
        break
    time.sleep(10)
if st:
    print("refusing: /repo working tree is not clean:\n" + st); sys.exit(2)
subprocess.run(["git", "-C", "/repo", "apply", os.path.join(d, "patch.diff")], check=True)
res = {}
import shutil
import signal
signal.signal(signal.SIGTERM, lambda *a: sys.exit(143))   # a killed run still restores /repo (finally below)
try:
    for pid in pids:
        t0 = time.time()
        ev = f"/verif/evidence/{pid}.json"
        if os.path.exists(ev):
            shutil.copy(ev, ev + ".keep")   # the evidence of the UNCHANGED tree must survive a seeded run
        p = subprocess.run(["python3", "tools/check.py", pid, "--tier", "quick"], cwd="/verif", capture_output=True, text=True)
        lines = [l for l in p.stdout.split("\n") if l.startswith(("VIOLATION", "KNOWN-FINDING", "OK"))]
        res[pid] = {"rc": p.returncode, "lines": lines, "stderr_tail": p.stderr[-600:], "wall_s": round(time.time() - t0, 1)}
        print(pid, p.returncode, lines, p.stderr[-300:].replace("\n", " | "))
        if os.path.exists(ev + ".keep"):
            shutil.move(ev + ".keep", ev)
finally:
    subprocess.run(["git", "-C", "/repo", "checkout", "--", "."], check=True)
    # the generated parts of the model must describe the restored sources again
    subprocess.run(["python3", "tools/gen_lean.py", "grid", "anchors", "orbits", "cores", "attrs", "links3", "sews2", "sews3", "links3c", "alloc", "sews3c", "dispatch3", "dispatch2", "vins", "geom", "remesh", "vinsn", "collapse", "fan", "earclip", "griddesc", "gcross", "pre"], cwd="/verif", capture_output=True)
path = os.path.join(d, "detection.json")
old = json.load(open(path)) if os.path.exists(path) else {}
old.update(res)
json.dump(old, open(path, "w"), indent=1)
