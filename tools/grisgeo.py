"""Geometry generators and the independent mesh analysis shared by the C16 / C17 oracles.

Everything here is computed with exact `Fraction`s of the f64 values printed by the harness
(`fmt::rat`); tolerances are explicit (`TOL`) and only used where the property is geometric
(positions of crossings, areas), never for signs of areas or for topology.
"""
import math
from fractions import Fraction as Fr

TOL = Fr(1, 10 ** 9)


def rs(q):
    q = Fr(q)
    return str(q.numerator) if q.denominator == 1 else f"{q.numerator}/{q.denominator}"


# ---------------------------------------------------------------------------------------------
# geometry: loops of exact points
# ---------------------------------------------------------------------------------------------

def cross(o, a, b):
    return (a[0] - o[0]) * (b[1] - o[1]) - (a[1] - o[1]) * (b[0] - o[0])


def area2(pts):
    """twice the signed area"""
    n = len(pts)
    return sum(pts[i][0] * pts[(i + 1) % n][1] - pts[(i + 1) % n][0] * pts[i][1] for i in range(n))


def seg_intersect(p, q, r, s):
    """closed segments pq and rs share a point"""
    d1, d2 = cross(p, q, r), cross(p, q, s)
    d3, d4 = cross(r, s, p), cross(r, s, q)
    if ((d1 > 0 and d2 < 0) or (d1 < 0 and d2 > 0)) and ((d3 > 0 and d4 < 0) or (d3 < 0 and d4 > 0)):
        return True

    def on(a, b, c):
        return cross(a, b, c) == 0 and min(a[0], b[0]) <= c[0] <= max(a[0], b[0]) and min(a[1], b[1]) <= c[1] <= max(a[1], b[1])
    return on(p, q, r) or on(p, q, s) or on(r, s, p) or on(r, s, q)


def loops_simple(loops):
    """every loop is a simple polygon (no repeated vertex, no collinear corner, no two segments meeting
    except consecutive ones at their common end) and distinct loops are disjoint"""
    segs = []
    for li, lp in enumerate(loops):
        n = len(lp)
        if n < 3 or len(set(lp)) != n:
            return False
        for i in range(n):
            if cross(lp[i - 1], lp[i], lp[(i + 1) % n]) == 0:
                return False
            segs.append((li, i, n, lp[i], lp[(i + 1) % n]))
    for a in range(len(segs)):
        la, ia, na, p, q = segs[a]
        for b in range(a + 1, len(segs)):
            lb, ib, nb, r, s = segs[b]
            if la == lb and ((ia + 1) % na == ib or (ib + 1) % nb == ia):
                continue
            if seg_intersect(p, q, r, s):
                return False
    return True


def point_in_loops(pt, loops):
    """even-odd rule; `pt` must not lie on a loop (returns None if it does)"""
    x, y = pt
    inside = False
    for lp in loops:
        n = len(lp)
        for i in range(n):
            a, b = lp[i], lp[(i + 1) % n]
            if cross(a, b, pt) == 0 and min(a[0], b[0]) <= x <= max(a[0], b[0]) and min(a[1], b[1]) <= y <= max(a[1], b[1]):
                return None
            if (a[1] > y) != (b[1] > y):
                xi = a[0] + (y - a[1]) * (b[0] - a[0]) / (b[1] - a[1])
                if xi > x:
                    inside = not inside
    return inside


class Geometry:
    """loops: list of lists of points (direction = list order); poi: set of (loop, index);
    interior_left: the even-odd interior lies on the left of every loop (outer loops ccw)."""

    def __init__(self, loops, poi, cell, kind=""):
        # the exact values of the f64 numbers the harness will hand to the kernel
        self.loops = [[(Fr(float(x)), Fr(float(y))) for x, y in lp] for lp in loops]
        self.poi = sorted(poi)
        self.cell = (Fr(cell[0]), Fr(cell[1]))
        self.kind = kind
        self.verts = [p for lp in self.loops for p in lp]
        self.off = []
        k = 0
        for lp in self.loops:
            self.off.append(k)
            k += len(lp)
        self.segs = []
        for li, lp in enumerate(self.loops):
            n = len(lp)
            for i in range(n):
                self.segs.append((self.off[li] + i, self.off[li] + (i + 1) % n))
        self.extra_segs = []       # mis-oriented variants append / edit here

    def vid(self, li, i):
        return self.off[li] + i

    def poi_ids(self):
        return [self.vid(li, i) for li, i in self.poi]

    def all_poi(self):
        return len(self.poi) == len(self.verts)

    def without(self, drop):
        """the same geometry on the same grid with the loops `drop` removed"""
        keep = [li for li in range(len(self.loops)) if li not in drop]
        ren = {li: k for k, li in enumerate(keep)}
        g = Geometry([self.loops[li] for li in keep], [(ren[li], i) for li, i in self.poi if li in ren], self.cell, self.kind)
        g.fixed_grid = self.grid()
        for a in ("interior_left", "poi_mode"):
            if hasattr(self, a):
                setattr(g, a, getattr(self, a))
        return g

    # the grid `compute_overlapping_grid` chooses when no shift is needed
    def grid(self):
        if getattr(self, "fixed_grid", None):
            return self.fixed_grid
        cx, cy = self.cell
        xs = [p[0] for p in self.verts]
        ys = [p[1] for p in self.verts]
        ox = min(xs) - cx * Fr(3, 2)
        oy = min(ys) - cy * Fr(3, 2)
        nx = math.ceil((max(xs) - ox) / cx) + 1
        ny = math.ceil((max(ys) - oy) / cy) + 1
        return ox, oy, nx, ny

    def general_position(self, margin=Fr(0)):
        """no vertex on a grid line, no segment through a grid corner (within `margin`)"""
        cx, cy = self.cell
        ox, oy, nx, ny = self.grid()
        for (x, y) in self.verts:
            fx = (x - ox) / cx
            fy = (y - oy) / cy
            if abs(fx - round(fx)) * cx <= margin or abs(fy - round(fy)) * cy <= margin:
                return False
        for (a, b) in self.segs:
            p, q = self.verts[a], self.verts[b]
            i0 = math.floor((min(p[0], q[0]) - ox) / cx)
            i1 = math.ceil((max(p[0], q[0]) - ox) / cx)
            for i in range(i0, i1 + 1):
                gx = ox + i * cx
                if (p[0] - gx) * (q[0] - gx) >= 0:
                    continue
                t = (gx - p[0]) / (q[0] - p[0])
                yy = p[1] + t * (q[1] - p[1])
                fy = (yy - oy) / cy
                if abs(fy - round(fy)) * cy <= margin:
                    return False
        return True

    def crossings(self):
        """every crossing of a segment with a grid line: list of (seg index, t, point)"""
        cx, cy = self.cell
        ox, oy, nx, ny = self.grid()
        out = []
        for k, (a, b) in enumerate(self.segs):
            p, q = self.verts[a], self.verts[b]
            for i in range(nx + 1):
                gx = ox + i * cx
                if (p[0] - gx) * (q[0] - gx) < 0:
                    t = (gx - p[0]) / (q[0] - p[0])
                    out.append((k, t, (gx, p[1] + t * (q[1] - p[1]))))
            for j in range(ny + 1):
                gy = oy + j * cy
                if (p[1] - gy) * (q[1] - gy) < 0:
                    t = (gy - p[1]) / (q[1] - p[1])
                    out.append((k, t, (p[0] + t * (q[0] - p[0]), gy)))
        return out

    def captured_labeled(self):
        """per loop: the captured points in loop order with labels ('poi', v) / ('x', i) / ('y', j)
        (crossing of the i-th vertical / j-th horizontal grid line)"""
        cx, cy = self.cell
        ox, oy, nx, ny = self.grid()
        poi = set(self.poi_ids())
        res = []
        k = 0
        for li, lp in enumerate(self.loops):
            pts = []
            for i in range(len(lp)):
                v = self.vid(li, i)
                if v in poi:
                    pts.append((lp[i], ("poi", v)))
                p, q = self.verts[self.segs[k][0]], self.verts[self.segs[k][1]]
                here = []
                for a in range(nx + 1):
                    gx = ox + a * cx
                    if (p[0] - gx) * (q[0] - gx) < 0:
                        t = (gx - p[0]) / (q[0] - p[0])
                        here.append((t, (gx, p[1] + t * (q[1] - p[1])), ("x", a)))
                for b in range(ny + 1):
                    gy = oy + b * cy
                    if (p[1] - gy) * (q[1] - gy) < 0:
                        t = (gy - p[1]) / (q[1] - p[1])
                        here.append((t, (p[0] + t * (q[0] - p[0]), gy), ("y", b)))
                pts += [(pt, lab) for _, pt, lab in sorted(here)]
                k += 1
            res.append(pts)
        return res

    def flat_chords(self):
        """captured chords that lie on a grid line: two consecutive crossings of the same grid line with no
        point of interest in between (the boundary enters and leaves a cell through the same cell side, all
        corners in between being regular).  Returns (n_flat, n_flat_crossed): `crossed` = some other crossing
        of the boundary lies strictly between the two ends on that line."""
        allc = {}
        lab = self.captured_labeled()
        for lp in lab:
            for pt, l in lp:
                if l[0] != "poi":
                    allc.setdefault(l, []).append(pt)
        flat = crossed = 0
        self.flat_crossed_segs = []
        for lp in lab:
            n = len(lp)
            if n < 2:
                continue
            for i in range(n):
                (p, l1), (q, l2) = lp[i], lp[(i + 1) % n]
                if l1[0] == "poi" or l1 != l2 or (n == 2 and i == 1):
                    continue
                flat += 1
                ax = 1 if l1[0] == "x" else 0       # coordinate that varies along the line
                lo, hi = min(p[ax], q[ax]), max(p[ax], q[ax])
                if any(lo < r[ax] < hi for r in allc[l1]):
                    crossed += 1
                    self.flat_crossed_segs.append((p, q))
        return flat, crossed

    def captured_loops(self):
        """the boundary grisubal is specified to capture: per loop, the crossings and the points of
        interest in the order of the loop (regular corners are cut); loops without crossing vanish"""
        cr = {}
        for k, t, pt in self.crossings():
            cr.setdefault(k, []).append((t, pt))
        poi = set(self.poi_ids())
        res = []
        k = 0
        for li, lp in enumerate(self.loops):
            pts = []
            for i in range(len(lp)):
                v = self.vid(li, i)
                if v in poi:
                    pts.append(lp[i])
                pts += [pt for _, pt in sorted(cr.get(k, []))]
                k += 1
            res.append(pts)
        return res

    def loops_crossing_nothing(self):
        cr = {k for k, _, _ in self.crossings()}
        res = []
        k = 0
        for li, lp in enumerate(self.loops):
            if not any((k + i) in cr for i in range(len(lp))):
                res.append(li)
            k += len(lp)
        return res

    def line(self, cmd, clip, segs=None):
        """the protocol line; the order of the `Line` / `Vertex` cells in the file carries no meaning for the
        kernel, so segments and points of interest are listed in a scrambled (deterministic) order"""
        scramble = segs is None
        segs = self.segs if segs is None else segs
        if scramble:
            segs = sorted(segs, key=lambda ab: ((ab[0] * 7919 + 13) % 17, ab))
        parts = [cmd, clip, rs(self.cell[0]), rs(self.cell[1]), str(len(self.verts))]
        for x, y in self.verts:
            parts += [rs(x), rs(y)]
        parts.append(str(len(segs)))
        for a, b in segs:
            parts += [str(a), str(b)]
        ids = sorted(self.poi_ids(), key=lambda v: ((v * 7919 + 5) % 13, v))
        parts.append(str(len(ids)))
        parts += [str(i) for i in ids]
        return " ".join(parts)


# ---------------------------------------------------------------------------------------------
# random polygons
# ---------------------------------------------------------------------------------------------

def snap_pt(x, y, den):
    return (Fr(round(x * den), den), Fr(round(y * den), den))


def star_polygon(rng, center, rmin, rmax, k, den, convex=False):
    """star-shaped polygon around `center`, counter-clockwise, vertices on the 1/den lattice"""
    for _ in range(200):
        base = rng.random() * 2 * math.pi
        angs = sorted(base + (i + 0.15 + 0.7 * rng.random()) * 2 * math.pi / k for i in range(k))
        r0 = rmin + (rmax - rmin) * rng.random()
        pts = []
        for a in angs:
            r = r0 if convex else rmin + (rmax - rmin) * rng.random()
            pts.append(snap_pt(center[0] + r * math.cos(a), center[1] + r * math.sin(a), den))
        if len(set(pts)) != k:
            continue
        if not loops_simple([pts]):
            continue
        if area2(pts) <= 0:
            continue
        if convex and any(cross(pts[i - 1], pts[i], pts[(i + 1) % k]) <= 0 for i in range(k)):
            continue
        return pts
    return None


def choose_poi(rng, loops, mode):
    allp = [(li, i) for li, lp in enumerate(loops) for i in range(len(lp))]
    if mode == "all":
        return allp
    if mode == "none":
        return []
    k = rng.randint(1, max(1, len(allp) - 1))
    return sorted(rng.sample(allp, k))


CELLS = [(Fr(1), Fr(1)), (Fr(1, 2), Fr(1, 2)), (Fr(3, 4), Fr(3, 4)), (Fr(1), Fr(1, 2)), (Fr(3, 4), Fr(1, 2)),
         (Fr(2), Fr(2)), (Fr(5, 4), Fr(3, 4)), (Fr(3, 8), Fr(3, 8))]


def random_geometry(rng, kind, cell=None, poi_mode=None, den=None, reverse=None):
    """kind: convex | star | hole | two | island.  Returns a Geometry in general position or None."""
    cell = cell or rng.choice(CELLS)
    den = den or rng.choice([16, 16, 32, 10])
    poi_mode = poi_mode or rng.choice(["all", "all", "some", "none"])
    scale = float(max(cell))
    c0 = (rng.uniform(-3, 3), rng.uniform(-3, 3))
    loops = None
    if kind in ("convex", "star"):
        k = rng.randint(3, 9)
        r1 = rng.uniform(0.8, 3.0) * scale
        lp = star_polygon(rng, c0, r1 * (0.9 if kind == "convex" else 0.45), r1, k, den, convex=(kind == "convex"))
        loops = [lp] if lp else None
    elif kind in ("hole", "island"):
        r1 = rng.uniform(2.0, 3.2) * scale
        outer = star_polygon(rng, c0, r1 * 0.8, r1, rng.randint(4, 9), den)
        hole = star_polygon(rng, c0, r1 * 0.35, r1 * 0.6, rng.randint(3, 7), den)
        if outer and hole:
            loops = [outer, hole[::-1]]
            if kind == "island":
                isl = star_polygon(rng, c0, r1 * 0.1, r1 * 0.25, rng.randint(3, 5), den)
                loops = loops + [isl] if isl else None
    elif kind == "two":
        r1 = rng.uniform(0.8, 2.0) * scale
        a = star_polygon(rng, c0, r1 * 0.5, r1, rng.randint(3, 7), den)
        ang = rng.random() * 2 * math.pi
        dist = r1 * rng.uniform(2.2, 3.0)
        c1 = (c0[0] + dist * math.cos(ang), c0[1] + dist * math.sin(ang))
        b = star_polygon(rng, c1, r1 * 0.5, r1, rng.randint(3, 7), den)
        loops = [a, b] if a and b else None
    if not loops or not loops_simple(loops):
        return None
    if reverse if reverse is not None else rng.random() < 0.3:
        loops = [lp[::-1] for lp in loops]
        interior_left = False
    else:
        interior_left = True
    g = Geometry(loops, choose_poi(rng, loops, poi_mode), cell, kind)
    g.interior_left = interior_left
    g.poi_mode = poi_mode
    if not g.general_position(margin=Fr(1, 10 ** 6) if den == 10 else Fr(0)):
        return None
    return g


# ---------------------------------------------------------------------------------------------
# snapshot -> mesh
# ---------------------------------------------------------------------------------------------

def parse_pt(tok):
    if tok in ("none", "~"):
        return None
    x, y, _ = tok[1:-1].split(",")
    return (Fr(x), Fr(y))


def parse_snap(line):
    parts = [p.strip() for p in line.split("|")]
    n = int(parts[0].split("n=")[1])
    d = {"n": n, "b": {}, "a": {}}
    for p in parts[1:]:
        key, _, rest = p.partition(":")
        toks = rest.split()
        if key.startswith("b"):
            d["b"][int(key[1:])] = [int(x) for x in toks]
        elif key == "u":
            d["u"] = [int(x) for x in toks]
        elif key == "a0":
            d["a0"] = [parse_pt(t) for t in toks]
        else:
            d["a"][key] = toks
    return d


ANCH = "NCSB"


def anchor_of(tok):
    """snapshot code -> ('N'|'C'|'S'|'B', id) or None"""
    if tok == "none":
        return None
    c = int(tok)
    return (ANCH[c % 4], c // 4)


class Mesh:
    """cells of a 2-map snapshot, computed from the beta tables only (independent of the
    implementation's orbit code)"""

    def __init__(self, s):
        self.s = s
        n = self.n = s["n"]
        b0, b1, b2 = self.b0, self.b1, self.b2 = s["b"][0], s["b"][1], s["b"][2]
        self.used = [d for d in range(1, n) if not s["u"][d]]
        par = list(range(n))

        def find(x):
            while par[x] != x:
                par[x] = par[par[x]]
                x = par[x]
            return x

        def union(a, b):
            a, b = find(a), find(b)
            if a != b:
                if a < b:
                    par[b] = a
                else:
                    par[a] = b
        for d in self.used:
            if b2[d] and b1[b2[d]]:
                union(d, b1[b2[d]])
            if b0[d] and b2[b0[d]]:
                union(d, b2[b0[d]])
        self.vid = [find(d) for d in range(n)]
        self.vertices = sorted({self.vid[d] for d in self.used})
        self.open_darts = [d for d in self.used if b1[d] == 0 or b0[d] == 0]
        self.faces = []        # list of dart cycles (beta1 order)
        self.fid = [0] * n
        seen = [False] * n
        for d in self.used:
            if seen[d] or b1[d] == 0:
                continue
            cyc, e = [], d
            while e and not seen[e]:
                seen[e] = True
                cyc.append(e)
                e = b1[e]
            if e == d:
                f = min(cyc)
                for x in cyc:
                    self.fid[x] = f
                self.faces.append(cyc)
        self.eid = [0] * n
        for d in self.used:
            self.eid[d] = min(d, b2[d]) if b2[d] else d
        self.edges = sorted({self.eid[d] for d in self.used})
        a0 = s.get("a0") or [None] * n
        self.P = [a0[self.vid[d]] if d else None for d in range(n)]

    def wf(self):
        n, b0, b1, b2, u = self.n, self.b0, self.b1, self.b2, self.s["u"]
        out = []
        for row in (b0, b1, b2):
            if len(row) != n or any(not (0 <= x < n) for x in row) or row[0] != 0:
                return ["beta row out of range / null dart has an image"]
        for d in range(1, n):
            if b1[d] and b0[b1[d]] != d:
                out.append(f"beta0(beta1({d})) != {d}")
            if b0[d] and b1[b0[d]] != d:
                out.append(f"beta1(beta0({d})) != {d}")
            if b2[d] and (b2[b2[d]] != d or b2[d] == d):
                out.append(f"beta2 not an involution at {d}")
            if u[d] and (b0[d] or b1[d] or b2[d]):
                out.append(f"unused dart {d} is linked")
            for r in (b0, b1, b2):
                if r[d] and u[r[d]]:
                    out.append(f"dart {d} has an unused image")
        return out[:4]

    def face_pts(self, cyc):
        return [self.P[d] for d in cyc]

    def boundary_darts(self):
        return [d for d in self.used if self.b2[d] == 0]

    def next_boundary(self, d):
        """the 2-free dart leaving the end vertex of the 2-free dart `d` (turning around the vertex)"""
        e = self.b1[d]
        k = 0
        while e and self.b2[e]:
            e = self.b1[self.b2[e]]
            k += 1
            if k > self.n:
                return 0
        return e


def interior_point(pts):
    """a point strictly inside the simple polygon `pts` (positively oriented), exact"""
    n = len(pts)
    best = None
    for i in range(n):
        a, b = pts[i], pts[(i + 1) % n]
        if a == b:
            continue
        m = ((a[0] + b[0]) / 2, (a[1] + b[1]) / 2)
        nx_, ny_ = -(b[1] - a[1]), (b[0] - a[0])          # left normal
        # closest hit of the ray m + s*(nx,ny), s > 0, with the other sides
        smin = None
        for j in range(n):
            if j == i:
                continue
            c, d = pts[j], pts[(j + 1) % n]
            ex, ey = d[0] - c[0], d[1] - c[1]
            den = nx_ * ey - ny_ * ex
            if den == 0:
                continue
            s = ((c[0] - m[0]) * ey - (c[1] - m[1]) * ex) / den
            t = ((c[0] - m[0]) * ny_ - (c[1] - m[1]) * nx_) / den
            if s > 0 and 0 <= t <= 1:
                if smin is None or s < smin:
                    smin = s
        if smin is not None:
            cand = (m[0] + nx_ * smin / 2, m[1] + ny_ * smin / 2)
            if best is None or smin > best[0]:
                best = (smin, cand)
    return best[1] if best else None


def near(p, q, tol=TOL):
    return abs(p[0] - q[0]) <= tol and abs(p[1] - q[1]) <= tol


class PointIndex:
    """nearest-lookup of mesh vertices by a coarse hash grid"""

    def __init__(self, pts, h=Fr(1, 1024)):
        self.h = h
        self.cells = {}
        for p in pts:
            self.cells.setdefault((math.floor(p[0] / h), math.floor(p[1] / h)), []).append(p)

    def has(self, p, tol=TOL):
        i, j = math.floor(p[0] / self.h), math.floor(p[1] / self.h)
        for a in (i - 1, i, i + 1):
            for b in (j - 1, j, j + 1):
                for q in self.cells.get((a, b), ()):
                    if near(p, q, tol):
                        return True
        return False


def covered(seg, edges, tol=TOL):
    """is the segment (p, q) covered by the union of the given edges (pairs of points), within tol?"""
    p, q = seg
    dx, dy = q[0] - p[0], q[1] - p[1]
    L2 = dx * dx + dy * dy
    ivs = []
    for a, b in edges:
        # both ends within tol of the supporting line and inside the slab
        da = (a[0] - p[0]) * dy - (a[1] - p[1]) * dx
        db = (b[0] - p[0]) * dy - (b[1] - p[1]) * dx
        if da * da > tol * tol * L2 or db * db > tol * tol * L2:
            continue
        ta = ((a[0] - p[0]) * dx + (a[1] - p[1]) * dy) / L2
        tb = ((b[0] - p[0]) * dx + (b[1] - p[1]) * dy) / L2
        lo, hi = min(ta, tb), max(ta, tb)
        if hi < -tol or lo > 1 + tol:
            continue
        ivs.append((lo, hi))
    ivs.sort()
    reach = Fr(0)
    eps = tol * 4
    for lo, hi in ivs:
        if lo > reach + eps:
            return False
        reach = max(reach, hi)
    return reach >= 1 - eps


# ---------------------------------------------------------------------------------------------
# implementation-only campaign (the geometric pipeline is not modelled: DESIGN.md §7 C16/C17)
# ---------------------------------------------------------------------------------------------

def impl_campaign(cases, oracle, parts=12):
    """like hv.campaign, but only the implementation driver runs; every failure is an oracle failure"""
    import concurrent.futures as cf
    import hashlib

    import hv
    slices = [cases[i::parts] for i in range(parts)] if len(cases) >= parts else [cases]
    slices = [s for s in slices if s]

    def work(cs):
        rc, out = hv.run_bin(hv.HCIMPL, hv.render(cs))
        groups = hv.split_outputs(out)
        res = []
        for k, c in enumerate(cs):
            li = groups[k][1] if k < len(groups) else ["<missing: implementation driver died>"]
            o = oracle(c, li)
            res.append((c, li, o if isinstance(o, tuple) or o is None else (o, None)))
        return res

    stats = {"cases": len(cases), "lines": 0, "disagreements": 0, "oracle_failures": 0, "impl_outcomes": {}, "ops": {}}
    violations, samples, distinct = [], [], set()
    with cf.ThreadPoolExecutor(len(slices) or 1) as ex:
        results = [r for part in ex.map(work, slices) for r in part]
    for c, li, of2 in results:
        ofail, finding = of2 if of2 else (None, None)
        stats["lines"] += len(li)
        distinct.add(hashlib.md5("\n".join(li).encode()).hexdigest())
        for ln in c.lines:
            k = ln.split(" ", 1)[0]
            stats["ops"][k] = stats["ops"].get(k, 0) + 1
        for ln in li:
            k = ln.split(" ")
            key = k[0] if k[0] != "err" else " ".join(k[:2])
            if key in ("ok", "panic") or key.startswith("err"):
                stats["impl_outcomes"][key] = stats["impl_outcomes"].get(key, 0) + 1
        if ofail:
            stats["oracle_failures"] += 1
            violations.append({
                "kind": "oracle",
                "what": f"property fails on the implementation on case {c.cid}: {ofail}",
                "found_input": True,
                "sig": c.meta.get("sig", ""),
                "finding": finding,
                "tags": sorted({t.split(":")[0] for t in ofail.split("; ")}),
                "meta": {k: v for k, v in c.meta.items() if k in ("facts",)},
                "replay": {"case": c.cid, "input_lines": c.lines, "impl_output": [x[:400] for x in li], "oracle_failure": ofail,
                           "replay_cmd": f"printf '%s\\n' <input_lines> | {hv.HCIMPL_PATH}"},
            })
        if len(samples) < 3:
            samples.append({"case": c.cid, "input": [x[:300] for x in c.lines[:4]], "impl_output": [x[:300] for x in li[:4]]})
    stats["distinct_nontrivial"] = len(distinct)
    return {"stats": stats, "violations": violations, "samples": samples}
