#!/usr/bin/env python3
"""mkseedtask.py Cxx…: create a scratch worktree /tmp/seedN_Cxx of /repo per property and write TASK.md there (property text, what to
produce: two changes k = 10, 11 -- edit the numbers below for a new batch --, the sites earlier batches used); the sub-agent is then told:
"Read /tmp/seedN_Cxx/TASK.md and do exactly what it says."  Nothing from /verif but the property text and the list of used sites goes in."""
import json, os, subprocess, sys
props = {json.loads(l)['id']: json.loads(l) for l in open('/verif/properties.jsonl')}
for pid in sys.argv[1:]:
    w = f'/tmp/seedN_{pid}'
    if not os.path.exists(w):
        subprocess.check_call(['git','-C','/repo','worktree','add','--detach',w,'HEAD'], stdout=subprocess.DEVNULL, stderr=subprocess.DEVNULL)
    prior = []
    for k in range(1, 13):
        m = f'/verif/seeded/{pid}-{k}/meta.json'
        if os.path.exists(m):
            s = json.load(open(m))['summary']
            prior.append('- ' + s[:230].replace('\n', ' '))
    p = props[pid]
    t = f"""# Task: write two changes to this repository that break one stated property

You work ONLY inside this directory ({w}), a scratch git worktree of the Rust project
LIHPC-Computational-Geometry/honeycomb (combinatorial maps, STM transactions, meshing kernels, Bevy viewer).
Do not read or write anything under /repo or /verif. No network: always build with
`CARGO_NET_OFFLINE=true CARGO_TARGET_DIR={w}/target cargo ... --offline`.

## The property (this is all you are given)

id: {pid}
title: {p['title']}

statement: {p['statement']}

quantifier: {p['quantifier']['text']}

why the existing tests cannot settle it: {p['why_tests_cant']}

anchors: {json.dumps(p['anchors'])}

## What to produce

Two DIFFERENT realistic changes to the source (k = 10 and k = 11), each of which
* still compiles (`cargo build -p honeycomb-core -p honeycomb-kernels --offline`; honeycomb-render too if you touch it),
* still passes the existing test suite unedited (`cargo test -p honeycomb-core -p honeycomb-kernels --offline`),
* breaks the property above on some input / state / history / schedule,
* looks like something a maintainer could plausibly write (refactoring slip, "optimisation", copy-paste slip, a
  non-transactional read, an off-by-one, a reordered write, a dropped guard ...), and
* needs something SPECIFIC to manifest: a particular interleaving, a fault or error at a particular point, a multi-step
  sequence of operations, an unusual input, or two cooperating edit sites that each look fine alone. NOT something
  ordinary use would expose at once.

Changes that earlier rounds already used for this property (pick other sites / other mechanisms):
{chr(10).join(prior)}

For each k write into `{w}/out/<k>/`:
* `patch.diff` — `git diff` of the change against the pristine worktree (source files only; must apply with `git apply`
  on a clean checkout),
* `demo.rs` — an integration test file whose FIRST line is the comment `// place at <crate>/tests/<name>.rs`
  (e.g. `// place at honeycomb-core/tests/demo_10.rs`; crate is `honeycomb-core` or `honeycomb-kernels`), using only the
  public API of the crate, that PASSES on the pristine tree and FAILS with the change applied
  (`cargo test -p <crate> --test <name> --offline`),
* `meta.json` — {{"property": "{pid}", "summary": "<what was changed, file and function, and why it breaks the property>",
  "needs": "<what it needs in order to manifest>", "ran": ["<commands you ran and their outcomes>"]}}.

Verify all of it yourself (demo passes pristine / fails patched / suite passes patched) and finish with
`git checkout -- . && git clean -fdq -e out -e target` so that the worktree is pristine again (keep `out/` and `target/`).
Your final message: one line per k with the file and function changed, and whether all three verifications succeeded.
"""
    open(f'{w}/TASK.md', 'w').write(t)
    print(w)
