#!/bin/bash
# usage: proc_seed.sh Cxx k [extra pids]  -> confirm, import, seedrun
P=$1; K=$2; shift 2
W=/tmp/seedN_$P
R=$(bash /verif/tools/confirm_seed.sh $W $K | tail -1)
echo "$R"
case "$R" in *CONFIRMED*) ;; *) echo "NOT CONFIRMED $P $K"; exit 1;; esac
cd /verif && python3 tools/import_seed.py $W $K "$R" && python3 tools/seedrun.py $P-$K $P "$@"
