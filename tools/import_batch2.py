#!/usr/bin/env python3
"""import_batch2.py <confirm log> <pid>...: import /tmp/seed2_<pid>/out/{1,2,3} as seeded/<pid>-{4,5,6}"""
import json, os, shutil, sys
log = sys.argv[1]
for w in sys.argv[2:]:
    for k in (1, 2, 3):
        o = f'/tmp/seed2_{w}/out/{k}'
        if not os.path.exists(o + '/meta.json'):
            continue
        res = [l.strip() for l in open(log) if l.startswith(f'RESULT /tmp/seed2_{w} {k} ')]
        if not res or 'CONFIRMED' not in res[0]:
            print('not confirmed:', w, k, res); continue
        meta = json.load(open(o + '/meta.json'))
        d = f'/verif/seeded/{w}-{k + 3}'
        os.makedirs(d, exist_ok=True)
        shutil.copy(o + '/patch.diff', d); shutil.copy(o + '/demo.rs', d)
        meta['confirmed_by_lead'] = res[0]; meta['batch'] = 2
        meta['confirm_cmd'] = "tools/confirm_seed.sh <scratch worktree> <k>: demo passes on pristine, fails with patch; cargo test -p honeycomb-core -p honeycomb-kernels passes with patch"
        json.dump(meta, open(d + '/meta.json', 'w'), indent=1)
        print('imported', d)
