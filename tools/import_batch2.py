#!/usr/bin/env python3
"""import_batch2.py <confirm log> <pid>...: import /tmp/seed<B>_<pid>/out/{1,2,3} as seeded/<pid>-{3(B-1)+1..3(B-1)+3}; B = env BATCH (default 2)"""
import json, os, shutil, sys
log = sys.argv[1]
B = int(os.environ.get('BATCH', '2'))
for w in sys.argv[2:]:
    for k in (1, 2, 3):
        o = f'/tmp/seed{B}_{w}/out/{k}'
        if not os.path.exists(o + '/meta.json'):
            continue
        res = [l.strip() for l in open(log) if l.startswith(f'RESULT /tmp/seed{B}_{w} {k} ')]
        if not res or 'CONFIRMED' not in res[0]:
            print('not confirmed:', w, k, res); continue
        meta = json.load(open(o + '/meta.json'))
        d = f'/verif/seeded/{w}-{k + 3 * (B - 1)}'
        os.makedirs(d, exist_ok=True)
        shutil.copy(o + '/patch.diff', d); shutil.copy(o + '/demo.rs', d)
        meta['confirmed_by_lead'] = res[0]; meta['batch'] = B
        meta['confirm_cmd'] = "tools/confirm_seed.sh <scratch worktree> <k>: demo passes on pristine, fails with patch; cargo test -p honeycomb-core -p honeycomb-kernels passes with patch"
        json.dump(meta, open(d + '/meta.json', 'w'), indent=1)
        print('imported', d)
