#!/usr/bin/env python3
"""import_seed.py <worktree> <k> <confirm RESULT line>: copy a confirmed seeded change into /verif/seeded/<pid>-<k>/"""
import json, os, shutil, sys
w, k, res = sys.argv[1], sys.argv[2], sys.argv[3]
o = os.path.join(w, "out", k)
meta = json.load(open(os.path.join(o, "meta.json")))
pid = meta["property"]
d = f"/verif/seeded/{pid}-{k}"
os.makedirs(d, exist_ok=True)
shutil.copy(os.path.join(o, "patch.diff"), d)
shutil.copy(os.path.join(o, "demo.rs"), d)
meta["confirmed_by_lead"] = res
meta["confirm_cmd"] = "tools/confirm_seed.sh <scratch worktree> <k>: demo passes on pristine, fails with patch; cargo test -p honeycomb-core -p honeycomb-kernels passes with patch"
json.dump(meta, open(os.path.join(d, "meta.json"), "w"), indent=1)
print("imported", d)
