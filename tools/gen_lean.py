#!/usr/bin/env python3
"""The small translator of DESIGN.md §3.4: table-shaped Rust code -> Lean data.

`run(names) -> (ok, log)`; called by tools/check.py before `lake build` on every run.  The
generated files are committed too (so that a plain `lake build` works) but are overwritten here.

Supported names
  "grid":  /repo/honeycomb-core/src/cmap/builder/grid.rs -> lean/Honeycomb/Gen/GridTables.lean
           * the rows of generate_square_beta_values / generate_tris_beta_values /
             generate_hex_beta_values (each row = [b0, b1, b2(, b3)] as Nat expressions in the dart
             offsets, boundary conditions as in the source);
           * the index decoding and the match arms of generate_hex_offset;
           * the vertex placement blocks of build_2d_grid / build_2d_splitgrid (which local dart of
             which cells receives which lattice point), the dart counts per cell and whether the
             2-D builders start with the zero-count guard `if n_x == 0 || n_y == 0 { return map; }`.

  "anchors": /repo/honeycomb-kernels/src/utils/anchors.rs -> lean/Honeycomb/Gen/Anchors.lean
           * the variants and `anchor_dim` of VertexAnchor / EdgeAnchor / FaceAnchor, the `match` arms of
             the three `AttributeUpdate::merge` impls (in source order), the shape of `split` /
             `merge_incomplete`, the absence of `*_from_none` overrides, `BIND_POLICY`, and the `From`
             conversions between the anchor types.

The translation is token/regex level for the control structure; the arithmetic of the grid tables,
of the placement statements and of the `generate_hex_offset` arms is PARSED and evaluated (integer
polynomials), so that semantics-preserving reformattings (comments, whitespace, operand order,
folded constants, alternatives or arms in another order, trailing commas) give the same generated
file.  Everything that is not recognised raises `Shape`, which
makes `run` return ok=False: the check then reports that the proof no longer talks about the code.
This file is part of the trusted base (keep it small).
"""
import os
import re
import sys

VERIF = os.path.dirname(os.path.dirname(os.path.abspath(__file__)))
# (scratch testing: GEN_LEAN_GRID_RS / GEN_LEAN_GRID_OUT redirect source and output)
GRID_RS = os.environ.get("GEN_LEAN_GRID_RS", "/repo/honeycomb-core/src/cmap/builder/grid.rs")
GRID_OUT = os.environ.get("GEN_LEAN_GRID_OUT", os.path.join(VERIF, "lean", "Honeycomb", "Gen", "GridTables.lean"))


class Shape(Exception):
    pass


def need(cond, msg):
    if not cond:
        raise Shape(msg)


# ---------------------------------------------------------------------------------------------
# lexical helpers
# ---------------------------------------------------------------------------------------------

def strip_comments(src):
    src = re.sub(r"/\*.*?\*/", " ", src, flags=re.S)
    return "\n".join(re.sub(r"//.*$", "", ln) for ln in src.split("\n"))


def fn_body(src, name):
    """text between the braces of `fn name`"""
    m = re.search(r"\bfn\s+" + re.escape(name) + r"\b", src)
    need(m, f"function {name} not found")
    need(len(re.findall(r"\bfn\s+" + re.escape(name) + r"\b", src)) == 1, f"function {name} defined more than once")
    i = src.index("{", m.end())
    depth, j = 0, i
    while j < len(src):
        if src[j] == "{":
            depth += 1
        elif src[j] == "}":
            depth -= 1
            if depth == 0:
                return src[i + 1:j]
        j += 1
    raise Shape(f"unbalanced braces in {name}")


def fn_sig(src, name):
    """text between `fn name` and the opening brace of its body, whitespace-normalised"""
    m = re.search(r"\bfn\s+" + re.escape(name) + r"\b", src)
    need(m, f"function {name} not found")
    return " ".join(src[m.end():src.index("{", m.end())].split())


def split_top(s):
    """split on commas that are not nested in () [] {}"""
    parts, depth, cur = [], 0, []
    for ch in s:
        if ch in "([{":
            depth += 1
        elif ch in ")]}":
            depth -= 1
        if ch == "," and depth == 0:
            parts.append("".join(cur).strip())
            cur = []
        else:
            cur.append(ch)
    tail = "".join(cur).strip()
    if tail:
        parts.append(tail)
    return parts


TOKEN = re.compile(r"\s*([A-Za-z_]\w*|\d+|[-+*/%()])")


def expr(s, idents, where):
    """validate an arithmetic expression over Nat (+ - * / % parentheses, literals, the given
    identifiers; `as <type>` casts are dropped) and return it as Lean text"""
    s = re.sub(r"\s+as\s+[A-Za-z_]\w*", "", s).strip()
    need(s, f"empty expression in {where}")
    pos, out, depth, prev_operand = 0, [], 0, False
    while pos < len(s):
        m = TOKEN.match(s, pos)
        need(m, f"unrecognised token at {s[pos:pos + 20]!r} in {where}")
        t = m.group(1)
        pos = m.end()
        if re.fullmatch(r"[A-Za-z_]\w*", t):
            need(t in idents, f"unknown identifier {t!r} in {where}: {s!r}")
            need(not prev_operand, f"two operands in a row in {where}: {s!r}")
            prev_operand = True
        elif t.isdigit():
            need(not prev_operand, f"two operands in a row in {where}: {s!r}")
            prev_operand = True
        elif t == "(":
            need(not prev_operand, f"call syntax not supported in {where}: {s!r}")
            depth += 1
        elif t == ")":
            need(prev_operand and depth > 0, f"bad parenthesis in {where}: {s!r}")
            depth -= 1
        else:
            need(prev_operand, f"operator without left operand in {where}: {s!r}")
            prev_operand = False
        out.append(t)
    need(depth == 0 and prev_operand, f"incomplete expression in {where}: {s!r}")
    txt = " ".join(out).replace("( ", "(").replace(" )", ")")
    return txt


COND = re.compile(r"^if\s+(.+?)\s*==\s*(.+?)\s*\{\s*0\s*\}\s*else\s*\{\s*(.+?)\s*\}$", re.S)


def entry(s, idents, where):
    s = " ".join(s.split())
    m = COND.match(s)
    if m:
        a, b, e = (expr(x, idents, where) for x in m.groups())
        return f"(if {a} = {b} then 0 else {e})"
    need(not s.startswith("if"), f"unrecognised conditional in {where}: {s!r}")
    return expr(s, idents, where)


# ---------------------------------------------------------------------------------------------
# semantic reading of arithmetic expressions: integer polynomials
# ---------------------------------------------------------------------------------------------
# An expression over + - * (no / %) is evaluated to a polynomial with integer coefficients over the
# free identifiers (let-bound names are substituted).  `a - b` is accepted only between
# subtraction-free operands and only as the outermost operation (possibly inside parentheses / a
# cast): for such expressions the polynomial determines both the value and the underflow
# condition `a < b` of the unsigned Rust arithmetic, so equal polynomials = same behaviour.

def p_const(c):
    return {(): c} if c else {}


def p_add(a, b, sign=1):
    r = dict(a)
    for m, c in b.items():
        r[m] = r.get(m, 0) + sign * c
        if r[m] == 0:
            del r[m]
    return r


def p_mul(a, b):
    r = {}
    for m1, c1 in a.items():
        for m2, c2 in b.items():
            m = tuple(sorted(m1 + m2))
            r[m] = r.get(m, 0) + c1 * c2
            if r[m] == 0:
                del r[m]
    return r


def poly(s, env, free, where):
    """env: let-name -> polynomial; free: allowed free identifiers.  Returns the polynomial."""
    s = re.sub(r"\s+as\s+[A-Za-z_]\w*", "", s).strip()
    toks = []
    pos = 0
    while pos < len(s):
        m = TOKEN.match(s, pos)
        need(m, f"unrecognised token at {s[pos:pos + 20]!r} in {where}")
        toks.append(m.group(1))
        pos = m.end()
    need(toks, f"empty expression in {where}")
    i = [0]

    def peek():
        return toks[i[0]] if i[0] < len(toks) else None

    def factor():
        t = peek()
        need(t is not None, f"incomplete expression in {where}: {s!r}")
        i[0] += 1
        if t == "(":
            v, sub = expr_()
            need(peek() == ")", f"missing `)` in {where}: {s!r}")
            i[0] += 1
            return v, sub
        if t.isdigit():
            return p_const(int(t)), False
        need(re.fullmatch(r"[A-Za-z_]\w*", t) is not None, f"unexpected token {t!r} in {where}: {s!r}")
        if t in env:
            return env[t]
        need(t in free, f"unknown identifier {t!r} in {where}: {s!r}")
        return {(t,): 1}, False

    def term():
        v, sub = factor()
        while peek() == "*":
            i[0] += 1
            w, sub2 = factor()
            need(not sub and not sub2, f"subtraction under a product in {where}: {s!r}")
            v = p_mul(v, w)
        need(peek() not in ("/", "%"), f"`/` and `%` are not interpreted in {where}: {s!r}")
        return v, sub

    def expr_():
        v, sub = term()
        while peek() in ("+", "-"):
            op = peek()
            i[0] += 1
            w, sub2 = term()
            need(not sub and not sub2, f"nested subtraction in {where}: {s!r} (not interpreted: underflow order)")
            if op == "+":
                v = p_add(v, w)
            else:
                v, sub = p_add(v, w, -1), True
        return v, sub

    v, sub = expr_()
    need(i[0] == len(toks), f"trailing tokens in {where}: {s!r}")
    return v, sub


def cond_nf(a, b, env, free, where):
    """`a == b` as the polynomial a - b, sign-normalised"""
    pa, _ = poly(a, env, free, where)
    pb, _ = poly(b, env, free, where)
    d = p_add(pa, pb, -1)
    need(d, f"trivial condition in {where}")
    lead = d[sorted(d)[-1]]
    if lead < 0:
        d = {m: -c for m, c in d.items()}
    return tuple(sorted(d.items()))


def entry_nf(s, env, free, where, lean=False):
    s = " ".join(s.split())
    if lean and s.startswith("(") and s.endswith(")") and s[1:].lstrip().startswith("if"):
        s = s[1:-1].strip()
    rx = LEAN_COND if lean else COND
    m = rx.match(s)
    if m:
        a, b, e = m.groups()
        pe, _ = poly(e, env, free, where)
        return ("if", cond_nf(a, b, env, free, where), tuple(sorted(pe.items())))
    need(not s.startswith("if"), f"unrecognised conditional in {where}: {s!r}")
    pe, _ = poly(s, env, free, where)
    return ("e", tuple(sorted(pe.items())))


LEAN_COND = re.compile(r"^if\s+(.+?)\s*=\s*(.+?)\s+then\s+0\s+else\s+(.+)$", re.S)


def lets_env(lets_raw, free, where):
    """[(name, rust_or_lean_expr_text)] in order -> env of polynomials"""
    env = {}
    for n, v in lets_raw:
        env[n] = poly(v, env, free, where)
    return env


def table_nf_from_lean(block, width, nrows, free, where):
    """re-read a table emitted by `emit_table` (the previously generated file)"""
    lets_raw = re.findall(r"^\s*let\s+([A-Za-z_]\w*)\s*:=\s*(.+)$", block, flags=re.M)
    env = lets_env(lets_raw, free, where)
    i = block.index("[ [")
    body = block[i:].strip()
    need(body.startswith("[") and body.endswith("]"), f"{where}: old table not recognised")
    rows = split_top(body[1:-1])
    need(len(rows) == nrows, f"{where}: old table has {len(rows)} rows")
    nf = []
    for r in rows:
        r = r.strip()
        need(r.startswith("[") and r.endswith("]"), f"{where}: old row not recognised")
        cells = split_top(r[1:-1])
        need(len(cells) == width, f"{where}: old row width")
        nf.append([entry_nf(c, env, free, where, lean=True) for c in cells])
    return nf


# ---------------------------------------------------------------------------------------------
# beta tables
# ---------------------------------------------------------------------------------------------

def parse_lets(body, idents, where):
    """`let x = e;` and `let (a, b, ..) = (e1, e2, ..);` statements, in order; returns
    [(name, lean_expr)] and extends idents"""
    lets = []
    for m in re.finditer(r"\blet\s+(\([^)]*\)|[A-Za-z_]\w*)\s*=\s*(.*?);", body, flags=re.S):
        lhs, rhs = m.group(1), m.group(2).strip()
        if lhs.startswith("("):
            names = split_top(lhs[1:-1])
            need(rhs.startswith("(") and rhs.endswith(")"), f"tuple let without tuple value in {where}")
            vals = split_top(rhs[1:-1])
            need(len(names) == len(vals), f"tuple let arity mismatch in {where}")
        else:
            names, vals = [lhs], [rhs]
        new = []
        for n, v in zip(names, vals):
            need(re.fullmatch(r"[A-Za-z_]\w*", n) is not None, f"bad let name {n!r} in {where}")
            new.append((n, expr(v, idents, where)))   # simultaneous binding: rhs sees only older names
        for n, v in new:
            need(n not in idents, f"rebinding of {n} in {where}")
            idents.add(n)
            lets.append((n, v))
    return lets


def beta_table(src, fname, counts, idxs, width, nrows):
    """counts = ['n_x','n_y'(, 'n_z')], idxs = ['ix','iy'(, 'iz')] (innermost loop first)"""
    where = fname
    body = fn_body(src, fname)
    flat = " ".join(body.split())
    # loop nest: outermost = last axis, innermost = first axis, all flat_map(move |i| ..)
    pos = 0
    for cnt, ix in reversed(list(zip(counts, idxs))):
        m = re.compile(r"\(0\.\." + cnt + r"\)\s*\.flat_map\(move \|" + ix + r"\|").search(flat, pos)
        need(m, f"{where}: loop `(0..{cnt}).flat_map(move |{ix}| ..` not found in the expected nesting order")
        pos = m.end()
    need(len(re.findall(r"\.flat_map\(", flat)) == len(counts), f"{where}: unexpected number of flat_map loops")
    # the signature must destructure the counts in axis order
    sig = fn_sig(src, fname)
    if len(counts) == 2:
        need(re.search(r"\(\s*n_x: usize,\s*n_y: usize\s*,?\s*\)", sig), f"{where}: signature is not (n_x: usize, n_y: usize)")
    else:
        need(re.search(r"\[n_x, n_y, n_z\]: \[usize; 3\]", sig), f"{where}: signature is not [n_x, n_y, n_z]: [usize; 3]")
    idents = set(counts) | set(idxs)
    free = set(idents)
    lets_raw = raw_lets(body, where)
    lets = parse_lets(body, idents, where)
    # the table literal: everything between the last `let` statement and `.into_iter()`
    last_let = 0
    for m in re.finditer(r"\blet\s+(\([^)]*\)|[A-Za-z_]\w*)\s*=\s*(.*?);", body, flags=re.S):
        last_let = m.end()
    lit = body[last_let:]
    k = lit.rfind(".into_iter()")
    need(k >= 0, f"{where}: table is not consumed by into_iter()")
    lit = lit[:k].strip()
    need(lit.startswith("[") and lit.endswith("]"), f"{where}: table literal not recognised")
    rows_txt = split_top(lit[1:-1])
    need(len(rows_txt) == nrows, f"{where}: {len(rows_txt)} rows found, expected {nrows}")
    env = lets_env(lets_raw, free, where)
    rows, nf = [], []
    for t in rows_txt:
        t = t.strip()
        need(t.startswith("[") and t.endswith("]"), f"{where}: row not recognised: {t!r}")
        cells = split_top(t[1:-1])
        need(len(cells) == width, f"{where}: row with {len(cells)} entries, expected {width}: {t!r}")
        rows.append([entry(c, idents, where) for c in cells])
        nf.append([entry_nf(c, env, free, where) for c in cells])
    return lets, rows, nf


def raw_lets(body, where):
    """the let statements as [(name, rust_text)], tuple lets expanded (simultaneous binding)"""
    out = []
    for m in re.finditer(r"\blet\s+(\([^)]*\)|[A-Za-z_]\w*)\s*=\s*(.*?);", body, flags=re.S):
        lhs, rhs = m.group(1), m.group(2).strip()
        if lhs.startswith("("):
            names = split_top(lhs[1:-1])
            need(rhs.startswith("(") and rhs.endswith(")"), f"tuple let without tuple value in {where}")
            vals = split_top(rhs[1:-1])
            need(len(names) == len(vals), f"tuple let arity mismatch in {where}")
        else:
            names, vals = [lhs], [rhs]
        seen = {n for n, _ in out}
        if lhs.startswith("("):
            for v in vals:   # simultaneous binding: no component may use a name bound by the same tuple
                for other in names:
                    need(re.search(r"\b" + re.escape(other.strip()) + r"\b", v) is None,
                         f"tuple let component uses a name of the same tuple in {where}")
        for n, v in zip(names, vals):
            n = n.strip()
            need(re.fullmatch(r"[A-Za-z_]\w*", n) is not None, f"bad let name {n!r} in {where}")
            need(n not in seen, f"rebinding of {n} in {where}")
            out.append((n, v))
    return out


def emit_table(name, doc, counts, idxs, lets, rows):
    args = " ".join(counts + idxs)
    out = [f"/-- {doc} -/", f"def {name} ({args} : Nat) : List (List Nat) :="]
    for n, v in lets:
        out.append(f"  let {n} := {v}")
    out.append("  [ " + ",\n    ".join("[" + ", ".join(r) + "]" for r in rows) + " ]")
    return "\n".join(out)


# ---------------------------------------------------------------------------------------------
# dart counts and vertex placement of the 2-D builders
# ---------------------------------------------------------------------------------------------

def darts_per_cell(src, fname, pattern):
    body = " ".join(fn_body(src, fname).split())
    m = re.search(pattern, body)
    need(m, f"{fname}: dart count expression not recognised")
    return int(m.group(1))


def zero_guard(src, fname, k):
    """`if n_square_x == 0 || n_square_y == 0 { return map; }` right after the map creation (the repair of
    D6): True / False; any other statement mentioning `return` is not recognised"""
    body = " ".join(fn_body(src, fname).split())
    m = re.search(r"new_with_undefined_attributes\(" + str(k) + r" \* n_square_x \* n_square_y, manager\);\s*"
                  r"if n_square_x == 0 \|\| n_square_y == 0 \{ return map; \}\s*\(1\.\.=", body)
    if m:
        need(len(re.findall(r"\breturn\b", body)) == 1, f"{fname}: more than one `return`")
        return True
    need(len(re.findall(r"\breturn\b", body)) == 0, f"{fname}: early return of an unrecognised shape")
    return False


LOOP_KINDS = [
    # (kind id, regex that must open the block)
    (0, r"\(0\.\.n_square_y\)\s*\.flat_map\(\|y_idx\| \(0\.\.n_square_x\)\.map\(move \|x_idx\| \(y_idx, x_idx\)\)\)\s*\.for_each\(\|\(y_idx, x_idx\)\| \{"),
    (1, r"\(0\.\.n_square_x\)\.for_each\(\|x_idx\| \{ let y_idx = n_square_y - 1;"),
    (2, r"\(0\.\.n_square_y\)\.for_each\(\|y_idx\| \{ let x_idx = n_square_x - 1;"),
    (3, r"\{ let \(x_idx, y_idx\) = \(n_square_x - 1, n_square_y - 1\);"),
]

FROM = r"T::from\((.+)\)\.unwrap\(\)"


def scaled(txt, var, length, where):
    """`T::from(E).unwrap() * L` or `L * T::from(E).unwrap()` with E = var or var + 1 (any way of
    writing it): returns 0 or 1"""
    t = " ".join(txt.split())
    m = re.fullmatch(FROM + r"\s*\*\s*([A-Za-z_]\w*)", t) or None
    if m:
        e, l = m.group(1), m.group(2)
    else:
        m = re.fullmatch(r"([A-Za-z_]\w*)\s*\*\s*" + FROM, t)
        need(m, f"{where}: component {t!r} is not `T::from(e).unwrap() * length`")
        l, e = m.group(1), m.group(2)
    need(l == length, f"{where}: component {t!r} is scaled by {l}, expected {length}")
    pe, sub = poly(e, {}, {var}, where)
    need(not sub, f"{where}: subtraction in {t!r}")
    for off in (0, 1):
        if pe == p_add({(var,): 1}, p_const(off)):
            return off
    raise Shape(f"{where}: component {t!r} is not {var} or {var} + 1")


def paren_arg(body, start, where):
    """body[start] == '(' : returns (text inside the matching parentheses, index after ')')"""
    need(body[start] == "(", f"{where}: `(` expected")
    depth = 0
    for j in range(start, len(body)):
        if body[j] == "(":
            depth += 1
        elif body[j] == ")":
            depth -= 1
            if depth == 0:
                return body[start + 1:j], j + 1
    raise Shape(f"{where}: unbalanced parentheses")


def placement(src, fname, k):
    body = " ".join(fn_body(src, fname).split())
    blocks = []
    pos = 0
    for kind, rx in LOOP_KINDS:
        where = f"{fname}: placement block {kind}"
        m = re.compile(rx).search(body, pos)
        need(m, f"{where}: loop header not recognised")
        h = re.compile(r"\s*let vertex_id = map\.vertex_id").match(body, m.end())
        need(h, f"{where}: `let vertex_id = map.vertex_id(..)` expected first")
        arg, after = paren_arg(body, h.end(), where)
        # dart expression: local + K*x_idx + K*n_square_x*y_idx
        pd, sub = poly(arg, {}, {"x_idx", "y_idx", "n_square_x"}, where)
        need(not sub, f"{where}: subtraction in the dart expression")
        local = pd.get((), 0)
        want = p_add(p_add(p_const(local), {("x_idx",): k}), {("n_square_x", "y_idx"): k})
        need(pd == want, f"{where}: dart expression {arg!r} is not local + {k}*x_idx + {k}*n_square_x*y_idx")
        need(1 <= local <= k, f"{where}: local dart {local} out of range")
        w = re.compile(r"\s*;\s*map\.force_write_vertex").match(body, after)
        need(w, f"{where}: `map.force_write_vertex(..)` expected after the vertex id")
        warg, after2 = paren_arg(body, w.end(), where)
        need(re.compile(r"\s*;").match(body, after2), f"{where}: `;` expected after force_write_vertex(..)")
        parts = split_top(warg)
        need(len(parts) == 2 and parts[0] == "vertex_id", f"{where}: force_write_vertex arguments not recognised")
        v = re.fullmatch(r"origin\s*\+\s*Vector2\s*(\(.*\))", parts[1].strip())
        need(v, f"{where}: written value is not `origin + Vector2(..)`")
        comps, endc = paren_arg(v.group(1), 0, where)
        need(endc == len(v.group(1)), f"{where}: trailing text after Vector2(..)")
        cs = split_top(comps)
        need(len(cs) == 2, f"{where}: Vector2 with {len(cs)} components")
        dx = scaled(cs[0], "x_idx", "len_per_x", where)
        dy = scaled(cs[1], "y_idx", "len_per_y", where)
        blocks.append((kind, local, k, dx, dy))
        pos = after2
    need(len(re.findall(r"force_write_vertex", body)) == 4, f"{fname}: unexpected extra vertex writes")
    need(len(re.findall(r"map\.vertex_id", body)) == 4, f"{fname}: unexpected extra vertex_id calls")
    return blocks


# ---------------------------------------------------------------------------------------------
# generate_hex_offset
# ---------------------------------------------------------------------------------------------

def hex_offset(src):
    fname = "generate_hex_offset"
    body = fn_body(src, fname)
    sig = fn_sig(src, fname)
    need(re.search(r"dart: DartIdType, \[n_x, n_y, _\]: \[usize; 3\], \[lx, ly, lz\]: \[T; 3\]", sig),
         f"{fname}: signature not recognised")
    head = body[:body.index("match")]
    idents = {"dart", "n_x", "n_y"}
    lets = parse_lets(head, idents, fname)
    names = [n for n, _ in lets]
    need(names == ["d", "dm", "dmm", "dmmm", "p", "x", "y", "z"], f"{fname}: index decoding bindings changed: {names}")
    mm = re.search(r"match\s+p\s*\{", body)
    need(mm, f"{fname}: `match p` not found")
    # the match body: up to its closing brace
    depth, k0 = 0, mm.end() - 1
    end = None
    for j2 in range(k0, len(body)):
        if body[j2] == "{":
            depth += 1
        elif body[j2] == "}":
            depth -= 1
            if depth == 0:
                end = j2
                break
    need(end is not None, f"{fname}: unbalanced match")
    need(body[end + 1:].strip() == "", f"{fname}: code after the match")
    arms_txt = split_top(body[mm.end():end])
    arms, wild = [], 0
    for a in arms_txt:
        need("=>" in a, f"{fname}: arm without `=>`: {a!r}")
        pats, rhs = a.split("=>", 1)
        pats, rhs = pats.strip(), " ".join(rhs.split())
        if pats == "_":
            need(re.fullmatch(r"unreachable!\(\)", rhs), f"{fname}: wildcard arm is not unreachable!()")
            wild += 1
            continue
        ps = []
        for t in pats.split("|"):
            t = t.strip()
            need(t.isdigit(), f"{fname}: pattern {t!r} is not a literal")
            ps.append(int(t))
        v = re.fullmatch(r"Vector3\s*(\(.*\))", rhs)
        need(v, f"{fname}: arm value is not Vector3(..): {rhs!r}")
        comps, endc = paren_arg(v.group(1), 0, fname)
        need(endc == len(v.group(1)), f"{fname}: trailing text after Vector3(..)")
        cs = split_top(comps)
        need(len(cs) == 3, f"{fname}: Vector3 with {len(cs)} components")
        off = (scaled(cs[0], "x", "lx", fname), scaled(cs[1], "y", "ly", fname), scaled(cs[2], "z", "lz", fname))
        arms.append((ps, off))
    need(wild == 1, f"{fname}: exactly one `_ => unreachable!()` arm expected")
    allp = [p_ for ps, _ in arms for p_ in ps]
    need(len(allp) == len(set(allp)), f"{fname}: overlapping match patterns")
    # canonical form: arms with the same value merged, patterns sorted by dart index (p = 0 is the
    # last dart of a cell: sorted as 24), arms sorted by their first pattern
    key = lambda p_: p_ if p_ else 24
    merged = {}
    for ps, off in arms:
        merged.setdefault(off, []).extend(ps)
    arms = sorted(((sorted(ps, key=key), off) for off, ps in merged.items()), key=lambda a: key(a[0][0]))
    return lets, arms


# ---------------------------------------------------------------------------------------------
# driver
# ---------------------------------------------------------------------------------------------

def gen_grid():
    raw = open(GRID_RS).read()
    src = strip_comments(raw)
    sq_lets, sq_rows, sq_nf = beta_table(src, "generate_square_beta_values", ["n_x", "n_y"], ["ix", "iy"], 3, 4)
    tr_lets, tr_rows, tr_nf = beta_table(src, "generate_tris_beta_values", ["n_x", "n_y"], ["ix", "iy"], 3, 6)
    hx_lets, hx_rows, hx_nf = beta_table(src, "generate_hex_beta_values", ["n_x", "n_y", "n_z"], ["ix", "iy", "iz"], 4, 24)
    ksq = darts_per_cell(src, "build_2d_grid", r"new_with_undefined_attributes\((\d+) \* n_square_x \* n_square_y, manager\)")
    ktr = darts_per_cell(src, "build_2d_splitgrid", r"new_with_undefined_attributes\((\d+) \* n_square_x \* n_square_y, manager\)")
    khx = darts_per_cell(src, "build_3d_grid", r"let n_darts = (\d+) \* n_square_x \* n_square_y \* n_square_z;")
    need((ksq, ktr, khx) == (len(sq_rows), len(tr_rows), len(hx_rows)), "darts per cell differ from the number of table rows")
    for f, k in (("build_2d_grid", ksq), ("build_2d_splitgrid", ktr)):
        b = " ".join(fn_body(src, f).split())
        need(re.search(r"\(1\.\.=\(" + str(k) + r" \* n_square_x \* n_square_y\) as DartIdType\)\s*\.zip\(generate_\w+_beta_values\(n_square_x, n_square_y\)\)"
                       r"\s*\.for_each\(\|\(dart, images\)\| \{ map\.set_betas\(dart, images\); \}\);", b),
             f"{f}: beta initialisation loop not recognised")
    b3 = " ".join(fn_body(src, "build_3d_grid").split())
    need(re.search(r"\(1\.\.=n_darts as DartIdType\)\s*\.zip\(generate_hex_beta_values\(n_cells_per_axis\)\)"
                   r"\s*\.for_each\(\|\(dart, images\)\| \{ map\.set_betas\(dart, images\); \}\);", b3),
         "build_3d_grid: beta initialisation loop not recognised")
    need(re.search(r"\(1\.\.=n_darts as DartIdType\)\s*\.filter\(\|d\| \*d as VertexIdType == map\.vertex_id\(\*d\)\)"
                   r"\s*\.for_each\(\|d\| \{ let v = origin \+ generate_hex_offset\(d, n_cells_per_axis, lengths\);"
                   r" map\.force_write_vertex\(d as VertexIdType, v\); \}\);", b3),
         "build_3d_grid: vertex placement loop not recognised")
    sq_guard = zero_guard(src, "build_2d_grid", ksq)
    tr_guard = zero_guard(src, "build_2d_splitgrid", ktr)
    need(len(re.findall(r"\breturn\b", " ".join(fn_body(src, "build_3d_grid").split()))) == 0,
         "build_3d_grid: early return not recognised")
    sq_place = placement(src, "build_2d_grid", ksq)
    tr_place = placement(src, "build_2d_splitgrid", ktr)
    off_lets, arms = hex_offset(src)

    previous = open(GRID_OUT).read() if os.path.exists(GRID_OUT) else None
    kept = []

    def table(name, doc, counts, idxs, lets, rows, nf, width, nrows):
        """the Lean text of a table.  The default is the textual mirror of the source; when the
        previously generated table is SEMANTICALLY equal to the source (same integer polynomial and
        same boundary condition in every entry) its text is kept, so that a reformatting of the Rust
        expressions (operands swapped, constants folded, bindings renamed ..) does not change the
        generated file.  Any real change makes the comparison fail and the mirror is emitted."""
        if previous:
            m = re.search(r"/-- [^\n]*\ndef " + name + r" [^\n]*\n.*?\]\s\]\n", previous, flags=re.S)
            if m:
                try:
                    if table_nf_from_lean(m.group(0), width, nrows, set(counts) | set(idxs), name) == nf:
                        kept.append(name)
                        return m.group(0).rstrip("\n")
                except Shape:
                    pass
        return emit_table(name, doc, counts, idxs, lets, rows)

    out = []
    out.append("/-\n  GENERATED by /verif/tools/gen_lean.py from\n  /repo/honeycomb-core/src/cmap/builder/grid.rs — DO NOT EDIT.\n"
               "  Regenerated by tools/check.py before every build; a change of the Rust tables changes this\n"
               "  file and the theorems of Props/C12.lean are re-checked against it.\n\n"
               "  Arithmetic is over `Nat` (truncated subtraction); the Rust code computes in `u32`/`usize`\n"
               "  with the same value whenever no underflow occurs (the boundary conditions guard it).\n-/\n")
    out.append("namespace HC.Gen\n")
    out.append(f"/-- darts per cell of `build_2d_grid` / `build_2d_splitgrid` / `build_3d_grid` -/")
    out.append(f"def squareK : Nat := {ksq}\ndef trisK : Nat := {ktr}\ndef hexK : Nat := {khx}\n")
    out.append(table("squareRows", "`generate_square_beta_values`: rows `[β0, β1, β2]` of the darts `d1 ..` of cell `(ix, iy)`",
                     ["n_x", "n_y"], ["ix", "iy"], sq_lets, sq_rows, sq_nf, 3, 4) + "\n")
    out.append(table("trisRows", "`generate_tris_beta_values`: rows `[β0, β1, β2]` of the darts `d1 ..` of cell `(ix, iy)`",
                     ["n_x", "n_y"], ["ix", "iy"], tr_lets, tr_rows, tr_nf, 3, 6) + "\n")
    out.append(table("hexRows", "`generate_hex_beta_values`: rows `[β0, β1, β2, β3]` of the darts `d1 ..` of cell `(ix, iy, iz)`",
                     ["n_x", "n_y", "n_z"], ["ix", "iy", "iz"], hx_lets, hx_rows, hx_nf, 4, 24) + "\n")

    def place_txt(name, doc, blocks):
        rows = ", ".join(f"({a}, {b}, {c}, {d}, {e})" for a, b, c, d, e in blocks)
        return (f"/-- {doc}: `(loop, local dart, stride, dx, dy)`; loop 0 = every cell (y outer, x inner),\n"
                f"    1 = top row (x ascending), 2 = right column (y ascending), 3 = last cell.  The vertex of dart\n"
                f"    `local + x*stride + y*stride*n_x` receives `origin + ((x+dx)*lx, (y+dy)*ly)`. -/\n"
                f"def {name} : List (Nat × Nat × Nat × Nat × Nat) := [{rows}]\n")
    out.append("/-- `build_2d_grid` / `build_2d_splitgrid` start with\n"
               "    `if n_square_x == 0 || n_square_y == 0 { return map; }` (otherwise a zero count reaches\n"
               "    `n_square_x - 1` on `usize` and panics) -/")
    out.append(f"def squareZeroGuard : Bool := {'true' if sq_guard else 'false'}\n"
               f"def trisZeroGuard : Bool := {'true' if tr_guard else 'false'}\n")
    out.append(place_txt("squarePlace", "vertex placement blocks of `build_2d_grid`", sq_place))
    out.append(place_txt("trisPlace", "vertex placement blocks of `build_2d_splitgrid`", tr_place))

    out.append("/-- index decoding of `generate_hex_offset`: `(p, x, y, z)` -/")
    out.append("def hexOffsetIdx (dart n_x n_y : Nat) : Nat × Nat × Nat × Nat :=")
    for n, v in off_lets:
        out.append(f"  let {n} := {v}")
    out.append("  (p, x, y, z)\n")
    out.append("/-- match arms of `generate_hex_offset`: patterns ↦ `(ax, ay, az)`, the offset is\n"
               "    `((x+ax)*lx, (y+ay)*ly, (z+az)*lz)`; a value of `p` in no arm is `unreachable!()` -/")
    out.append("def hexOffsetArms : List (List Nat × (Nat × Nat × Nat)) :=\n  [ " +
               ",\n    ".join(f"([{', '.join(map(str, ps))}], ({a}, {b}, {c}))" for ps, (a, b, c) in arms) + " ]\n")
    out.append("end HC.Gen\n")
    text = "\n".join(out)
    os.makedirs(os.path.dirname(GRID_OUT), exist_ok=True)
    old = open(GRID_OUT).read() if os.path.exists(GRID_OUT) else None
    if old != text:   # keep the mtime when nothing changed (lake rebuilds on hash anyway)
        open(GRID_OUT, "w").write(text)
    return f"grid: {len(sq_rows)}+{len(tr_rows)}+{len(hx_rows)} table rows, {len(arms)} offset arms, " \
           f"{len(sq_place)}+{len(tr_place)} placement blocks -> {os.path.relpath(GRID_OUT, VERIF)}" \
           + (" (unchanged)" if old == text else " (rewritten)") \
           + (f"; tables kept by semantic equality: {', '.join(kept)}" if kept else "; tables: textual mirror of the source")


# ---------------------------------------------------------------------------------------------
# utils/anchors.rs  (C15, C17)
# ---------------------------------------------------------------------------------------------

ANCH_RS = "/repo/honeycomb-kernels/src/utils/anchors.rs"
ANCH_OUT = os.path.join(VERIF, "lean", "Honeycomb", "Gen", "Anchors.lean")
ANCH_TYPES = ["VertexAnchor", "EdgeAnchor", "FaceAnchor"]
ANCH_POLICY = {"Vertex": 0, "Edge": 1, "Face": 2}


def braced(src, header_rx, what):
    """text between the braces that follow the unique match of `header_rx`"""
    ms = list(re.finditer(header_rx, src))
    need(len(ms) == 1, f"{what}: expected exactly one `{header_rx}`, found {len(ms)}")
    i = src.index("{", ms[0].end() - 1) if src[ms[0].end() - 1] == "{" else src.index("{", ms[0].end())
    depth, j = 0, i
    while j < len(src):
        if src[j] == "{":
            depth += 1
        elif src[j] == "}":
            depth -= 1
            if depth == 0:
                return src[i + 1:j]
        j += 1
    raise Shape(f"unbalanced braces in {what}")


def flat(s):
    return " ".join(s.split())


MERGE_EQ = re.compile(
    r"\(Self::(\w+)\((\w+)\), Self::(\w+)\((\w+)\)\) => \{ if (\w+) == (\w+) \{ Ok\(Self::(\w+)\((\w+)\)\) \} "
    r"else \{ Err\(AttributeError::FailedMerge\( ?std::any::type_name::<Self>\(\), \"[^\"]*\",? ?\)\) \} \},? ?")
MERGE_LOW = re.compile(
    r"\(Self::(\w+)\((\w+)\), _\) \| \(_, Self::(\w+)\((\w+)\)\) => Ok\(Self::(\w+)\((\w+)\)\),? ?")


def anchor_type(src, ty):
    w = ty
    # variants
    ebody = flat(braced(src, r"\bpub enum " + ty + r"\b", f"enum {ty}"))
    variants = []
    for ent in split_top(ebody):
        m = re.fullmatch(r"(\w+)\((\w+)\)", ent)
        need(m, f"{w}: variant shape not recognised: {ent!r}")
        need(m.group(2) in ("NodeIdType", "CurveIdType", "SurfaceIdType", "BodyIdType"), f"{w}: payload type {m.group(2)!r}")
        variants.append(m.group(1))
    need(variants and len(set(variants)) == len(variants), f"{w}: no or repeated variants")
    for idt in ("NodeIdType", "CurveIdType", "SurfaceIdType", "BodyIdType"):
        need(re.search(r"\bpub type " + idt + r" = u32;", src), f"{idt} is not u32")
    # anchor_dim
    ibody = braced(src, r"\bimpl " + ty + r" \{", f"impl {ty}")
    need(len(re.findall(r"\bfn\b", ibody)) == 1, f"{w}: inherent impl has more than `anchor_dim`")
    dbody = flat(fn_body(ibody, "anchor_dim"))
    m = re.fullmatch(r"match self \{ (.*) \}", dbody)
    need(m, f"{w}: anchor_dim is not a single match")
    dims = {}
    for arm in split_top(m.group(1)):
        a = re.fullmatch(r"Self::(\w+)\(_\) => (\d+)", arm)
        need(a, f"{w}: anchor_dim arm not recognised: {arm!r}")
        dims[a.group(1)] = int(a.group(2))
    need(list(dims) == variants, f"{w}: anchor_dim arms {list(dims)} differ from the variants {variants}")
    need(len(set(dims.values())) == len(dims) and all(0 <= v < 4 for v in dims.values()),
         f"{w}: dimensions must be pairwise distinct and < 4 (the code is 4*id + dim)")
    # bind policy
    bbody = flat(braced(src, r"\bimpl AttributeBind for " + ty + r" \{", f"AttributeBind for {ty}"))
    m = re.search(r"const BIND_POLICY: OrbitPolicy = OrbitPolicy::(\w+);", bbody)
    need(m and m.group(1) in ANCH_POLICY, f"{w}: BIND_POLICY not recognised")
    need("type StorageType = AttrSparseVec<Self>;" in bbody, f"{w}: storage is not AttrSparseVec")
    kind = ANCH_POLICY[m.group(1)]
    # AttributeUpdate
    ubody = braced(src, r"\bimpl AttributeUpdate for " + ty + r" \{", f"AttributeUpdate for {ty}")
    fns = re.findall(r"\bfn (\w+)", ubody)
    need(sorted(fns) == ["merge", "merge_incomplete", "split"],
         f"{w}: AttributeUpdate defines {fns}; expected merge, split, merge_incomplete (the *_from_none laws keep the trait default)")
    need(flat(fn_sig(ubody, "merge")) == "(attr1: Self, attr2: Self) -> Result<Self, AttributeError>", f"{w}: merge signature")
    need(flat(fn_sig(ubody, "split")) == "(attr: Self) -> Result<(Self, Self), AttributeError>", f"{w}: split signature")
    need(flat(fn_sig(ubody, "merge_incomplete")) == "(val: Self) -> Result<Self, AttributeError>", f"{w}: merge_incomplete signature")
    need(flat(fn_body(ubody, "split")) == "Ok((attr, attr))", f"{w}: split is not `Ok((attr, attr))`")
    need(flat(fn_body(ubody, "merge_incomplete")) == "Ok(val)", f"{w}: merge_incomplete is not `Ok(val)`")
    mbody = flat(fn_body(ubody, "merge"))
    m = re.fullmatch(r"match \(attr1, attr2\) \{ (.*) \}", mbody)
    need(m, f"{w}: merge is not a single `match (attr1, attr2)`")
    rest, arms = m.group(1) + " ", []
    while rest.strip():
        a = MERGE_EQ.match(rest)
        if a:
            v1, i1, v2, i2, c1, c2, rv, ri = a.groups()
            need(v1 == v2 == rv and v1 in variants, f"{w}: equal-dimension arm mixes variants: {a.group(0)!r}")
            need(i1 != i2 and {c1, c2} == {i1, i2} and ri in (i1, i2), f"{w}: equal-dimension arm identifiers: {a.group(0)!r}")
            arms.append(("eq", v1, i1, i2, ri))
            rest = rest[a.end():]
            continue
        a = MERGE_LOW.match(rest)
        if a:
            v1, i1, v2, i2, rv, ri = a.groups()
            need(v1 == v2 == rv and i1 == i2 == ri and v1 in variants, f"{w}: one-sided arm not recognised: {a.group(0)!r}")
            arms.append(("low", v1, i1))
            rest = rest[a.end():]
            continue
        raise Shape(f"{w}: merge arm not recognised at {rest[:80]!r}")
    need(arms, f"{w}: merge has no arm")
    return {"name": ty, "variants": variants, "dims": dims, "kind": kind, "arms": arms}


def anchor_from(src, types):
    convs = []
    for m in re.finditer(r"\bimpl From<(\w+)> for (\w+) \{", src):
        a, b = m.group(1), m.group(2)
        need(a in types and b in types and a != b, f"From<{a}> for {b}: unknown anchor type")
        body = braced(src, r"\bimpl From<" + a + r"> for " + b + r" \{", f"From<{a}> for {b}")
        need(flat(fn_sig(body, "from")) == f"(value: {a}) -> Self", f"From<{a}> for {b}: signature")
        fb = flat(fn_body(body, "from"))
        mm = re.fullmatch(r"match value \{ (.*) \}", fb)
        need(mm, f"From<{a}> for {b}: body is not a single match")
        arms = []
        for arm in split_top(mm.group(1)):
            x = re.fullmatch(a + r"::(\w+)\((\w+)\) => " + b + r"::(\w+)\((\w+)\)", arm)
            need(x and x.group(2) == x.group(4), f"From<{a}> for {b}: arm not recognised: {arm!r}")
            need(x.group(1) in types[a]["variants"] and x.group(3) in types[b]["variants"], f"From<{a}> for {b}: unknown variant in {arm!r}")
            arms.append((x.group(1), x.group(3)))
        need([v for v, _ in arms] == types[a]["variants"], f"From<{a}> for {b}: arms do not list the variants of {a} in order")
        convs.append((a, b, arms))
    return convs


def gen_anchors():
    src = strip_comments(open(ANCH_RS).read())
    types = {t: anchor_type(src, t) for t in ANCH_TYPES}
    need(len(re.findall(r"\bimpl AttributeUpdate for\b", src)) == len(ANCH_TYPES), "anchors.rs: unexpected AttributeUpdate impl")
    need(len(re.findall(r"\bpub enum\b", src)) == len(ANCH_TYPES), "anchors.rs: unexpected enum")
    convs = anchor_from(src, types)
    out = ["/-\n  GENERATED by /verif/tools/gen_lean.py from\n  /repo/honeycomb-kernels/src/utils/anchors.rs — DO NOT EDIT.\n"
           "  Regenerated by tools/check.py before every build; a change of the Rust `match` arms changes this\n"
           "  file and the theorems of Props/C15.lean (anchor algebra) are re-checked against it.\n\n"
           "  Per anchor type: the variants (identifiers are `u32` in Rust, `Nat` here), `anchor_dim`, the\n"
           "  `AttributeUpdate` laws (`merge` arm by arm in source order — Rust and Lean both take the first\n"
           "  matching arm; `none` = `Err(AttributeError::FailedMerge(..))`; `split = Ok((a, a))`;\n"
           "  `merge_incomplete = Ok(a)`; `merge_from_none` / `split_from_none` are not overridden, i.e. the\n"
           "  trait's default `Err(InsufficientData)`), the orbit kind of `BIND_POLICY`, the `From`\n"
           "  conversions, and the numeric code `4 * id + dim` used by the drivers.\n-/\n",
           "namespace HC.Gen.Anchors\n"]
    for t in ANCH_TYPES:
        d = types[t]
        vs = d["variants"]
        out.append(f"/-- `enum {t}` -/\ninductive {t} where")
        for v in vs:
            out.append(f"  | {v} (id : Nat)")
        out.append("  deriving DecidableEq, Repr, Inhabited\n")
        out.append(f"namespace {t}\n")
        out.append("/-- `anchor_dim` -/\ndef dim : " + t + " → Nat")
        for v in vs:
            out.append(f"  | .{v} _ => {d['dims'][v]}")
        out.append("\n/-- the identifier carried by the anchor -/\ndef id : " + t + " → Nat")
        for v in vs:
            out.append(f"  | .{v} i => i")
        out.append(f"\n/-- orbit kind of `BIND_POLICY` (0 vertex, 1 edge, 2 face) -/\ndef kind : Nat := {d['kind']}\n")
        out.append("/-- `AttributeUpdate::merge`; `none` = `Err(FailedMerge)` -/\ndef merge : " + t + " → " + t + " → Option " + t)
        for arm in d["arms"]:
            if arm[0] == "eq":
                _, v, i1, i2, ri = arm
                out.append(f"  | .{v} {i1}, .{v} {i2} => if {i1} = {i2} then some (.{v} {ri}) else none")
            else:
                _, v, i = arm
                out.append(f"  | .{v} {i}, _ => some (.{v} {i})")
                out.append(f"  | _, .{v} {i} => some (.{v} {i})")
        out.append("\n/-- `AttributeUpdate::split` = `Ok((attr, attr))` -/\ndef split (a : " + t + ") : Option (" + t + " × " + t + ") := some (a, a)")
        out.append("/-- `AttributeUpdate::merge_incomplete` = `Ok(val)` -/\ndef mergeIncomplete (a : " + t + ") : Option " + t + " := some a")
        out.append("/-- `merge_from_none` / `split_from_none`: trait defaults (`Err(InsufficientData)`) -/")
        out.append("def mergeFromNone : Option " + t + " := none\ndef splitFromNone : Option (" + t + " × " + t + ") := none\n")
        out.append("/-- driver code of an anchor: `4 * id + dim` -/\ndef code (a : " + t + ") : Nat := 4 * a.id + a.dim\n")
        out.append("def ofCode (c : Nat) : Option " + t + " :=\n  match c % 4 with")
        for v in sorted(vs, key=lambda v: d["dims"][v]):
            out.append(f"  | {d['dims'][v]} => some (.{v} (c / 4))")
        out.append("  | _ => none")
        out.append(f"\nend {t}\n")
    for a, b, arms in convs:
        out.append(f"/-- `impl From<{a}> for {b}` -/\ndef {a}.to{b} : {a} → {b}")
        for v, wv in arms:
            out.append(f"  | .{v} i => .{wv} i")
        out.append("")
    out.append("end HC.Gen.Anchors\n")
    text = "\n".join(out)
    os.makedirs(os.path.dirname(ANCH_OUT), exist_ok=True)
    old = open(ANCH_OUT).read() if os.path.exists(ANCH_OUT) else None
    if old != text:
        open(ANCH_OUT, "w").write(text)
    return f"anchors: {sum(len(types[t]['arms']) for t in ANCH_TYPES)} merge arms over {len(ANCH_TYPES)} anchor types, " \
           f"{len(convs)} From conversions -> {os.path.relpath(ANCH_OUT, VERIF)}" \
           + (" (unchanged)" if old == text else " (rewritten)")


GENERATORS = {"grid": gen_grid, "anchors": gen_anchors}


# ---------------------------------------------------------------------------------------------
# descriptor logic of builder/grid.rs: parse_2d / parse_3d, check_parameters!  (C12; Props/C12Gen.lean)
# ---------------------------------------------------------------------------------------------

GRIDDESC_RS = os.environ.get("GEN_LEAN_GRIDDESC_RS", "/repo/honeycomb-core/src/cmap/builder/grid.rs")
GRIDDESC_OUT = os.environ.get("GEN_LEAN_GRIDDESC_OUT", os.path.join(VERIF, "lean", "Honeycomb", "Gen", "GridDesc.lean"))
GD_FIELDS = ["n_cells", "len_per_cell", "lens"]


def gd_balanced(s, i, op, cl):
    """index just after the bracket closing the one at s[i]"""
    need(i < len(s) and s[i] == op, f"griddesc: expected {op!r} at ...{s[i:i + 30]!r}")
    depth = 0
    for j in range(i, len(s)):
        if s[j] in "([{":
            depth += 1
        elif s[j] in ")]}":
            depth -= 1
            if depth == 0:
                need(s[j] == cl, f"griddesc: bracket mismatch in {s[i:j + 1]!r}")
                return j + 1
    raise Shape("griddesc: unbalanced brackets")


def gd_split_div(s):
    parts, depth, cur = [], 0, []
    for ch in s:
        if ch in "([{":
            depth += 1
        elif ch in ")]}":
            depth -= 1
        if ch == "/" and depth == 0:
            parts.append("".join(cur))
            cur = []
        else:
            cur.append(ch)
    parts.append("".join(cur))
    return parts


def gd_expr(s, env, where):
    """Rust expression -> Lean `GdExpr` text.  env: identifier -> (field, component)"""
    s = s.strip()
    need(s, f"{where}: empty expression")
    parts = gd_split_div(s)
    if len(parts) > 1:
        need(len(parts) == 2, f"{where}: chained division {s!r}")
        return f"(.div {gd_expr(parts[0], env, where)} {gd_expr(parts[1], env, where)})"

    def primary(r):
        r = r.strip()
        return bool(re.fullmatch(r"[A-Za-z_]\w*", r)) or (r.startswith("(") and gd_balanced(r, 0, "(", ")") == len(r))
    m = re.fullmatch(r"(.*)\.to_usize\(\)\.unwrap\(\)", s)
    if m:
        need(primary(m.group(1)) or m.group(1).endswith(".ceil()"), f"{where}: receiver of to_usize in {s!r}")
        return f"(.toUsize {gd_expr(m.group(1), env, where)})"
    m = re.fullmatch(r"(.*)\.ceil\(\)", s)
    if m:
        need(primary(m.group(1)), f"{where}: receiver of ceil in {s!r}")
        return f"(.ceil {gd_expr(m.group(1), env, where)})"
    m = re.fullmatch(r"T::from(\(.*\))\.unwrap\(\)", s)
    if m:
        need(gd_balanced(m.group(1), 0, "(", ")") == len(m.group(1)), f"{where}: T::from argument in {s!r}")
        return f"(.cast {gd_expr(m.group(1)[1:-1], env, where)})"
    if s.startswith("("):
        need(gd_balanced(s, 0, "(", ")") == len(s), f"{where}: expression {s!r}")
        return gd_expr(s[1:-1], env, where)
    m = re.fullmatch(r"self\.origin\[(\d+)\]", s)
    if m:
        return f"(.fld 3 {m.group(1)})"
    need(re.fullmatch(r"[A-Za-z_]\w*", s), f"{where}: expression {s!r} not recognised")
    need(s in env, f"{where}: identifier {s!r} is not bound by the pattern of this arm")
    return f"(.fld {env[s][0]} {env[s][1]})"


def gd_parse_fn(src, name, dim, variant):
    where = f"griddesc[{name}]"
    sig = fn_sig(src, name)
    need(re.fullmatch(r"\(self\) -> Result<\(Vertex%d<T>, \[usize; %d\], \[T; %d\]\), BuilderError>" % (dim, dim, dim), sig),
         f"{where}: signature {sig!r}")
    body = " ".join(fn_body(src, name).split())
    head = "match (" + ", ".join("self." + f for f in GD_FIELDS) + ") {"
    need(body.startswith(head) and body.endswith("}"), f"{where}: body is not one match on (n_cells, len_per_cell, lens)")
    s = body[len(head):-1].strip()
    arms = []
    i = 0
    while i < len(s):
        j = gd_balanced(s, i, "(", ")")
        pat = split_top(s[i + 1:j - 1])
        need(len(pat) == 3, f"{where}: pattern {s[i:j]!r}")
        m = re.match(r"\s*=>\s*", s[j:])
        need(m, f"{where}: `=>` expected after {s[i:j]!r}")
        k = j + m.end()
        if s[k] == "{":
            e = gd_balanced(s, k, "{", "}")
            rhs, block = s[k + 1:e - 1].strip(), True
            i = e
        else:
            e = k
            depth = 0
            while e < len(s) and not (s[e] == "," and depth == 0):
                depth += s[e] in "([{"
                depth -= s[e] in ")]}"
                e += 1
            rhs, block = s[k:e].strip(), False
            i = e
        m = re.match(r"\s*,?\s*", s[i:])
        i += m.end()
        codes, env, anyname = [], {}, {}
        for f, p in enumerate(pat):
            if p == "None":
                codes.append(0)
            elif p == "_":
                codes.append(3)
            elif re.fullmatch(r"[a-z_]\w*", p):
                codes.append(2)
                anyname[p] = f
            else:
                m = re.fullmatch(r"Some\(\[(.*)\]\)", p)
                need(m, f"{where}: pattern component {p!r}")
                names = split_top(m.group(1))
                need(len(names) == dim and all(re.fullmatch(r"[a-z_]\w*", n) and n != "_" for n in names),
                     f"{where}: pattern component {p!r} does not bind {dim} names")
                for c, n in enumerate(names):
                    need(n not in env, f"{where}: name {n!r} bound twice")
                    env[n] = (f, c)
                codes.append(1)
        m = re.fullmatch(r"Err\(BuilderError::(\w+)\)", rhs)
        if m:
            arms.append((codes, [], None, m.group(1)))
            continue
        need(block, f"{where}: arm body {rhs!r}")
        rhs = rhs.replace("#[rustfmt::skip]", " ")
        rhs = " ".join(rhs.split())
        m = re.match(r'if (\w+)\.is_some\(\) \{ eprintln!\( ?"[^"]*" ?\); \} ?', rhs)
        if m:   # a warning on stderr, no effect on the result; only allowed on a field bound as a whole
            need(m.group(1) in anyname, f"{where}: is_some() test on {m.group(1)!r}")
            rhs = rhs[m.end():]
        checks = []
        while True:
            m = re.match(r'check_parameters!\((\w+), "([^"\\]*)"\); ?', rhs)
            if not m:
                break
            need(m.group(1) in env, f"{where}: check_parameters! on unbound {m.group(1)!r}")
            need(env[m.group(1)][0] in (1, 2), f"{where}: check_parameters! on a cell count")
            checks.append((env[m.group(1)][0], env[m.group(1)][1], m.group(2)))
            rhs = rhs[m.end():]
        need(rhs.startswith("Ok((") and rhs.endswith("))") and gd_balanced(rhs, 2, "(", ")") == len(rhs),
             f"{where}: arm does not end with Ok((origin, n, l)): {rhs!r}")
        comps = split_top(rhs[4:-2])
        need(len(comps) == 3, f"{where}: Ok tuple {rhs!r}")
        m = re.fullmatch(r"Vertex%d\((.*)\)" % dim, comps[0])
        need(m, f"{where}: origin {comps[0]!r}")
        res = [split_top(m.group(1))]
        for c in comps[1:]:
            need(c.startswith("[") and gd_balanced(c, 0, "[", "]") == len(c), f"{where}: array {c!r}")
            res.append(split_top(c[1:-1]))
        need(all(len(r) == dim for r in res), f"{where}: Ok tuple components do not have {dim} entries")
        res = [[gd_expr(x, env, where) for x in r] for r in res]
        arms.append((codes, checks, res, variant))
    return arms


def gen_griddesc():
    src = strip_comments(open(GRIDDESC_RS).read())
    flat = " ".join(src.split())
    need(len(re.findall(r"macro_rules! check_parameters\b", flat)) == 1, "griddesc: macro check_parameters! not found exactly once")
    m = re.search(r"macro_rules! check_parameters \{ \(\$id: ident, \$msg: expr\) => \{ if ([^{}]*) \{ return Err\(BuilderError::(\w+)\(\$msg\)\); \} \}; \}", flat)
    need(m, "griddesc: macro check_parameters! not recognised")
    variant = m.group(2)
    terms = [t.strip() for t in re.split(r"\|\|?", m.group(1))]
    known = {"$id.is_sign_negative()": "neg", "$id.is_zero()": "zero"}
    need(all(t in known for t in terms) and len(set(terms)) == len(terms), f"griddesc: check_parameters! condition {m.group(1)!r}")
    flags = {known[t] for t in terms}
    need(len(re.findall(r"check_parameters!", flat)) == sum(len(re.findall(r"check_parameters!", fn_body(src, f))) for f in ("parse_2d", "parse_3d")),
         "griddesc: check_parameters! used outside parse_2d / parse_3d")
    # the setters and the default: every optional field starts as None and is set to Some(argument)
    for f in GD_FIELDS:
        need(re.search(r"fn %s\(mut self, %s: \[\w+; D\]\) -> Self \{ self\.%s = Some\(%s\); self \}" % (f, f, f, f), flat),
             f"griddesc: setter {f} not recognised")
    need(re.search(r"fn origin\(mut self, origin: \[T; D\]\) -> Self \{ self\.origin = origin; self \}", flat), "griddesc: setter origin not recognised")
    need(re.search(r"fn split_cells\(mut self, split: bool\) -> Self \{ self\.split_cells = split; self \}", flat), "griddesc: setter split_cells not recognised")
    need(re.search(r"fn default\(\) -> Self \{ Self \{ origin: \[T::zero\(\); D\], n_cells: None, len_per_cell: None, lens: None, split_cells: false, \} \}", flat),
         "griddesc: Default impl not recognised")
    a2 = gd_parse_fn(src, "parse_2d", 2, variant)
    a3 = gd_parse_fn(src, "parse_3d", 3, variant)

    def arm_txt(a):
        codes, checks, res, var = a
        ch = ", ".join(f'({f}, {c}, "{msg}")' for f, c, msg in checks)
        if res is None:
            r = "none"
        else:
            r = "some (" + ", ".join("[" + ", ".join(x) + "]" for x in res) + ")"
        return f'{{ pat := [{", ".join(map(str, codes))}], checks := [{ch}], res := {r}, variant := "{var}" }}'

    out = ["/-\n  GENERATED by /verif/tools/gen_lean.py (generator `griddesc`) from /repo/honeycomb-core/src/cmap/builder/grid.rs — DO NOT EDIT.\n"
           "  The descriptor logic: `GridDescriptor::<2, T>::parse_2d`, `GridDescriptor::<3, T>::parse_3d` and the macro `check_parameters!`.\n\n"
           "  Fields: 0 = n_cells, 1 = len_per_cell, 2 = lens, 3 = origin (never optional).  An arm of `match (self.n_cells, self.len_per_cell,\n"
           "  self.lens)` is: `pat`, one code per matched field (0 = `None`, 1 = `Some([..])` with every component bound, 2 = bound as a whole\n"
           "  (matches anything), 3 = `_`); `checks`, the `check_parameters!(id, msg)` calls in source order as (field, component, message);\n"
           "  `res`, the three arrays of `Ok((VertexD(..), [..], [..]))` as expression trees (`none`: the arm is `Err(BuilderError::variant)`);\n"
           "  `variant`: the error variant of the macro (arms with checks) or of the arm itself.  Arms are tried in source order.\n"
           "  `gdCheckNeg` / `gdCheckZero`: the disjuncts `$id.is_sign_negative()` / `$id.is_zero()` of the macro's condition.\n"
           "  Props/C12Gen.lean gives the data its meaning and proves it EQUAL to parse2 / parse3 of Model/Grid.lean.\n-/\n",
           "namespace HC.Gen\n",
           "/-- expression trees: `fld f i` = component `i` of field `f`; `cast` = `T::from(_).unwrap()`; `div` = `/`; `ceil` = `.ceil()`;\n"
           "    `toUsize` = `.to_usize().unwrap()` -/",
           "inductive GdExpr where\n  | fld (f i : Nat)\n  | cast (e : GdExpr)\n  | div (a b : GdExpr)\n  | ceil (e : GdExpr)\n  | toUsize (e : GdExpr)\n  deriving Repr, DecidableEq\n",
           "structure GdArm where\n  pat : List Nat\n  checks : List (Nat × Nat × String)\n  res : Option (List GdExpr × List GdExpr × List GdExpr)\n  variant : String\n  deriving Repr, DecidableEq\n",
           f"def gdCheckNeg : Bool := {'true' if 'neg' in flags else 'false'}",
           f"def gdCheckZero : Bool := {'true' if 'zero' in flags else 'false'}\n"]
    for nm, arms in (("gdParse2", a2), ("gdParse3", a3)):
        out.append(f"def {nm} : List GdArm :=\n  [ " + ",\n    ".join(arm_txt(a) for a in arms) + " ]\n")
    out.append("end HC.Gen\n")
    txt = "\n".join(out)
    os.makedirs(os.path.dirname(GRIDDESC_OUT), exist_ok=True)
    old = open(GRIDDESC_OUT).read() if os.path.exists(GRIDDESC_OUT) else None
    if old != txt:
        open(GRIDDESC_OUT, "w").write(txt)
    return f"griddesc: {len(a2)}+{len(a3)} arms, {sum(len(a[1]) for a in a2)}+{sum(len(a[1]) for a in a3)} checks -> " \
           f"{os.path.relpath(GRIDDESC_OUT, VERIF)}" + (" (unchanged)" if old == txt else " (rewritten)")


GENERATORS["griddesc"] = gen_griddesc


# ---------------------------------------------------------------------------------------------
# grisubal step 1 (C16): the case analysis of `generate_intersection_data` and the four `*_intersec!` macros
# (honeycomb-kernels/src/grisubal/routines/compute_intersecs.rs) -> lean/Honeycomb/Gen/GCross.lean.
# The function is matched TOKEN BY TOKEN against the template below (layout and comments are free, everything else
# is fixed); the holes are what the generated file records: «C:..» a cell size (cx | cy), «M:..» a macro name,
# «D:..» `d_base` or `d_base + k`, «I:..» a (signed) integer of a pattern, «L:..» a sum of `*_base`, the offset
# variable and integers, «O:..» a comparison operator (< | <=).  The macros' formulas are parsed into trees.
# ---------------------------------------------------------------------------------------------

GCROSS_RS = os.environ.get("GEN_LEAN_GCROSS_RS", "/repo/honeycomb-kernels/src/grisubal/routines/compute_intersecs.rs")
GCROSS_OUT = os.environ.get("GEN_LEAN_GCROSS_OUT", os.path.join(VERIF, "lean", "Honeycomb", "Gen", "GCross.lean"))

GCROSS_TEMPLATE = r"""
pub(crate) fn generate_intersection_data<T: CoordsFloat>(
    cmap: &CMap2<T>,
    geometry: &Geometry2<T>,
    [nx, _ny]: [usize; 2],
    [cx, cy]: [T; 2],
    origin: Vertex2<T>,
) -> (Segments, Vec<(DartIdType, T)>) {
    let tmp: Vec<_> = geometry
        .segments
        .iter()
        .map(|&(v1_id, v2_id)| {
            let Vertex2(ox, oy) = origin;
            let (v1, v2) = (&geometry.vertices[v1_id], &geometry.vertices[v2_id]);
            let (c1, c2) = (
                GridCellId(
                    ((v1.x() - ox) / «C:cell1x»).floor().to_usize().unwrap(),
                    ((v1.y() - oy) / «C:cell1y»).floor().to_usize().unwrap(),
                ),
                GridCellId(
                    ((v2.x() - ox) / «C:cell2x»).floor().to_usize().unwrap(),
                    ((v2.y() - oy) / «C:cell2y»).floor().to_usize().unwrap(),
                ),
            );
            (
                GridCellId::l1_dist(&c1, &c2),
                GridCellId::offset(&c1, &c2),
                v1,
                v2,
                v1_id,
                v2_id,
                c1,
            )
        })
        .collect();
    let n_intersec: usize = tmp.iter().map(|(dist, _, _, _, _, _, _)| dist).sum();
    let prefix_sum = tmp
        .iter()
        .map(|(dist, _, _, _, _, _, _)| dist)
        .scan(0, |state, &dist| {
            *state += dist;
            Some(*state - dist)
        });
    let mut intersection_metadata = vec![(NULL_DART_ID, T::nan()); n_intersec];
    let new_segments: Segments = tmp.iter().zip(prefix_sum).flat_map(|(&(dist, diff, v1, v2, v1_id, v2_id, c1), start)| {
        let transform = Box::new(|seg: &[GeometryVertex]| {
            assert_eq!(seg.len(), 2);
            (seg[0].clone(), seg[1].clone())
        });
        match dist {
            0 => {
                vec![(make_geometry_vertex!(geometry, v1_id), make_geometry_vertex!(geometry, v2_id))]
            }
            1 => {
                let d_base = (1 + 4 * c1.0 + nx * 4 * c1.1) as DartIdType;
                let dart_id = match diff {
                    («I:u0i», «I:u0j») => «D:u0d»,
                    («I:u1i», «I:u1j») => «D:u1d»,
                    («I:u2i», «I:u2j») => «D:u2d»,
                    («I:u3i», «I:u3j») => «D:u3d»,
                    _ => unreachable!(),
                };
                let v_dart = cmap
                    .force_read_vertex(cmap.vertex_id(dart_id))
                    .expect("E: found a topological vertex with no associated coordinates");
                let (_s, t) = match diff {
                    («I:w0i», «I:w0j») => «M:w0m»!(v1, v2, v_dart, «C:w0c»),
                    («I:w1i», «I:w1j») => «M:w1m»!(v1, v2, v_dart, «C:w1c»),
                    («I:w2i», «I:w2j») => «M:w2m»!(v1, v2, v_dart, «C:w2c»),
                    («I:w3i», «I:w3j») => «M:w3m»!(v1, v2, v_dart, «C:w3c»),
                    _ => unreachable!(),
                };
                let id = start;
                intersection_metadata[id] = (dart_id, t);
                vec![
                    (make_geometry_vertex!(geometry, v1_id), GeometryVertex::Intersec(id)),
                    (GeometryVertex::Intersec(id), make_geometry_vertex!(geometry, v2_id)),
                ]
            }
            _ => {
                let i_ids = start..start+dist;
                match diff {
                    (i, 0) => {
                        let i_base = c1.0 as isize;
                        let tmp =
                            (min(«L:h_lo1», «L:h_lo2»)..max(«L:h_hi1», «L:h_hi2»)).zip(i_ids).map(|(x, id)| {
                                let d_base =
                                    (1 + 4 * x + (nx * 4 * c1.1) as isize) as DartIdType;
                                let dart_id = if i.is_positive() { «D:h_pd» } else { «D:h_nd» };
                                let v_dart = cmap.force_read_vertex(cmap.vertex_id(dart_id))
                                    .expect("E: found a topological vertex with no associated coordinates");
                                let (_s, t) = if i.is_positive() {
                                    «M:h_pm»!(v1, v2, v_dart, «C:h_pc»)
                                } else {
                                    «M:h_nm»!(v1, v2, v_dart, «C:h_nc»)
                                };
                                intersection_metadata[id] = (dart_id, t);
                                GeometryVertex::Intersec(id)
                            });
                        let mut vs: VecDeque<GeometryVertex> = if i > 0 {
                            tmp.collect()
                        } else {
                            tmp.rev().collect()
                        };
                        vs.push_front(make_geometry_vertex!(geometry, v1_id));
                        vs.push_back(make_geometry_vertex!(geometry, v2_id));
                        vs.make_contiguous()
                            .windows(2)
                            .map(transform)
                            .collect::<Vec<_>>()
                    }
                    (0, j) => {
                        let j_base = c1.1 as isize;
                        let tmp =
                            (min(«L:v_lo1», «L:v_lo2»)..max(«L:v_hi1», «L:v_hi2»)).zip(i_ids).map(|(y, id)| {
                                let d_base = (1 + 4 * c1.0 + nx * 4 * y as usize) as DartIdType;
                                let dart_id = if j.is_positive() { «D:v_pd» } else { «D:v_nd» };
                                let v_dart = cmap.force_read_vertex(cmap.vertex_id(dart_id))
                                    .expect("E: found a topological vertex with no associated coordinates");
                                let (_s, t) = if j.is_positive() {
                                    «M:v_pm»!(v1, v2, v_dart, «C:v_pc»)
                                } else {
                                    «M:v_nm»!(v1, v2, v_dart, «C:v_nc»)
                                };
                                intersection_metadata[id] = (dart_id, t);
                                GeometryVertex::Intersec(id)
                            });
                        let mut vs: VecDeque<GeometryVertex> = if j > 0 {
                            tmp.collect()
                        } else {
                            tmp.rev().collect()
                        };
                        vs.push_front(make_geometry_vertex!(geometry, v1_id));
                        vs.push_back(make_geometry_vertex!(geometry, v2_id));
                        vs.make_contiguous()
                            .windows(2)
                            .map(transform)
                            .collect::<Vec<_>>()
                    }
                    (i, j) => {
                        let i_base = c1.0 as isize;
                        let j_base = c1.1 as isize;
                        let i_cell_range = min(«L:dx_lo1», «L:dx_lo2»)..=max(«L:dx_hi1», «L:dx_hi2»);
                        let j_cell_range = min(«L:dy_lo1», «L:dy_lo2»)..=max(«L:dy_hi1», «L:dy_hi2»);
                        let subgrid_cells =
                            i_cell_range.flat_map(|x| j_cell_range.clone().map(move |y| (x, y)));
                        let mut intersec_data: Vec<(T, T, DartIdType)> = subgrid_cells
                            .map(|(x, y)| {
                                let d_base = (1 + 4 * x + nx as isize * 4 * y) as DartIdType;
                                let vdart_id = if i.is_positive() { «D:dv_pd» } else { «D:dv_nd» };
                                let hdart_id = if j.is_positive() { «D:dh_pd» } else { «D:dh_nd» };
                                let v_vdart = cmap.force_read_vertex(cmap.vertex_id(vdart_id))
                                    .expect("E: found a topological vertex with no associated coordinates");
                                let v_hdart = cmap.force_read_vertex(cmap.vertex_id(hdart_id))
                                    .expect("E: found a topological vertex with no associated coordinates");
                                let v_coeffs = if i.is_positive() {
                                    «M:dv_pm»!(v1, v2, v_vdart, «C:dv_pc»)
                                } else {
                                    «M:dv_nm»!(v1, v2, v_vdart, «C:dv_nc»)
                                };
                                let h_coeffs = if j.is_positive() {
                                    «M:dh_pm»!(v1, v2, v_hdart, «C:dh_pc»)
                                } else {
                                    «M:dh_nm»!(v1, v2, v_hdart, «C:dh_nc»)
                                };
                                (hdart_id, vdart_id, v_coeffs, h_coeffs)
                            })
                            .filter_map(|(hdart_id, vdart_id, (vs, vt), (hs, ht))| {
                                let zero = T::zero();
                                let one = T::one();
                                match (i.is_positive(), j.is_positive()) {
                                    (true, true) | (false, false) => {
                                        if ((vt - one).abs() «O:k0» T::epsilon())
                                            && (ht.abs() «O:k1» T::epsilon())
                                        {
                                            return Some((hs, zero, hdart_id));
                                        }
                                    }
                                    (false, true) | (true, false) => {
                                        if (vt.abs() «O:k2» T::epsilon())
                                            && ((ht - one).abs() «O:k3» T::epsilon())
                                        {
                                            return Some((vs, zero, vdart_id));
                                        }
                                    }
                                }
                                if (T::epsilon() «O:a0» vs)
                                    & (vs «O:a1» one - T::epsilon())
                                    & (T::epsilon() «O:a2» vt)
                                    & (vt «O:a3» one - T::epsilon())
                                {
                                    return Some((vs, vt, vdart_id));
                                }
                                if (T::epsilon() «O:b0» hs)
                                    & (hs «O:b1» one - T::epsilon())
                                    & (T::epsilon() «O:b2» ht)
                                    & (ht «O:b3» one - T::epsilon())
                                {
                                    return Some((hs, ht, hdart_id));
                                }
                                None
                            })
                            .collect();
                        intersec_data.retain(|(s, _, _)| (T::zero() «O:r0» *s) && (*s «O:r1» T::one()));
                        intersec_data.sort_by(|(s1, _, _), (s2, _, _)| s1.partial_cmp(s2)
                            .expect("E: unreachable"));
                        let mut vs = vec![make_geometry_vertex!(geometry, v1_id)];
                        vs.extend(intersec_data.iter_mut().zip(i_ids).map(|((_, t, dart_id), id)| {
                            if t.is_zero() {
                                let dart_in = *dart_id;
                                GeometryVertex::IntersecCorner(dart_in)
                            } else {
                                intersection_metadata[id] = (*dart_id, *t);
                                GeometryVertex::Intersec(id)
                            }
                        }));
                        vs.push(make_geometry_vertex!(geometry, v2_id));
                        vs.windows(2)
                            .map(transform)
                            .collect::<Vec<_>>()
                    }
                }
            }
        }
    }).collect();
    (new_segments, intersection_metadata)
}
"""

GX_TOKEN = re.compile(r"«[^»]*»|[A-Za-z_][A-Za-z_0-9]*|\d+|\.\.=|\.\.|=>|->|::|&&|\|\||<=|>=|==|!=|\S")
GX_HOLES = {"C": r"cx|cy", "M": r"\w+", "D": r"d_base(?: \+ \d+)?", "I": r"(?:- )?\d+", "L": r"[a-z_0-9]+(?: \+ [a-z_0-9]+)*", "O": r"<=|<"}
GX_MACROS = ["left_intersec", "right_intersec", "down_intersec", "up_intersec"]


def gx_tokens(s):
    return GX_TOKEN.findall(s)


def gx_macro_expr(toks, where):
    """tokens of a macro formula -> Lean term of GxE (grammar: - * / and parentheses over $v.x() $v.y() s $c)"""
    pos = [0]

    def peek():
        return toks[pos[0]] if pos[0] < len(toks) else None

    def eat(t=None):
        need(pos[0] < len(toks) and (t is None or toks[pos[0]] == t), f"{where}: unexpected token at {' '.join(toks[pos[0]:pos[0] + 6])!r}")
        pos[0] += 1
        return toks[pos[0] - 1]

    def atom():
        if peek() == "(":
            eat("(")
            e = sums()
            eat(")")
            return e
        if peek() == "s":
            eat()
            return ".s"
        eat("$")
        v = eat()
        if v == "c":
            return ".c"
        need(v in ("va", "vb", "vdart"), f"{where}: unknown macro variable ${v}")
        eat(".")
        ax = eat()
        need(ax in ("x", "y"), f"{where}: unknown accessor .{ax}()")
        eat("(")
        eat(")")
        return "." + {"va": "va", "vb": "vb", "vdart": "vd"}[v] + ax

    def prods():
        e = atom()
        while peek() in ("*", "/"):
            op = eat()
            e = f"({'.mul' if op == '*' else '.div'} {e} {atom()})"
        return e

    def sums():
        e = prods()
        while peek() == "-":
            eat()
            e = f"(.sub {e} {prods()})"
        return e

    e = sums()
    need(pos[0] == len(toks), f"{where}: trailing tokens {' '.join(toks[pos[0]:])!r}")
    return e


def gx_lin(txt, base, off, where):
    b = o = k = 0
    for t in txt.split(" + "):
        if t == base:
            b += 1
        elif t == off:
            o += 1
        else:
            need(t.isdigit(), f"{where}: term {t!r} in range bound {txt!r}")
            k += int(t)
    return f"⟨{b}, {o}, {k}⟩"


def gen_gcross():
    src = strip_comments(open(GCROSS_RS).read())
    src = re.sub(r"#\[[^\]]*\]", " ", src)
    text = " ".join(gx_tokens(src))
    # the macros
    names = re.findall(r"macro_rules ! (\w+) \{", text)
    need(sorted(n for n in names if n.endswith("_intersec")) == sorted(GX_MACROS) and
         sorted(names) == sorted(GX_MACROS + ["make_geometry_vertex"]), f"gcross: macros {names}")
    order = [n for n in names if n.endswith("_intersec")]
    macros = []
    for n in order:
        m = re.search(r"macro_rules ! %s \{ \( \$ va : ident , \$ vb : ident , \$ vdart : ident , \$ (cx|cy) : ident \) => "
                      r"\{ \{ let s = ([^;{}]*) ; \( s , ([^;{}]*) \) \} \} ; \}" % n, text)
        need(m, f"gcross: macro {n}! not recognised")
        cname = m.group(1)

        def tr(e, allow_s):
            toks = ["c" if t == cname else t for t in e.split(" ")]
            need(allow_s or "s" not in toks, f"gcross: macro {n}!: `s` used in its own definition")
            return gx_macro_expr(toks, f"gcross[{n}]")
        macros.append((n, tr(m.group(2), False), tr(m.group(3), True)))
    # the function
    i0 = text.find("pub ( crate ) fn generate_intersection_data")
    need(i0 >= 0 and text.count("fn generate_intersection_data") == 1, "gcross: fn generate_intersection_data not found exactly once")
    rx, seen = [], []
    for t in gx_tokens(GCROSS_TEMPLATE):
        if t.startswith("«"):
            kind, nm = t[1:-1].split(":")
            seen.append(nm)
            rx.append(f"(?P<{nm}>{GX_HOLES[kind]})")
        else:
            rx.append(re.escape(t))
    m = re.fullmatch(" ".join(rx), text[i0:])
    if not m:
        # locate the first token that differs, for the message
        lo, hi = 0, len(rx)
        while lo < hi:
            mid = (lo + hi + 1) // 2
            if re.match(" ".join(rx[:mid]), text[i0:]):
                lo = mid
            else:
                hi = mid - 1
        raise Shape(f"gcross: generate_intersection_data departs from the template after `{' '.join(gx_tokens(GCROSS_TEMPLATE)[max(0, lo - 8):lo])}` "
                    f"(expected `{' '.join(gx_tokens(GCROSS_TEMPLATE)[lo:lo + 4])}`)")
    h = m.groupdict()

    def mac(k):
        need(h[k] in order, f"gcross: unknown macro {h[k]}! ({k})")
        return order.index(h[k])

    def off(k):
        return int(h[k].split(" + ")[1]) if "+" in h[k] else 0

    def side(p):
        return f"⟨{off(p + 'd')}, {mac(p + 'm')}, .{h[p + 'c']}⟩"

    def ival(k):
        return int(h[k].replace(" ", ""))

    def cmp_(k):
        return ".lt" if h[k] == "<" else ".le"

    def rng(p, base, o):
        return "⟨" + ", ".join(gx_lin(h[f"{p}_{b}"], base, o, f"gcross[{p}]") for b in ("lo1", "lo2", "hi1", "hi2")) + "⟩"

    darts = {(ival(f"u{k}i"), ival(f"u{k}j")): k for k in range(4)}
    calls = {(ival(f"w{k}i"), ival(f"w{k}j")): k for k in range(4)}
    need(len(darts) == 4 and set(darts) == set(calls), f"gcross: the two `match diff` of the neighbour case have different patterns: {sorted(darts)} / {sorted(calls)}")
    units = []
    for (di, dj), k in sorted(darts.items(), key=lambda kv: kv[1]):
        w = calls[(di, dj)]
        units.append(f"⟨{di}, {dj}, ⟨{off(f'u{k}d')}, {mac(f'w{w}m')}, .{h[f'w{w}c']}⟩⟩")
    out = ["/-\n  GENERATED by /verif/tools/gen_lean.py (generator `gcross`) from /repo/honeycomb-kernels/src/grisubal/routines/compute_intersecs.rs — DO NOT EDIT.\n"
           "  Step 1 of grisubal: the case analysis of `generate_intersection_data` and the macros `left_/right_/down_/up_intersec!`.\n\n"
           "  `gxMacros`: the macros in source order; `s`, `t` = the two components of the pair they evaluate to, as expression trees over the\n"
           "  coordinates of `$va`, `$vb`, `$vdart`, the macro's 4th argument (`c`) and the local `s`.\n"
           "  A `GxSide` is one use of a macro: `off` = the dart is `d_base + off` (and `$vdart` is that dart's vertex), `mac` = index in `gxMacros`,\n"
           "  `cell` = the cell size passed as 4th argument.  `gxCellDiv`: the divisors of the four cell coordinates (v1.x, v1.y, v2.x, v2.y).\n"
           "  `gxUnit`: the arms of the two `match diff` of the neighbouring-cells case (`dist == 1`), pattern `(di, dj)`, source order.\n"
           "  `gxRow` / `gxCol`: the arms `(i, 0)` / `(0, j)` of the far case: the range `min(lo1, lo2)..max(hi1, hi2)` (each bound = b·base + o·offset + k),\n"
           "  the side used when the offset `is_positive()` and otherwise.  `gxDiag`: the arm `(i, j)`: the two INCLUSIVE ranges of the sub-grid, the four\n"
           "  sides, the comparison operators of the corner tests (vt-1, ht / vt, ht-1), of the vertical and horizontal acceptance tests\n"
           "  (eps ? s, s ? 1-eps, eps ? t, t ? 1-eps) and of `retain` (0 ? s, s ? 1).  Everything else of the function is fixed by the template.\n"
           "  Props/C16Gen.lean gives the data its meaning and proves it equal to Model/Grisubal.lean.\n-/\n",
           "namespace HC.Gen\n",
           "inductive GxE where\n  | vax | vay | vbx | vby | vdx | vdy | s | c\n  | sub (a b : GxE)\n  | mul (a b : GxE)\n  | div (a b : GxE)\n  deriving Repr, DecidableEq\n",
           "inductive GxCell where\n  | cx | cy\n  deriving Repr, DecidableEq\n",
           "inductive GxCmp where\n  | lt | le\n  deriving Repr, DecidableEq\n",
           "structure GxMacro where\n  name : String\n  s : GxE\n  t : GxE\n  deriving Repr, DecidableEq\n",
           "structure GxSide where\n  off : Nat\n  mac : Nat\n  cell : GxCell\n  deriving Repr, DecidableEq\n",
           "structure GxUnit where\n  di : Int\n  dj : Int\n  side : GxSide\n  deriving Repr, DecidableEq\n",
           "structure GxLin where\n  b : Int\n  o : Int\n  k : Int\n  deriving Repr, DecidableEq\n",
           "structure GxRange where\n  lo1 : GxLin\n  lo2 : GxLin\n  hi1 : GxLin\n  hi2 : GxLin\n  deriving Repr, DecidableEq\n",
           "structure GxStraight where\n  range : GxRange\n  pos : GxSide\n  neg : GxSide\n  deriving Repr, DecidableEq\n",
           "structure GxDiag where\n  xr : GxRange\n  yr : GxRange\n  vpos : GxSide\n  vneg : GxSide\n  hpos : GxSide\n  hneg : GxSide\n"
           "  corner : List GxCmp\n  vacc : List GxCmp\n  hacc : List GxCmp\n  retain : List GxCmp\n  deriving Repr, DecidableEq\n",
           "def gxMacros : List GxMacro :=\n  [ " + ",\n    ".join(f'{{ name := "{n}", s := {s}, t := {t} }}' for n, s, t in macros) + " ]\n",
           "def gxCellDiv : List GxCell := [" + ", ".join("." + h[k] for k in ("cell1x", "cell1y", "cell2x", "cell2y")) + "]\n",
           "def gxUnit : List GxUnit :=\n  [ " + ",\n    ".join(units) + " ]\n",
           f"def gxRow : GxStraight := ⟨{rng('h', 'i_base', 'i')}, {side('h_p')}, {side('h_n')}⟩\n",
           f"def gxCol : GxStraight := ⟨{rng('v', 'j_base', 'j')}, {side('v_p')}, {side('v_n')}⟩\n",
           f"def gxDiag : GxDiag :=\n  {{ xr := {rng('dx', 'i_base', 'i')}, yr := {rng('dy', 'j_base', 'j')},\n"
           f"    vpos := {side('dv_p')}, vneg := {side('dv_n')}, hpos := {side('dh_p')}, hneg := {side('dh_n')},\n"
           f"    corner := [{', '.join(cmp_(f'k{k}') for k in range(4))}], vacc := [{', '.join(cmp_(f'a{k}') for k in range(4))}],\n"
           f"    hacc := [{', '.join(cmp_(f'b{k}') for k in range(4))}], retain := [{', '.join(cmp_(f'r{k}') for k in range(2))}] }}\n",
           "end HC.Gen\n"]
    txt = "\n".join(out)
    os.makedirs(os.path.dirname(GCROSS_OUT), exist_ok=True)
    old = open(GCROSS_OUT).read() if os.path.exists(GCROSS_OUT) else None
    if old != txt:
        open(GCROSS_OUT, "w").write(txt)
    return f"gcross: {len(macros)} macros, {len(units)}+2+1 arms, {len(seen)} holes -> {os.path.relpath(GCROSS_OUT, VERIF)}" + \
           (" (unchanged)" if old == txt else " (rewritten)")


GENERATORS["gcross"] = gen_gcross


# ---------------------------------------------------------------------------------------------
# orbit arms: which images each OrbitPolicy examines (dim2/orbits.rs, dim3/orbits.rs) and which images the 3-D
# identifier walks push (dim3/basic_ops.rs)
# ---------------------------------------------------------------------------------------------

ORB2_RS = os.environ.get("GEN_LEAN_ORB2_RS", "/repo/honeycomb-core/src/cmap/dim2/orbits.rs")
ORB3_RS = os.environ.get("GEN_LEAN_ORB3_RS", "/repo/honeycomb-core/src/cmap/dim3/orbits.rs")
OPS3_RS = os.environ.get("GEN_LEAN_OPS3_RS", "/repo/honeycomb-core/src/cmap/dim3/basic_ops.rs")
OPS2_RS = os.environ.get("GEN_LEAN_OPS2_RS", "/repo/honeycomb-core/src/cmap/dim2/basic_ops.rs")
ORBIT_OUT = os.path.join(os.path.dirname(os.path.dirname(os.path.abspath(__file__))), "lean", "Honeycomb", "Gen", "OrbitArms.lean")


def block_after(src, start, where):
    """text between the braces opening at or after `start`; returns (text, index after the closing brace)"""
    i = src.index("{", start)
    depth, j = 0, i
    while j < len(src):
        if src[j] == "{":
            depth += 1
        elif src[j] == "}":
            depth -= 1
            if depth == 0:
                return src[i + 1:j], j + 1
        j += 1
    raise Shape(f"{where}: unbalanced braces")


def split_depth0(s, sep):
    out, depth, cur = [], 0, ""
    for ch in s:
        if ch in "([{":
            depth += 1
        elif ch in ")]}":
            depth -= 1
        if ch == sep and depth == 0:
            out.append(cur)
            cur = ""
        else:
            cur += ch
    out.append(cur)
    return [x.strip() for x in out if x.strip()]


def beta_expr(e, env, where):
    """symbolic value of an image expression: the tuple of beta indices applied to the start dart, first applied first"""
    e = e.strip()
    if e.endswith("?"):
        e = e[:-1].strip()
    if re.fullmatch(r"[A-Za-z_][A-Za-z_0-9]*", e):
        need(e in env, f"{where}: unknown name {e!r}")
        return env[e]
    m = re.fullmatch(r"self\s*\.\s*beta(_transac)?\s*::\s*<\s*(\d)\s*>\s*\((.*)\)", e, flags=re.S)
    need(m, f"{where}: image expression not recognised: {e!r}")
    args = split_depth0(m.group(3), ",")
    if m.group(1):
        need(len(args) == 2 and re.fullmatch(r"t|trans", args[0]), f"{where}: beta_transac arguments not recognised: {e!r}")
        inner = args[1]
    else:
        need(len(args) == 1, f"{where}: beta arguments not recognised: {e!r}")
        inner = args[0]
    return beta_expr(inner, env, where) + (int(m.group(2)),)


def images_of_block(block, start_name, where):
    """straight-line symbolic evaluation of a block of `let`s and sinks (`check(E)`, `pending.push_back(E)`, an array literal
    fed to `.into_iter().for_each(check)`, `for x in [..] { sink(x); }`): the images handed to the sink, in order"""
    env = {start_name: ()}
    sinks = []
    txt = " ".join(block.split())
    # `for x in [ ... ] { sink(x); }`  ->  the array fed to the sink
    txt = re.sub(r"for (\w+) in (\[[^\]]*\]) \{ (check|pending\s*\.\s*push_back)\(\1\); \}", r"\2.into_iter().for_each(\3);", txt)
    for st in split_depth0(txt, ";"):
        m = re.fullmatch(r"let \(([^)]*)\) = \((.*)\)", st, flags=re.S)
        if m:
            names = [x.strip() for x in m.group(1).split(",") if x.strip()]
            vals = split_depth0(m.group(2), ",")
            need(len(names) == len(vals), f"{where}: tuple let arity: {st!r}")
            new = [beta_expr(v, env, where) for v in vals]
            env.update(dict(zip(names, new)))
            continue
        m = re.fullmatch(r"let (\w+) = (.*)", st, flags=re.S)
        if m:
            env[m.group(1)] = beta_expr(m.group(2), env, where)
            continue
        m = re.fullmatch(r"(?:check|pending\s*\.\s*push_back)\((.*)\)", st, flags=re.S)
        if m:
            sinks.append(beta_expr(m.group(1), env, where))
            continue
        m = re.fullmatch(r"\[(.*)\]\s*\.into_iter\(\)\s*\.for_each\((?:check|pending\s*\.\s*push_back)\)", st, flags=re.S)
        if m:
            sinks += [beta_expr(v, env, where) for v in split_depth0(m.group(1), ",")]
            continue
        if re.fullmatch(r"min = min\s*\.\s*min\(d\)", st):
            continue
        raise Shape(f"{where}: statement not recognised: {st!r}")
    return sinks


POLICIES = ["Vertex", "VertexLinear", "Edge", "Face", "FaceLinear", "Volume", "VolumeLinear"]


def orbit_arms(src, fname, where):
    body = fn_body(src, fname)
    m = re.search(r"match\s+opolicy\s*\{", body)
    need(m, f"{where}: `match opolicy` not found")
    mbody, _ = block_after(body, m.start(), where)
    arms, pos, seen = [], 0, set()
    while True:
        h = re.compile(r"\s*((?:OrbitPolicy::\w+(?:\([^)]*\))?\s*\|?\s*)+)=>\s*").match(mbody, pos)
        if not h:
            need(not mbody[pos:].strip(), f"{where}: text after the last arm not recognised: {mbody[pos:pos + 60]!r}")
            break
        blk, pos = block_after(mbody, h.end() - 1, where) if mbody[h.end():].lstrip().startswith("{") or mbody[h.end() - 1] == "{" else (None, None)
        need(blk is not None, f"{where}: arm without a block")
        names = re.findall(r"OrbitPolicy::(\w+)", h.group(1))
        for n in names:
            need(n not in seen, f"{where}: policy {n} matched twice")
            seen.add(n)
        pos = re.compile(r"\s*,?").match(mbody, pos).end()
        if names == ["Custom"]:
            need(re.search(r"for beta_id in beta_slice", blk) and re.search(r"beta_rt(_transac)?\(", blk) and "check(im)" in blk.replace(" ", ""),
                 f"{where}: the Custom arm is not the loop over the slice")
            continue
        if "unimplemented!" in blk:
            need(set(names) <= {"Volume", "VolumeLinear"}, f"{where}: unexpected unimplemented arm {names}")
            continue
        ims = images_of_block(blk, "d", f"{where} arm {'|'.join(names)}")
        for n in names:
            arms.append((n, ims))
    need(seen >= set(POLICIES) | {"Custom"}, f"{where}: arms missing: {sorted(set(POLICIES) | {'Custom'} - seen)}")
    return arms


def id_pushes(src, fname, where):
    body = fn_body(src, fname)
    m = re.search(r"if\s+marked\s*\.\s*insert\(d\)\s*\{", body)
    need(m, f"{where}: `if marked.insert(d)` not found")
    blk, _ = block_after(body, m.start(), where)
    return images_of_block(blk, "d", where)


def id_walk2(src, fname, where):
    """the 2-D identifier walks (dim2/basic_ops.rs): prologue, `while let Some(d) = pending.pop_front()`, per image the block
    `if marked.insert(X) { min = min.min(X); pending.push_back(X); }`, epilogue `Ok(min)` -> the images, in order"""
    body = " ".join(fn_body(src, fname).split())
    m = re.fullmatch(r"AUXILIARIES\.with\(\|t\| \{ let \(pending, marked\) = &mut \*t\.borrow_mut\(\); pending\.clear\(\); marked\.clear\(\); "
                     r"pending\.push_back\(dart_id\); marked\.insert\(NULL_DART_ID\); marked\.insert\(dart_id\); let mut min = dart_id; "
                     r"while let Some\(d\) = pending\.pop_front\(\) \{ (.*) \} Ok\(min\) \}\)", body)
    need(m, f"{where}: prologue / loop header / epilogue not recognised")
    loop = m.group(1)
    # every image is marked, folded into the minimum and queued by one and the same block
    loop, k = re.subn(r"if marked\.insert\((\w+)\) \{ min = min\.min\(\1\); pending\.push_back\(\1\); \}", r"pending.push_back(\1);", loop)
    need(k >= 1 and "marked" not in loop and "min" not in loop, f"{where}: an image is not handled by `if marked.insert(x) {{ min = min.min(x); pending.push_back(x); }}`")
    return images_of_block(loop, "d", where)


def edge_id2(src, where):
    body = "".join(fn_body(src, "edge_id_transac").split())
    m = re.fullmatch(r"let(\w+)=self\.beta_transac::<(\d)>\(trans,dart_id\)\?;if\1==NULL_DART_ID\{Ok\(dart_idasEdgeIdType\)\}"
                     r"else\{Ok\((?:\1\.min\(dart_id\)|dart_id\.min\(\1\))asEdgeIdType\)\}", body)
    need(m, f"{where}: edge_id_transac is not `min(d, beta_i(d))` with the null test: {body[:120]!r}")
    return int(m.group(2))


ITER_ID = {"vertex_id": 0, "edge_id": 1, "face_id": 2, "volume_id": 3}


def cell_iter(src, fname, where):
    """`iter_vertices` … : `(a..self.n_darts() as DartIdType).zip(self.unused_darts.iter().skip(k)).filter_map(|(d, unused)| if
    unused.read_atomic() { None } else { Some(d) }).filter_map(|d| { let x = self.<id>(d); if d == x { Some(x) } else { None } })`
    -> [id function, range start a, skip k, 1 = the flagged darts are the ones dropped]"""
    b = "".join(fn_body(src, fname).split())
    m = re.fullmatch(r"\((\d+)\.\.self\.n_darts\(\)asDartIdType\)\.zip\(self\.unused_darts\.iter\(\)\.skip\((\d+)\)\)"
                     r"\.filter_map\(\|\(d,unused\)\|\{?ifunused\.read_atomic\(\)\{(None|Some\(d\))\}else\{(None|Some\(d\))\}\}?,?\)"
                     r"\.filter_map\(\|d\|\{let(\w+)=self\.(\w+)\(d\);if(?:d==\5|\5==d)\{Some\(\5\)\}else\{None\}\}\)", b)
    need(m, f"{where} {fname}: iterator shape not recognised: {b[:160]!r}")
    need({m.group(3), m.group(4)} == {"None", "Some(d)"}, f"{where} {fname}: the flag filter keeps or drops both ways")
    need(m.group(6) in ITER_ID, f"{where} {fname}: unknown identifier function {m.group(6)}")
    return [ITER_ID[m.group(6)], int(m.group(1)), int(m.group(2)), 1 if m.group(3) == "None" else 0]


def lean_paths(ps):
    return "[" + ", ".join("[" + ", ".join(str(i) for i in p) + "]" for p in ps) + "]"


def gen_orbits():
    s2 = strip_comments(open(ORB2_RS).read())
    s3 = strip_comments(open(ORB3_RS).read())
    o3 = strip_comments(open(OPS3_RS).read())
    tabs = [("orbitArms2", "`CMap2::orbit_transac`", orbit_arms(s2, "orbit_transac", "dim2/orbits.rs orbit_transac")),
            ("orbitArms2Plain", "`CMap2::orbit`", orbit_arms(s2, "orbit", "dim2/orbits.rs orbit")),
            ("orbitArms3", "`CMap3::orbit_transac`", orbit_arms(s3, "orbit_transac", "dim3/orbits.rs orbit_transac")),
            ("orbitArms3Plain", "`CMap3::orbit`", orbit_arms(s3, "orbit", "dim3/orbits.rs orbit"))]
    ids = [(f, id_pushes(o3, f, f"dim3/basic_ops.rs {f}")) for f in ("vertex_id_transac", "edge_id_transac", "volume_id_transac")]
    o2 = strip_comments(open(OPS2_RS).read())
    ids2 = [(f, id_walk2(o2, f, f"dim2/basic_ops.rs {f}")) for f in ("vertex_id_transac", "face_id_transac")]
    e2 = edge_id2(o2, "dim2/basic_ops.rs edge_id_transac")
    out = ["/-\n  GENERATED by /verif/tools/gen_lean.py from\n  /repo/honeycomb-core/src/cmap/dim2/orbits.rs, dim3/orbits.rs, dim3/basic_ops.rs — DO NOT EDIT.\n"
           "  Regenerated by tools/check.py before every build of a module that imports it.\n\n"
           "  Per orbit policy: the images the arm hands to `check`, in order, each as the list of beta indices applied to the\n"
           "  current dart, FIRST APPLIED FIRST (`self.beta::<1>(self.beta::<2>(d))` is `[2, 1]`), obtained by evaluating the arm's\n"
           "  `let`s symbolically (so the order of the reads does not matter, the composition does).  `Custom` (a loop over the\n"
           "  slice) and the `unimplemented!` volume arms of the 2-D functions are recognised and not listed.\n"
           "  `idPushes3`: the images pushed by the 3-D identifier walks.  Props/C03Gen.lean proves that the hand-written model\n"
           "  (`g2`, `g3`, `Cell3.g3v`, the generators of `edgeId3` / `volumeId3`) examines exactly these images.\n-/\n",
           "namespace HC.Gen\n"]
    for name, doc, arms in tabs:
        out.append(f"/-- arms of {doc}: (policy code, images); codes: " + ", ".join(f"{i} = {n}" for i, n in enumerate(POLICIES)) +
                   f" -/\ndef {name} : List (Nat × List (List Nat)) := [\n" +
                   ",\n".join(f'  ({POLICIES.index(n)}, {lean_paths(ps)})' for n, ps in arms) + "]\n")
    out.append("/-- images pushed by the 3-D identifier walks, in push order: 0 = vertex_id_transac, 1 = edge_id_transac, "
               "2 = volume_id_transac -/\ndef idPushes3 : List (Nat × List (List Nat)) := [\n" +
               ",\n".join(f'  ({k}, {lean_paths(ps)})' for k, (f, ps) in enumerate(ids)) + "]\n")
    out.append("/-- the 2-D identifier walks of dim2/basic_ops.rs (0 = vertex_id_transac, 1 = face_id_transac): the function starts from\n"
               "    `pending = [dart_id]`, `marked = {NULL_DART_ID, dart_id}`, `min = dart_id`, pops from the front, and for each of these\n"
               "    images x, in this order, runs `if marked.insert(x) { min = min.min(x); pending.push_back(x); }`; it answers `min` -/\n"
               "def idPushes2 : List (Nat × List (List Nat)) := [\n" +
               ",\n".join(f'  ({k}, {lean_paths(ps)})' for k, (f, ps) in enumerate(ids2)) + "]\n")
    out.append(f"/-- `CMap2::edge_id_transac`: reads this β image of the dart and answers the dart when it is null, the smaller of the two otherwise -/\n"
               f"def edgeIdImage2 : Nat := {e2}\n")
    its2 = [cell_iter(o2, f, "dim2/basic_ops.rs") for f in ("iter_vertices", "iter_edges", "iter_faces")]
    its3 = [cell_iter(o3, f, "dim3/basic_ops.rs") for f in ("iter_vertices", "iter_edges", "iter_faces", "iter_volumes")]
    out.append("/-- the cell iterators of dim2/basic_ops.rs (iter_vertices, iter_edges, iter_faces) and dim3/basic_ops.rs (… , iter_volumes):\n"
               "    [identifier function (0 vertex_id, 1 edge_id, 2 face_id, 3 volume_id), start of the dart range, number of flags skipped,\n"
               "    1 = a dart whose removal flag is set is dropped]; the second filter keeps d exactly when the identifier of d is d -/\n"
               f"def cellIters2 : List (List Nat) := {its2}\n" f"def cellIters3 : List (List Nat) := {its3}\n")
    out.append("end HC.Gen\n")
    txt = "\n".join(out)
    os.makedirs(os.path.dirname(ORBIT_OUT), exist_ok=True)
    if not os.path.exists(ORBIT_OUT) or open(ORBIT_OUT).read() != txt:
        open(ORBIT_OUT, "w").write(txt)
    return f"gen_lean: orbits ok ({sum(len(a) for _, _, a in tabs)} arms, {len(ids)} identifier walks)"


GENERATORS["orbits"] = gen_orbits


# ---------------------------------------------------------------------------------------------
# link cores: the six straight-line functions of components/betas.rs every link / sew / unlink / unsew goes through,
# translated instruction by instruction
# ---------------------------------------------------------------------------------------------

BETAS_RS = os.environ.get("GEN_LEAN_BETAS_RS", "/repo/honeycomb-core/src/cmap/components/betas.rs")
CORES_OUT = os.path.join(os.path.dirname(os.path.dirname(os.path.abspath(__file__))), "lean", "Honeycomb", "Gen", "LinkCores.lean")
LINK_ERRS = {"NonFreeBase": 0, "NonFreeImage": 1, "AlreadyFree": 2}
CORE_FNS = ["one_link_core", "two_link_core", "three_link_core", "one_unlink_core", "two_unlink_core", "three_unlink_core"]


def core_instrs(src, fname):
    where = f"betas.rs {fname}"
    sig = fn_sig(src, fname)
    params = re.findall(r"(\w+)\s*:\s*DartIdType", sig)
    need(params in (["lhs_dart_id", "rhs_dart_id"], ["lhs_dart_id"]), f"{where}: parameters {params}")
    need(re.search(r"trans\s*:\s*&mut Transaction", sig), f"{where}: no transaction parameter")
    names = {"lhs_dart_id": 0, "NULL_DART_ID": 2}
    if len(params) == 2:
        names["rhs_dart_id"] = 1
    # all white space removed: the recognition is independent of the layout
    body = "".join(fn_body(src, fname).split())

    def arg(tok):
        tok = tok.strip()
        if re.fullmatch(r"\d+", tok):
            return 10 + int(tok)
        need(tok in names, f"{where}: unknown name {tok!r}")
        return names[tok]

    def err(kind, args):
        need(kind in LINK_ERRS, f"{where}: unknown LinkError::{kind}")
        return [LINK_ERRS[kind]] + [arg(a) for a in args.split(",") if a.strip()]

    cell = r"self\[\((\d),(\w+)\)\]"
    ab = r"\{returnabort\(LinkError::(\w+)\(([^)]*)\)\);?\}"
    pats = [("G", re.compile(r"if" + cell + r"\.read\(trans\)\?!=NULL_DART_ID" + ab)),
            ("W", re.compile(cell + r"\.write\(trans,(\w+)\)\?;")),
            ("R", re.compile(r"let(\w+)=" + cell + r"\.replace\(trans,NULL_DART_ID\)\?;")),
            ("N", re.compile(r"if(\w+)==NULL_DART_ID" + ab)),
            ("E", re.compile(r"Ok\(\(\)\)$"))]
    out, pos, bound, ended = [], 0, False, False
    while pos < len(body):
        for k, rx in pats:
            m = rx.match(body, pos)
            if m:
                break
        else:
            raise Shape(f"{where}: statement not recognised at: {body[pos:pos + 80]!r}")
        need(not ended, f"{where}: code after Ok(())")
        if k == "G":
            out.append((0, [int(m.group(1)), arg(m.group(2))] + err(m.group(3), m.group(4))))
        elif k == "W":
            out.append((1, [int(m.group(1)), arg(m.group(2)), arg(m.group(3))]))
        elif k == "R":
            need(not bound, f"{where}: more than one let")
            need(m.group(1) not in names, f"{where}: let shadows {m.group(1)}")
            out.append((2, [int(m.group(2)), arg(m.group(3))]))
            names[m.group(1)] = 3
            bound = True
        elif k == "N":
            out.append((3, [arg(m.group(1))] + err(m.group(2), m.group(3))))
        else:
            ended = True
        pos = m.end()
    need(ended, f"{where}: does not end with Ok(())")
    return out


def gen_cores():
    src = strip_comments(open(BETAS_RS).read())
    need(sorted(re.findall(r"\bfn\s+(\w+_core)\b", src)) == sorted(CORE_FNS), "betas.rs: unexpected set of *_core functions: " +
         str(sorted(re.findall(r"\bfn\s+(\w+_core)\b", src))))
    fns = [(f, core_instrs(src, f)) for f in CORE_FNS]
    out = ["/-\n  GENERATED by /verif/tools/gen_lean.py from\n  /repo/honeycomb-core/src/cmap/components/betas.rs — DO NOT EDIT.\n"
           "  Regenerated by tools/check.py before every build of a module that imports it.\n\n"
           "  The six `*_core` functions, instruction by instruction, as (opcode, operands):\n"
           "    (0, [i, x, k, e…])  if self[(i, x)].read(trans)? != NULL_DART_ID { return abort(LinkError::k(e…)) }\n"
           "    (1, [i, x, v])      self[(i, x)].write(trans, v)?\n"
           "    (2, [i, x])         let y = self[(i, x)].replace(trans, NULL_DART_ID)?        (binds the variable)\n"
           "    (3, [y, k, e…])     if y == NULL_DART_ID { return abort(LinkError::k(e…)) }\n"
           "  operands x, v, y, e: 0 = lhs_dart_id, 1 = rhs_dart_id (parameter), 2 = NULL_DART_ID, 3 = the let-bound variable,\n"
           "  10 + n = the literal n; k: 0 = NonFreeBase, 1 = NonFreeImage, 2 = AlreadyFree.  Every function ends with Ok(()).\n"
           "  Props/C01Gen.lean interprets these lists in the model's transaction monad and proves the result EQUAL to the\n"
           "  hand-written cores (`oneLinkCore`, `iLinkCore`, `oneUnlinkCore`, `iUnlinkCore`) all C01 / C02 theorems are about.\n-/\n",
           "namespace HC.Gen\n"]
    for f, ins in fns:
        camel = re.sub(r"_(\w)", lambda m: m.group(1).upper(), f)
        out.append(f"/-- `{f}` -/\ndef {camel} : List (Nat × List Nat) := [" +
                   ", ".join(f"({op}, [{', '.join(map(str, a))}])" for op, a in ins) + "]\n")
    out.append("end HC.Gen\n")
    txt = "\n".join(out)
    if not os.path.exists(CORES_OUT) or open(CORES_OUT).read() != txt:
        open(CORES_OUT, "w").write(txt)
    return f"gen_lean: cores ok ({sum(len(i) for _, i in fns)} instructions in {len(fns)} functions)"


GENERATORS["cores"] = gen_cores


# ---------------------------------------------------------------------------------------------
# attribute storage: AttrSparseVec::merge / split of attributes/collections.rs (the only code that moves attribute values
# when cells merge or split): guard, reads, law dispatch table, writes in order
# ---------------------------------------------------------------------------------------------

COLL_RS = os.environ.get("GEN_LEAN_COLL_RS", "/repo/honeycomb-core/src/attributes/collections.rs")
ATTR_OUT = os.path.join(os.path.dirname(os.path.dirname(os.path.abspath(__file__))), "lean", "Honeycomb", "Gen", "AttrMoves.lean")


def attr_fn(src, fname, params, laws, ok_pat, some_vals):
    """returns (guard, same-branch instructions, reads, arms, writes) of `merge` / `split`"""
    where = f"collections.rs {fname}"
    sig = "".join(fn_sig(src, fname).split())
    got = re.findall(r"(\w+):DartIdType", sig)
    need(got == params, f"{where}: parameters {got}")
    body = "".join(fn_body(src, fname).split())
    cell = {p: k for k, p in enumerate(params)}
    rd = r"self\.data\[(\w+)asusize\]\.read\(trans\)\?"
    wr = r"self\.data\[(\w+)asusize\]\.write\(trans,([\w()]+)\)\?;"

    def c(name):
        need(name in cell, f"{where}: unknown cell {name!r}")
        return cell[name]

    # ---- same-cell branch
    m = re.match(r"if(\w+)==(\w+)\{(.*?)returnOk\(\(\)\);\}", body)
    need(m, f"{where}: the same-cell branch is not recognised")
    guard = (c(m.group(1)), c(m.group(2)))
    same, pos, inner = [], 0, m.group(3)
    while pos < len(inner):
        r1 = re.compile(r"letv=" + rd + ";").match(inner, pos)
        w1 = re.compile(wr).match(inner, pos)
        if r1:
            same.append((0, [c(r1.group(1))]))
            pos = r1.end()
        elif w1:
            need(w1.group(2) in ("None", "v"), f"{where}: same-cell branch writes {w1.group(2)!r}")
            same.append((1, [c(w1.group(1)), 0 if w1.group(2) == "None" else 1]))
            pos = w1.end()
        else:
            raise Shape(f"{where}: same-cell branch: statement not recognised at {inner[pos:pos + 60]!r}")
    rest = body[m.end():]
    # ---- reads + dispatch
    if fname == "merge":
        m = re.match(r"letnew_v=match\(" + rd + "," + rd + r",?\)\{(.*?)\};matchnew_v\{", rest)
        need(m, f"{where}: reads / dispatch not recognised")
        reads = [c(m.group(1)), c(m.group(2))]
        arms = []
        for am in re.finditer(r"((?:\|?\((?:Some\(\w+\)|None),(?:Some\(\w+\)|None)\))+)=>AttributeUpdate::(\w+)\(([\w,]*)\),", m.group(3)):
            need(am.group(2) in laws, f"{where}: unknown law {am.group(2)}")
            args = [a for a in am.group(3).split(",") if a]
            for alt in re.findall(r"\((Some\(\w+\)|None),(Some\(\w+\)|None)\)", am.group(1)):
                names = [re.fullmatch(r"Some\((\w+)\)", x).group(1) if x != "None" else None for x in alt]
                for a in args:
                    need(a in names, f"{where}: argument {a} not bound by the pattern")
                arms.append((int(names[0] is not None), int(names[1] is not None), laws[am.group(2)], [names.index(a) for a in args]))
        need("".join(x.group(0) for x in re.finditer(r"((?:\|?\((?:Some\(\w+\)|None),(?:Some\(\w+\)|None)\))+)=>AttributeUpdate::(\w+)\(([\w,]*)\),", m.group(3))) == m.group(3),
             f"{where}: text between the arms not recognised")
    else:
        m = re.match(r"letres=ifletSome\((\w+)\)=" + rd + r"\{AttributeUpdate::(\w+)\((\w+)\)\}else\{AttributeUpdate::(\w+)\(\)\};matchres\{", rest)
        need(m, f"{where}: read / dispatch not recognised")
        need(m.group(1) == m.group(4) and m.group(3) in laws and m.group(5) in laws, f"{where}: dispatch not recognised")
        reads = [c(m.group(2))]
        arms = [(1, 0, laws[m.group(3)], [0]), (0, 0, laws[m.group(5)], [])]
    rest = rest[m.end():]
    m = re.match(ok_pat + r"=>\{(.*?)Ok\(\(\)\)\}Err\(e\)=>abort\(e\),?\}$", rest)
    need(m, f"{where}: result match not recognised: {rest[:80]!r}")
    writes, pos, inner = [], 0, m.group(1)
    while pos < len(inner):
        w1 = re.compile(wr).match(inner, pos)
        need(w1, f"{where}: write not recognised at {inner[pos:pos + 60]!r}")
        need(w1.group(2) in some_vals, f"{where}: written value {w1.group(2)!r}")
        writes.append((1, [c(w1.group(1)), some_vals[w1.group(2)]]))
        pos = w1.end()
    return guard, same, reads, arms, writes


def gen_attrs():
    src = strip_comments(open(COLL_RS).read())
    mg = attr_fn(src, "merge", ["out", "lhs_inp", "rhs_inp"], {"merge": 0, "merge_incomplete": 1, "merge_from_none": 2},
                 r"Ok\(v\)", {"None": 0, "Some(v)": 2})
    sp = attr_fn(src, "split", ["lhs_out", "rhs_out", "inp"], {"split": 0, "split_from_none": 1},
                 r"Ok\(\(lhs_val,rhs_val\)\)", {"None": 0, "Some(lhs_val)": 2, "Some(rhs_val)": 3})

    def ins(l):
        return "[" + ", ".join(f"({op}, [{', '.join(map(str, a))}])" for op, a in l) + "]"

    def arms(l):
        return "[" + ", ".join(f"({a}, {b}, {law}, [{', '.join(map(str, args))}])" for a, b, law, args in l) + "]"

    out = ["/-\n  GENERATED by /verif/tools/gen_lean.py from\n  /repo/honeycomb-core/src/attributes/collections.rs — DO NOT EDIT.\n"
           "  Regenerated by tools/check.py before every build of a module that imports it.\n\n"
           "  `AttrSparseVec::merge(out, lhs_inp, rhs_inp)` and `AttrSparseVec::split(lhs_out, rhs_out, inp)`; cells are the\n"
           "  parameters in that order (0, 1, 2).  Guard: the two cells compared by the leading `if a == b` (same-cell branch).\n"
           "  Instructions: (0, [c]) `let v = self.data[c].read(trans)?`; (1, [c, w]) `self.data[c].write(trans, w)?` with\n"
           "  w: 0 = None, 1 = v (the option just read), 2 = Some(first result), 3 = Some(second result).\n"
           "  Reads: the cells read before the law dispatch, in order.  Arms: (first is Some, second is Some, law, arguments)\n"
           "  with law 0 / 1 / 2 = merge / merge_incomplete / merge_from_none (resp. 0 / 1 = split / split_from_none) and the\n"
           "  arguments given as positions of the values read.  Writes: executed after an Ok law result, in order; an Err\n"
           "  result aborts before any write.  Props/C04Gen.lean interprets this and proves it EQUAL to `mergeS` / `splitS`.\n-/\n",
           "namespace HC.Gen\n"]
    for nm, (g, same, reads, ar, wr_) in (("merge", mg), ("split", sp)):
        out.append(f"def {nm}Guard : Nat × Nat := ({g[0]}, {g[1]})\ndef {nm}Same : List (Nat × List Nat) := {ins(same)}\n"
                   f"def {nm}Reads : List Nat := [{', '.join(map(str, reads))}]\n"
                   f"def {nm}Arms : List (Nat × Nat × Nat × List Nat) := {arms(ar)}\n"
                   f"def {nm}Writes : List (Nat × List Nat) := {ins(wr_)}\n")
    out.append("end HC.Gen\n")
    txt = "\n".join(out)
    if not os.path.exists(ATTR_OUT) or open(ATTR_OUT).read() != txt:
        open(ATTR_OUT, "w").write(txt)
    return "gen_lean: attrs ok (merge and split of AttrSparseVec)"


GENERATORS["attrs"] = gen_attrs


# ---------------------------------------------------------------------------------------------
# CMap3::one_link / one_unlink (dim3/links/one.rs): the 1-links that keep 3-glued faces mirrored
# ---------------------------------------------------------------------------------------------

LINK3_RS = os.environ.get("GEN_LEAN_LINK3_RS", "/repo/honeycomb-core/src/cmap/dim3/links/one.rs")
LINK3_OUT = os.path.join(os.path.dirname(os.path.dirname(os.path.abspath(__file__))), "lean", "Honeycomb", "Gen", "Links3.lean")
CORE_CODE = {"one_link_core": 0, "two_link_core": 1, "three_link_core": 2, "one_unlink_core": 3, "two_unlink_core": 4, "three_unlink_core": 5}
LINK_ERRS3 = dict(LINK_ERRS, AsymmetricalFaces=3)


def link3_instrs(src, fname):
    where = f"dim3/links/one.rs {fname}"
    sig = "".join(fn_sig(src, fname).split())
    params = re.findall(r"(\w+):DartIdType", sig)
    need(params in (["ld", "rd"], ["ld"]), f"{where}: parameters {params}")
    names = {p: k for k, p in enumerate(params)}
    names["NULL_DART_ID"] = 2
    nvars = [0]

    def arg(tok):
        need(tok in names, f"{where}: unknown name {tok!r}")
        return names[tok]

    def bind(name):
        need(name not in names, f"{where}: {name} bound twice")
        names[name] = 20 + nvars[0]
        nvars[0] += 1

    beta = r"self\.beta_transac::<(\d)>\(trans,(\w+)\)\?"

    def block(body):
        out, pos = [], 0
        while pos < len(body):
            m = re.compile(r"self\.betas\.(\w+_core)\(trans,(\w+)(?:,(\w+))?\)\?;").match(body, pos)
            if m:
                need(m.group(1) in CORE_CODE, f"{where}: unknown core {m.group(1)}")
                two = CORE_CODE[m.group(1)] < 3
                need((m.group(3) is not None) == two, f"{where}: arity of {m.group(1)}")
                out.append((0, [CORE_CODE[m.group(1)], arg(m.group(2)), arg(m.group(3)) if two else 2]))
                pos = m.end()
                continue
            m = re.compile(r"let(\w+)=" + beta + ";").match(body, pos)
            if m:
                out.append((1, [int(m.group(2)), arg(m.group(3))]))
                bind(m.group(1))
                pos = m.end()
                continue
            m = re.compile(r"let\((\w+),(\w+)\)=\(" + beta + "," + beta + r",?\);").match(body, pos)
            if m:
                a1, a2 = arg(m.group(4)), arg(m.group(6))      # both right-hand sides are evaluated before either name is bound
                out.append((1, [int(m.group(3)), a1]))
                out.append((1, [int(m.group(5)), a2]))
                bind(m.group(1))
                bind(m.group(2))
                pos = m.end()
                continue
            m = re.compile(r"if(\w+)!=NULL_DART_ID&&(\w+)!=NULL_DART_ID\{").match(body, pos)
            if m:
                inner, end = block_after(body, m.end() - 1, where)
                sub = block(inner)
                out.append((2, [arg(m.group(1)), arg(m.group(2)), len(sub)]))
                out += sub
                pos = end
                continue
            m = re.compile(r"if" + beta + r"!=(\w+)\{abort\(LinkError::(\w+)\(([\w,]*)\)\)\?;\}").match(body, pos)
            if m:
                need(m.group(4) in LINK_ERRS3, f"{where}: unknown LinkError::{m.group(4)}")
                out.append((3, [int(m.group(1)), arg(m.group(2)), arg(m.group(3)), LINK_ERRS3[m.group(4)]] +
                            [arg(a) for a in m.group(5).split(",") if a]))
                pos = m.end()
                continue
            m = re.compile(r"Ok\(\(\)\)$").match(body, pos)
            if m:
                pos = m.end()
                continue
            raise Shape(f"{where}: statement not recognised at {body[pos:pos + 80]!r}")
        return out

    body = "".join(fn_body(src, fname).split())
    need(body.endswith("Ok(())"), f"{where}: does not end with Ok(())")
    return block(body)


def gen_links3():
    src = strip_comments(open(LINK3_RS).read())
    fns = [(f, link3_instrs(src, f)) for f in ("one_link", "one_unlink")]
    out = ["/-\n  GENERATED by /verif/tools/gen_lean.py from\n  /repo/honeycomb-core/src/cmap/dim3/links/one.rs — DO NOT EDIT.\n"
           "  Regenerated by tools/check.py before every build of a module that imports it.\n\n"
           "  `CMap3::one_link(ld, rd)` / `CMap3::one_unlink(ld)` as (opcode, operands):\n"
           "    (0, [f, a, b])        self.betas.<f>(trans, a, b)?   f: 0..2 = one/two/three_link_core, 3..5 = one/two/three_unlink_core (b unused)\n"
           "    (1, [i, a])           let x = self.beta_transac::<i>(trans, a)?      (binds the next variable; a tuple `let` is two of these,\n"
           "                          both right-hand sides evaluated with the names bound BEFORE it)\n"
           "    (2, [a, b, n])        if a != NULL_DART_ID && b != NULL_DART_ID { the next n instructions }\n"
           "    (3, [i, a, b, k, e…]) if self.beta_transac::<i>(trans, a)? != b { abort(LinkError::k(e…))?; }\n"
           "  operands: 0 = ld, 1 = rd (parameter), 2 = NULL_DART_ID, 20 + j = the j-th bound variable; k: 3 = AsymmetricalFaces.\n"
           "  Props/C02Gen.lean interprets these lists and proves them EQUAL to `oneLink3` / `oneUnlink3` of Model/Ops3.lean.\n-/\n",
           "namespace HC.Gen\n"]
    for f, ins in fns:
        camel = re.sub(r"_(\w)", lambda m: m.group(1).upper(), f) + "3"
        out.append(f"/-- `CMap3::{f}` -/\ndef {camel} : List (Nat × List Nat) := [" +
                   ", ".join(f"({op}, [{', '.join(map(str, a))}])" for op, a in ins) + "]\n")
    out.append("end HC.Gen\n")
    txt = "\n".join(out)
    if not os.path.exists(LINK3_OUT) or open(LINK3_OUT).read() != txt:
        open(LINK3_OUT, "w").write(txt)
    return f"gen_lean: links3 ok ({sum(len(i) for _, i in fns)} instructions)"


GENERATORS["links3"] = gen_links3


# ---------------------------------------------------------------------------------------------
# CMap2::one_sew / one_unsew (dim2/sews/one.rs)
# ---------------------------------------------------------------------------------------------

SEW2_RS = os.environ.get("GEN_LEAN_SEW2_RS", "/repo/honeycomb-core/src/cmap/dim2/sews/one.rs")
SEW2_OUT = os.path.join(os.path.dirname(os.path.dirname(os.path.abspath(__file__))), "lean", "Honeycomb", "Gen", "Sews2.lean")
POLICY_CODE = {"Vertex": 0, "Edge": 1, "Face": 2, "Volume": 3}


def sew_instrs(src, fname, label="dim2/sews/one.rs", pnames=("lhs_dart_id", "rhs_dart_id")):
    where = f"{label} {fname}"
    sig = "".join(fn_sig(src, fname).split())
    params = re.findall(r"(\w+):DartIdType", sig)
    need(params in (list(pnames), [pnames[0]]), f"{where}: parameters {params}")
    base = {p: k for k, p in enumerate(params)}
    base["NULL_DART_ID"] = 2

    def block(body, names, nvars):
        """returns (instructions, names, nvars) -- names bound inside an if/else arm stay local to it"""
        out, pos = [], 0

        def arg(tok):
            tok = re.sub(r"as(?:EdgeIdType|VertexIdType|FaceIdType|DartIdType)$", "", tok)     # `x as EdgeIdType`: same number
            need(tok in names, f"{where}: unknown name {tok!r}")
            return names[tok]

        def bind(name):
            nonlocal nvars
            need(name not in names, f"{where}: {name} bound twice")
            names[name] = 20 + nvars
            nvars += 1

        rdb = r"(?:self\.betas\[\((\d),(\w+)\)\]\.read\(trans\)\?|self\.beta_transac::<(\d)>\(trans,(\w+)\)\?)"
        vid = r"self\.vertex_id_transac\(trans,(\w+)\)\?"
        while pos < len(body):
            m = re.compile(r"let(\w+)=" + rdb + ";").match(body, pos)
            if m:
                i, a = (m.group(2), m.group(3)) if m.group(2) is not None else (m.group(4), m.group(5))
                out.append((1, [int(i), arg(a)]))
                bind(m.group(1))
                pos = m.end()
                continue
            m = re.compile(r"let(\w+)=" + vid + ";").match(body, pos)
            if m:
                out.append((5, [arg(m.group(2))]))
                bind(m.group(1))
                pos = m.end()
                continue
            m = re.compile(r"let\((\w+),(\w+)\)=\(" + vid + "," + vid + r",?\);").match(body, pos)
            if m:
                a1, a2 = arg(m.group(3)), arg(m.group(4))
                out += [(5, [a1]), (5, [a2])]
                bind(m.group(1))
                bind(m.group(2))
                pos = m.end()
                continue
            m = re.compile(r"try_or_coerce!\(self\.betas\.(\w+_core)\(trans,(\w+)(?:,(\w+))?\),SewError\);").match(body, pos)
            if m:
                need(m.group(1) in CORE_CODE, f"{where}: unknown core {m.group(1)}")
                two = CORE_CODE[m.group(1)] < 3
                need((m.group(3) is not None) == two, f"{where}: arity of {m.group(1)}")
                out.append((0, [CORE_CODE[m.group(1)], arg(m.group(2)), arg(m.group(3)) if two else 2]))
                pos = m.end()
                continue
            m = re.compile(r"try_or_coerce!\(self\.vertices\.(merge|split)\(trans,(\w+),(\w+),(\w+)\),SewError\);").match(body, pos)
            if m:
                out.append((6, [0 if m.group(1) == "merge" else 1, arg(m.group(2)), arg(m.group(3)), arg(m.group(4))]))
                pos = m.end()
                continue
            m = re.compile(r"try_or_coerce!\(self\.attributes\.(merge|split)_attributes\(trans,OrbitPolicy::(\w+),(\w+),(\w+),(\w+),?\),SewError\);").match(body, pos)
            if m:
                need(m.group(2) in POLICY_CODE, f"{where}: unknown policy {m.group(2)}")
                out.append((7, [0 if m.group(1) == "merge" else 1, POLICY_CODE[m.group(2)], arg(m.group(3)), arg(m.group(4)), arg(m.group(5))]))
                pos = m.end()
                continue
            # --- shapes of dim3/sews/one.rs and two.rs -------------------------------------------------------------
            eid = r"self\.edge_id_transac\(trans,(\w+)\)\?"
            m = re.compile(r"let\((\w+),(\w+)\)=\(" + eid + "," + eid + r",?\);").match(body, pos)
            if m:
                a1, a2 = arg(m.group(3)), arg(m.group(4))
                out += [(10, [a1]), (10, [a2])]
                bind(m.group(1))
                bind(m.group(2))
                pos = m.end()
                continue
            m = re.compile(r"let(\w+)=if(\w+)!=NULL_DART_ID\{" + vid + r"\}elseif(\w+)!=NULL_DART_ID\{" + vid +
                           r"\}else\{NULL_VERTEX_ID\};").match(body, pos)
            if m:
                need(m.group(2) == m.group(3) and m.group(4) == m.group(5), f"{where}: the tested dart is not the one whose vertex is read")
                out.append((12, [arg(m.group(2)), arg(m.group(4))]))
                bind(m.group(1))
                pos = m.end()
                continue
            m = re.compile(r"try_or_coerce!\(self\.(one_link|one_unlink)\(trans,(\w+)(?:,(\w+))?\),SewError\);").match(body, pos)
            if m:
                two = m.group(1) == "one_link"
                need((m.group(3) is not None) == two, f"{where}: arity of {m.group(1)}")
                out.append((13, [0 if two else 1, arg(m.group(2)), arg(m.group(3)) if two else 2]))
                pos = m.end()
                continue
            m = re.compile(r"if(\w+)!=NULL_VERTEX_ID\{").match(body, pos)
            if m:
                th, end = block_after(body, m.end() - 1, where)
                need(not body.startswith("else", end), f"{where}: unexpected `else`")
                t_ins, _, _ = block(th, dict(names), nvars)
                out.append((14, [arg(m.group(1)), len(t_ins)]))
                out += t_ins
                pos = end
                continue
            m = re.compile(r"let(\w+)=(\w+)\.min\((\w+)\);").match(body, pos)
            if m:
                out.append((15, [arg(m.group(2)), arg(m.group(3))]))
                bind(m.group(1))
                pos = m.end()
                continue
            m = re.compile(r"let(\w+)=self\.vertex_id_transac\(trans,if(\w+)!=NULL_DART_ID\{(\w+)\}elseif(\w+)!=NULL_DART_ID\{(\w+)\}"
                           r"else\{returnOk\(\(\)\);\},?\)\?;").match(body, pos)
            if m:
                need(m.group(2) == m.group(3) and m.group(4) == m.group(5), f"{where}: the tested dart is not the one handed to vertex_id_transac")
                out.append((16, [arg(m.group(2)), arg(m.group(4))]))
                bind(m.group(1))
                pos = m.end()
                continue
            m = re.compile(r"if(\w+)!=(\w+)\{").match(body, pos)
            if m and m.group(2) not in ("NULL_DART_ID", "NULL_VERTEX_ID"):
                th, end = block_after(body, m.end() - 1, where)
                need(not body.startswith("else", end), f"{where}: unexpected `else`")
                t_ins, _, _ = block(th, dict(names), nvars)
                out.append((17, [arg(m.group(1)), arg(m.group(2)), len(t_ins)]))
                out += t_ins
                pos = end
                continue
            m = re.compile(r"let(\w+)=(\w+)as(?:EdgeIdType|VertexIdType|FaceIdType|DartIdType);").match(body, pos)
            if m:
                need(m.group(1) not in names, f"{where}: {m.group(1)} bound twice")
                names[m.group(1)] = arg(m.group(2))          # an alias, no instruction
                pos = m.end()
                continue
            m = re.compile(r"let(\w+)=self\.edge_id_transac\(trans,(\w+)\)\?;").match(body, pos)
            if m:
                out.append((10, [arg(m.group(2))]))
                bind(m.group(1))
                pos = m.end()
                continue
            m = re.compile(r"match\((\w+)==NULL_DART_ID,(\w+)==NULL_DART_ID\)\{").match(body, pos)
            if m:
                inner, end = block_after(body, m.end() - 1, where)
                arms, ipos = {}, 0
                while ipos < len(inner):
                    h = re.compile(r"\((true|false),(true|false)\)=>\{").match(inner, ipos)
                    need(h, f"{where}: match arm not recognised at {inner[ipos:ipos + 60]!r}")
                    blk, ipos = block_after(inner, h.end() - 1, where)
                    key = (h.group(1) == "true", h.group(2) == "true")
                    need(key not in arms, f"{where}: arm {key} twice")
                    arms[key] = block(blk, dict(names), nvars)[0]
                    if inner.startswith(",", ipos):
                        ipos += 1
                order = [(True, True), (True, False), (False, True), (False, False)]
                need(set(arms) == set(order), f"{where}: arms {sorted(arms)}")
                out.append((9, [arg(m.group(1)), arg(m.group(2))] + [len(arms[k]) for k in order]))
                for k in order:
                    out += arms[k]
                pos = end
                continue
            # the orientation test of two_sew: four vertex reads, two difference vectors, abort on a non-negative dot product
            rv = r"self\.vertices\.read\(trans,(\w+)\)"
            m = re.compile(r"iflet\(Ok\(Some\((\w+)\)\),Ok\(Some\((\w+)\)\),Ok\(Some\((\w+)\)\),Ok\(Some\((\w+)\)\),?\)=\(" +
                           rv + "," + rv + "," + rv + "," + rv + r",?\)\{let(\w+)=(\w+)-(\w+);let(\w+)=(\w+)-(\w+);"
                           r"if(\w+)\.dot\(&(\w+)\)>=T::zero\(\)\{abort\(SewError::BadGeometry\((\d),(\w+),(\w+)\)\)\?;\}\}").match(body, pos)
            if m:
                g = m.groups()
                pl, pb1r, pb1l, pr = g[0:4]
                # lhs_vector = b1l - l ; rhs_vector = b1r - r ; dot(lhs_vector, rhs_vector) (the dot product is symmetric)
                need((g[9], g[10]) == (pb1l, pl) and (g[12], g[13]) == (pb1r, pr) and {g[14], g[15]} == {g[8], g[11]},
                     f"{where}: orientation test is not (b1l - l).(b1r - r) >= 0 on the values read in the order l, b1r, b1l, r")
                out.append((11, [arg(g[4]), arg(g[5]), arg(g[6]), arg(g[7]), int(g[16]), arg(g[17]), arg(g[18])]))
                pos = m.end()
                continue
            m = re.compile(r"if(\w+)==NULL_DART_ID\{").match(body, pos)
            if m:
                th, end = block_after(body, m.end() - 1, where)
                need(body.startswith("else{", end), f"{where}: `if` without `else`")
                el, end2 = block_after(body, end + 4, where)
                t_ins, _, nv1 = block(th, dict(names), nvars)
                e_ins, _, nv2 = block(el, dict(names), nvars)
                out.append((8, [arg(m.group(1)), len(t_ins), len(e_ins)]))
                out += t_ins + e_ins
                pos = end2
                continue
            m = re.compile(r"Ok\(\(\)\)$").match(body, pos)
            if m:
                pos = m.end()
                continue
            raise Shape(f"{where}: statement not recognised at {body[pos:pos + 90]!r}")
        return out, names, nvars

    body = "".join(fn_body(src, fname).split())
    need(body.endswith("Ok(())"), f"{where}: does not end with Ok(())")
    # `x as EdgeIdType` inside an argument list is x (identifiers are plain integers in the model)
    body = re.sub(r"(\w)as(?:EdgeIdType|VertexIdType|FaceIdType|DartIdType)([,)])", r"\1\2", body)
    return block(body, dict(base), 0)[0]


SEW2B_RS = os.environ.get("GEN_LEAN_SEW2B_RS", "/repo/honeycomb-core/src/cmap/dim2/sews/two.rs")


def gen_sews2():
    src = strip_comments(open(SEW2_RS).read())
    srcb = strip_comments(open(SEW2B_RS).read())
    fns = [(f, sew_instrs(src, f)) for f in ("one_sew", "one_unsew")] + \
          [(f, sew_instrs(srcb, f, "dim2/sews/two.rs")) for f in ("two_sew", "two_unsew")]
    out = ["/-\n  GENERATED by /verif/tools/gen_lean.py from\n  /repo/honeycomb-core/src/cmap/dim2/sews/one.rs and two.rs — DO NOT EDIT.\n"
           "  Regenerated by tools/check.py before every build of a module that imports it.\n\n"
           "  `CMap2::one_sew(lhs, rhs)` / `one_unsew(lhs)` (sews/one.rs), `two_sew(lhs, rhs)` / `two_unsew(lhs)` (sews/two.rs) as (opcode, operands):\n"
           "    (0, [f, a, b])         try_or_coerce!(self.betas.<f>(trans, a, b), SewError)   f as in Gen/Links3.lean\n"
           "    (1, [i, a])            let x = self.betas[(i, a)].read(trans)?                  (binds the next variable)\n"
           "    (5, [a])               let x = self.vertex_id_transac(trans, a)?                (binds; a tuple `let` is two of these)\n"
           "    (6, [k, o, a, b])      try_or_coerce!(self.vertices.merge / split (k = 0 / 1)(trans, o, a, b), SewError)\n"
           "    (7, [k, p, o, a, b])   try_or_coerce!(self.attributes.merge_ / split_attributes(trans, OrbitPolicy::p, o, a, b), SewError)\n"
           "    (8, [a, n, m])         if a == NULL_DART_ID { the next n instructions } else { the m instructions after them }\n"
           "    (9, [a, b, n1..n4])    match (a == NULL_DART_ID, b == NULL_DART_ID) { (true, true) => n1 instructions, (true, false) => n2,\n"
           "                           (false, true) => n3, (false, false) => n4 }  (the blocks follow in this order)\n"
           "    (10, [a])              let x = self.edge_id_transac(trans, a)?                   (binds)\n"
           "    (11, [l, b1r, b1l, r, i, a, b])  the orientation test of two_sew: read the four vertex values in this order; if all are\n"
           "                           defined and (b1l - l) . (b1r - r) >= 0, abort(SewError::BadGeometry(i, a, b))\n"
           "    `let x = y as EdgeIdType` is an alias (no instruction); `x as EdgeIdType` in an argument is x.\n"
           "  operands: 0 = lhs_dart_id, 1 = rhs_dart_id (parameter), 2 = NULL_DART_ID, 20 + j = the j-th variable bound on the path taken;\n"
           "  p: 0 = Vertex, 1 = Edge.  Props/C01Gen2.lean interprets these lists and proves them EQUAL to `oneSew2` / `oneUnsew2` / `twoSew2` / `twoUnsew2`\n  of Model/Ops2.lean.\n-/\n",
           "namespace HC.Gen\n"]
    for f, ins in fns:
        camel = re.sub(r"_(\w)", lambda m: m.group(1).upper(), f) + "2"
        out.append(f"/-- `CMap2::{f}` -/\ndef {camel} : List (Nat × List Nat) := [" +
                   ", ".join(f"({op}, [{', '.join(map(str, a))}])" for op, a in ins) + "]\n")
    out.append("end HC.Gen\n")
    txt = "\n".join(out)
    if not os.path.exists(SEW2_OUT) or open(SEW2_OUT).read() != txt:
        open(SEW2_OUT, "w").write(txt)
    return f"gen_lean: sews2 ok ({sum(len(i) for _, i in fns)} instructions)"


GENERATORS["sews2"] = gen_sews2

# ---------------------------------------------------------------------------------------------
# CMap3::one_sew / one_unsew / two_sew / two_unsew (dim3/sews/one.rs, two.rs)
# ---------------------------------------------------------------------------------------------

SEW3_RS = os.environ.get("GEN_LEAN_SEW3_RS", "/repo/honeycomb-core/src/cmap/dim3/sews/one.rs")
SEW3B_RS = os.environ.get("GEN_LEAN_SEW3B_RS", "/repo/honeycomb-core/src/cmap/dim3/sews/two.rs")
SEW3_OUT = os.path.join(os.path.dirname(SEW2_OUT), "Sews3.lean")


def gen_sews3():
    src = strip_comments(open(SEW3_RS).read())
    srcb = strip_comments(open(SEW3B_RS).read())
    fns = [(f, sew_instrs(src, f, "dim3/sews/one.rs", ("ld", "rd"))) for f in ("one_sew", "one_unsew")] + \
          [(f, sew_instrs(srcb, f, "dim3/sews/two.rs", ("ld", "rd"))) for f in ("two_sew", "two_unsew")]
    out = ["/-\n  GENERATED by /verif/tools/gen_lean.py from\n  /repo/honeycomb-core/src/cmap/dim3/sews/one.rs and two.rs — DO NOT EDIT.\n"
           "  Regenerated by tools/check.py before every build of a module that imports it.\n\n"
           "  `CMap3::one_sew(ld, rd)` / `one_unsew(ld)` (sews/one.rs), `two_sew(ld, rd)` / `two_unsew(ld)` (sews/two.rs) as (opcode, operands).\n"
           "  Opcodes 0, 1, 5, 6, 7, 9, 10, 11 as in Gen/Sews2.lean (the identifiers are the 3-D ones), and\n"
           "    (12, [a, b])       let x = if a != NULL_DART_ID { self.vertex_id_transac(trans, a)? }\n"
           "                               else if b != NULL_DART_ID { self.vertex_id_transac(trans, b)? } else { NULL_VERTEX_ID }   (binds)\n"
           "    (13, [k, a, b])    try_or_coerce!(self.one_link(trans, a, b), SewError) (k = 0) / self.one_unlink(trans, a) (k = 1)\n"
           "    (14, [a, n])       if a != NULL_VERTEX_ID { the next n instructions }\n"
           "    (15, [a, b])       let x = a.min(b)                                               (binds)\n"
           "    (16, [a, b])       let x = self.vertex_id_transac(trans, if a != NULL_DART_ID { a } else if b != NULL_DART_ID { b }\n"
           "                               else { return Ok(()); })?                              (binds, or ends the function)\n"
           "    (17, [a, b, n])    if a != b { the next n instructions }\n"
           "  operands: 0 = ld, 1 = rd (parameter), 2 = NULL_DART_ID, 20 + j = the j-th variable bound on the path taken.\n"
           "  Props/C05Gen.lean interprets these lists and proves them EQUAL to `oneSew3` / `oneUnsew3` / `twoSew3` / `twoUnsew3`\n  of Model/Ops3.lean.\n-/\n",
           "namespace HC.Gen\n"]
    for f, ins in fns:
        camel = re.sub(r"_(\w)", lambda m: m.group(1).upper(), f) + "3"
        out.append(f"/-- `CMap3::{f}` -/\ndef {camel} : List (Nat × List Nat) := [" +
                   ", ".join(f"({op}, [{', '.join(map(str, a))}])" for op, a in ins) + "]\n")
    out.append("end HC.Gen\n")
    txt = "\n".join(out)
    if not os.path.exists(SEW3_OUT) or open(SEW3_OUT).read() != txt:
        open(SEW3_OUT, "w").write(txt)
    return f"gen_lean: sews3 ok ({sum(len(i) for _, i in fns)} instructions)"


GENERATORS["sews3"] = gen_sews3

# ---------------------------------------------------------------------------------------------
# CMap3::three_sew / three_unsew (dim3/sews/three.rs): a skeleton (face walks, accumulators, `for` loops) around
# straight-line blocks
# ---------------------------------------------------------------------------------------------

SEW3C_RS = os.environ.get("GEN_LEAN_SEW3C_RS", "/repo/honeycomb-core/src/cmap/dim3/sews/three.rs")
SEW3C_OUT = os.environ.get("GEN_LEAN_SEW3C_OUT", os.path.join(os.path.dirname(SEW2_OUT), "Sews3Loops.lean"))
SEW3C_LINKS = {"three_link": 3}            # `self.three_link(trans, a, b)`: the link of this dimension


def sew3c_norm(s):
    """whitespace-normal form that keeps keywords apart: one space between two word characters, none elsewhere"""
    return re.sub(r" ?([^\w ]) ?", r"\1", " ".join(s.split()))


def sew3c_balanced(s):
    depth = 0
    for ch in s:
        if ch in "([{":
            depth += 1
        elif ch in ")]}":
            depth -= 1
            if depth < 0:
                return False
    return depth == 0


def sew3c_stmt_end(body, pos, where):
    """index after the `;` ending the statement that starts at pos (brackets balanced)"""
    depth = 0
    for j in range(pos, len(body)):
        ch = body[j]
        if ch in "([{":
            depth += 1
        elif ch in ")]}":
            depth -= 1
            need(depth >= 0, f"{where}: unbalanced statement at {body[pos:pos + 60]!r}")
        elif ch == ";" and depth == 0:
            return j + 1
    raise Shape(f"{where}: statement without `;` at {body[pos:pos + 60]!r}")


def sew3c_expr(e, names, st, where):
    """translate an expression (evaluated left to right, every call binds an anonymous variable); returns its operand"""
    def fresh(ins):
        st["out"].append(ins)
        st["nvars"] += 1
        return 20 + st["nvars"] - 1

    if re.fullmatch(r"\w+", e):
        need(e in names, f"{where}: unknown name {e!r}")
        return names[e]
    m = re.fullmatch(r"(\w+)\.min\((\w+)\)", e)
    if m:
        return fresh((15, [sew3c_expr(m.group(1), names, st, where), sew3c_expr(m.group(2), names, st, where)]))
    m = re.fullmatch(r"if (\w+)==NULL_DART_ID\{(\w+)\}else\{(\w+)\}", e)
    if m:
        return fresh((18, [sew3c_expr(g, names, st, where) for g in m.groups()]))
    m = re.fullmatch(r"self\.(vertex_id_transac|edge_id_transac)\(trans,(.+)\)\?", e)
    if m and sew3c_balanced(m.group(2)):
        a = sew3c_expr(m.group(2), names, st, where)
        return fresh((5 if m.group(1) == "vertex_id_transac" else 10, [a]))
    m = re.fullmatch(r"self\.beta_transac::<(\d)>\(trans,(.+)\)\?", e)
    if m and sew3c_balanced(m.group(2)):
        a = sew3c_expr(m.group(2), names, st, where)
        return fresh((1, [int(m.group(1)), a]))
    raise Shape(f"{where}: expression not recognised: {e[:90]!r}")


def sew3c_stmt(body, pos, names, st, accs, where):
    """translate ONE straight-line statement starting at pos (instructions appended to st["out"]); returns the position after it"""
    def ex(e):
        return sew3c_expr(e, names, st, where)

    def bind(name, v):
        need(name not in names, f"{where}: {name} bound twice")
        names[name] = v

    if body.startswith("let ", pos) or body.startswith("let(", pos):
        end = sew3c_stmt_end(body, pos, where)
        s = body[pos:end - 1]
        m = re.fullmatch(r"let (\w+)=(.+)", s)
        if m:
            bind(m.group(1), ex(m.group(2)))
            return end
        m = re.fullmatch(r"let\(([\w,]+)\)=\((.+)\)", s)
        need(m and sew3c_balanced(m.group(2)), f"{where}: `let` not recognised at {s[:80]!r}")
        ns, es = [x for x in m.group(1).split(",") if x], split_top(m.group(2))
        need(len(ns) == len(es) and len(ns) in (2, 4), f"{where}: tuple `let` with {len(ns)} names and {len(es)} values")
        vals = [ex(e) for e in es]                  # all right-hand sides are evaluated before any name is bound
        for nm, v in zip(ns, vals):
            bind(nm, v)
        return end
    if body.startswith("try_or_coerce!(", pos):
        end = sew3c_stmt_end(body, pos, where)
        m = re.fullmatch(r"try_or_coerce!\((.+),SewError\)", body[pos:end - 1])
        need(m and sew3c_balanced(m.group(1)), f"{where}: try_or_coerce! not recognised at {body[pos:pos + 80]!r}")
        call = m.group(1)
        c = re.fullmatch(r"self\.vertices\.(merge|split)\(trans,(.+)\)", call)
        if c:
            args = split_top(c.group(2))
            need(len(args) == 3, f"{where}: vertices.{c.group(1)} with {len(args)} identifiers")
            st["out"].append((6, [0 if c.group(1) == "merge" else 1] + [ex(a) for a in args]))
            return end
        c = re.fullmatch(r"self\.attributes\.(merge|split)_attributes\(trans,OrbitPolicy::(\w+),(.+)\)", call)
        if c:
            need(c.group(2) in POLICY_CODE, f"{where}: unknown policy {c.group(2)}")
            args = split_top(c.group(3))
            need(len(args) == 3, f"{where}: {c.group(1)}_attributes with {len(args)} identifiers")
            st["out"].append((7, [0 if c.group(1) == "merge" else 1, POLICY_CODE[c.group(2)]] + [ex(a) for a in args]))
            return end
        c = re.fullmatch(r"self\.(\w+)\(trans,(\w+),(\w+)\)", call)
        if c:
            need(c.group(1) in SEW3C_LINKS, f"{where}: unknown call {c.group(1)}")
            st["out"].append((21, [0, SEW3C_LINKS[c.group(1)], ex(c.group(2)), ex(c.group(3))]))
            return end
        c = re.fullmatch(r"self\.unlink::<(\d)>\(trans,(\w+)\)", call)
        if c:
            st["out"].append((21, [1, int(c.group(1)), ex(c.group(2)), 2]))
            return end
        raise Shape(f"{where}: call not recognised: {call[:90]!r}")
    m = re.compile(r"(\w+)\.push\(").match(body, pos)
    if m and m.group(1) in accs:
        end = sew3c_stmt_end(body, pos, where)
        mm = re.fullmatch(r"\w+\.push\(\((.+)\)\)", body[pos:end - 1])
        need(mm and sew3c_balanced(mm.group(1)), f"{where}: push not recognised at {body[pos:pos + 80]!r}")
        es = split_top(mm.group(1))
        need(len(es) == 2, f"{where}: push of a {len(es)}-tuple")
        st["out"].append((20, [accs[m.group(1)]] + [ex(e) for e in es]))
        return end
    if body.startswith("if let(", pos):
        # the orientation test: four vertex reads, two difference vectors, abort on a non-negative dot product
        rv = r"self\.vertices\.read\(trans,(\w+)\)\?"
        m = re.compile(r"if let\(Some\((\w+)\),Some\((\w+)\),Some\((\w+)\),Some\((\w+)\),?\)=\(" +
                       rv + "," + rv + "," + rv + "," + rv + r",?\)\{let (\w+)=(\w+)-(\w+);let (\w+)=(\w+)-(\w+);"
                       r"if (\w+)\.dot\(&(\w+)\)>=T::zero\(\)\{abort\(SewError::BadGeometry\((\d),(\w+),(\w+)\)\)\?;\}\}").match(body, pos)
        need(m, f"{where}: orientation test not recognised at {body[pos:pos + 90]!r}")
        g = m.groups()
        pl, pb1r, pb1l, pr = g[0:4]
        need((g[9], g[10]) == (pb1l, pl) and (g[12], g[13]) == (pb1r, pr) and {g[14], g[15]} == {g[8], g[11]} and g[8] != g[11],
             f"{where}: orientation test is not (b1l - l).(b1r - r) >= 0 on the values read in the order l, b1r, b1l, r")
        st["out"].append((11, [ex(g[4]), ex(g[5]), ex(g[6]), ex(g[7]), int(g[16]), ex(g[17]), ex(g[18])]))
        return m.end()
    if body.startswith("if ", pos):
        brace = body.find("{", pos)
        need(brace > 0, f"{where}: `if` without block")
        m = re.fullmatch(r"(.+)==NULL_DART_ID", body[pos + 3:brace])
        need(m and sew3c_balanced(m.group(1)), f"{where}: `if` condition not recognised: {body[pos:brace][:80]!r}")
        inner, end = block_after(body, brace, where)
        need(not body.startswith("else", end), f"{where}: unexpected `else`")
        c = ex(m.group(1))
        sub = {"out": [], "nvars": st["nvars"]}      # the variables of the block are dropped after it (the interpreter restores them)
        sew3c_block(inner, dict(names), sub, accs, where)
        st["out"].append((19, [c, len(sub["out"])]))
        st["out"] += sub["out"]
        return end
    if body.startswith("{", pos):
        inner, end = block_after(body, pos, where)
        sew3c_block(inner, dict(names), st, accs, where)       # names are local to the block, variables keep their numbers
        return end
    raise Shape(f"{where}: statement not recognised at {body[pos:pos + 90]!r}")


def sew3c_block(body, names, st, accs, where):
    pos = 0
    while pos < len(body):
        pos = sew3c_stmt(body, pos, names, st, accs, where)


def sew3c_fn(src, fname, params):
    """returns (skeleton, blocks)"""
    where = f"dim3/sews/three.rs {fname}"
    sig = "".join(fn_sig(src, fname).split())
    need(re.findall(r"(\w+):DartIdType", sig) == params, f"{where}: parameters are not {params}")
    body = sew3c_norm(fn_body(src, fname))
    need(body.endswith("Ok(())"), f"{where}: does not end with Ok(())")
    body = body[:-len("Ok(())")]
    names = {p: k for k, p in enumerate(params)}
    names["NULL_DART_ID"] = 2
    sides, accs, blocks, skel = {}, {}, [], []
    st = {"out": [], "nvars": 0}

    def fresh_name(nm):
        need(nm not in names and nm not in sides and nm not in accs, f"{where}: {nm} bound twice")

    def loop_body(inner, a, b, with_accs):
        need(a != b, f"{where}: loop pattern ({a}, {b})")
        bst = {"out": [], "nvars": 0}
        sew3c_block(inner, {a: 0, b: 1, "NULL_DART_ID": 2}, bst, accs if with_accs else {}, where)
        blocks.append(bst["out"])
        return len(blocks) - 1

    pos = 0
    while pos < len(body):
        m = re.compile(r"let (\w+)=self\.orbit_transac\(trans,OrbitPolicy::Custom\(&\[([\d,]*)\]\),(\w+)\)"
                       r"\.collect::<Result<Vec<_>,_>>\(\)\?;").match(body, pos)
        if m:
            fresh_name(m.group(1))
            gens = [int(x) for x in m.group(2).split(",") if x]
            need(gens, f"{where}: empty Custom policy")
            need(m.group(3) in names, f"{where}: unknown name {m.group(3)!r}")
            skel.append((40, [names[m.group(3)]] + gens))
            sides[m.group(1)] = len(sides)
            pos = m.end()
            continue
        m = re.compile(r"let (\w+)=(\w+)\.iter\(\)\.copied\(\)\.min\(\)\.expect\(\"[^\"]*\"\);").match(body, pos)
        if m:
            fresh_name(m.group(1))
            need(m.group(2) in sides, f"{where}: {m.group(2)} is not a collected walk")
            skel.append((41, [sides[m.group(2)]]))
            names[m.group(1)] = 20 + st["nvars"]
            st["nvars"] += 1
            pos = m.end()
            continue
        m = re.compile(r"let mut (\w+):Vec<\((\w+),(\w+)\)>=Vec::with_capacity\(\d+\);").match(body, pos)
        if m:
            fresh_name(m.group(1))
            need(len(accs) < 2, f"{where}: more than two accumulators")
            accs[m.group(1)] = len(accs)
            skel.append((42, [accs[m.group(1)]]))
            pos = m.end()
            continue
        m = re.compile(r"for\((\w+),(\w+)\)in (\w+)\.into_iter\(\)\.zip\((\w+)\)\{").match(body, pos)
        if m:
            need(m.group(3) in sides and m.group(4) in sides, f"{where}: zip of {m.group(3)}, {m.group(4)}")
            inner, pos = block_after(body, m.end() - 1, where)
            skel.append((43, [sides[m.group(3)], sides[m.group(4)], loop_body(inner, m.group(1), m.group(2), True)]))
            continue
        m = re.compile(r"for\((\w+),(\w+)\)in (\w+)\.into_iter\(\)\.filter\(\|&\((\w+),(\w+)\)\|\{([^{}]*)\}\)\{").match(body, pos)
        if m:
            need(m.group(3) in accs, f"{where}: {m.group(3)} is not an accumulator")
            need(m.group(4) != m.group(5), f"{where}: closure pattern")
            cn = {m.group(4): 0, m.group(5): 1, "NULL_DART_ID": 2}
            conds = []
            for c in m.group(6).split("&&"):
                mm = re.fullmatch(r"(\w+)!=(\w+)", c)
                need(mm and mm.group(1) in cn and mm.group(2) in cn, f"{where}: filter condition {c!r}")
                conds += [cn[mm.group(1)], cn[mm.group(2)]]
            inner, pos = block_after(body, m.end() - 1, where)
            skel.append((44, [accs[m.group(3)], loop_body(inner, m.group(1), m.group(2), False)] + conds))
            continue
        pos = sew3c_stmt(body, pos, names, st, accs, where)
        for op, args in st["out"]:
            need(op != 19, f"{where}: conditional block outside the loop bodies")
            skel.append((45, [op] + args))
        st["out"] = []
    return skel, blocks


def gen_sews3c():
    src = strip_comments(open(SEW3C_RS).read())
    fns = [("three_sew", "threeSew") + sew3c_fn(src, "three_sew", ["ld", "rd"]),
           ("three_unsew", "threeUnsew") + sew3c_fn(src, "three_unsew", ["ld"])]

    def lst(ins):
        return "[" + ", ".join(f"({op}, [{', '.join(map(str, a))}])" for op, a in ins) + "]"

    out = ["/-\n  GENERATED by /verif/tools/gen_lean.py from\n  /repo/honeycomb-core/src/cmap/dim3/sews/three.rs — DO NOT EDIT.\n"
           "  Regenerated by tools/check.py before every build of a module that imports it.\n\n"
           "  `CMap3::three_sew(ld, rd)` / `three_unsew(ld)`: a SKELETON (`…Skel`) and the BLOCKS it loops over (`…Body<j>`, collected in\n"
           "  `…Bodies`), all as (opcode, operands).  Straight-line instructions (blocks; in a skeleton wrapped as (45, op :: operands)):\n"
           "    (1, [i, a])            self.beta_transac::<i>(trans, a)?                               (binds the next variable)\n"
           "    (5, [a]) / (10, [a])   self.vertex_id_transac(trans, a)? / self.edge_id_transac(trans, a)?   (binds)\n"
           "    (6, [k, x, y, z])      try_or_coerce!(self.vertices.merge / split (k = 0 / 1)(trans, x, y, z), SewError)\n"
           "    (7, [k, p, x, y, z])   try_or_coerce!(self.attributes.merge_ / split_attributes(trans, OrbitPolicy::p, x, y, z), SewError)\n"
           "    (11, [l, b1r, b1l, r, i, a, b])  the orientation test: read the four vertex values in this order (`?` after each);\n"
           "                           if all are defined and (b1l - l) . (b1r - r) >= 0, abort(SewError::BadGeometry(i, a, b))\n"
           "    (15, [a, b])           a.min(b)                                                         (binds)\n"
           "    (18, [x, y, z])        if x == NULL_DART_ID { y } else { z }                            (binds)\n"
           "    (19, [a, n])           if a == NULL_DART_ID { the next n instructions }                 (their variables are dropped after the block)\n"
           "    (20, [j, a, b])        <accumulator j>.push((a, b))\n"
           "    (21, [0, i, a, b])     try_or_coerce!(self.three_link(trans, a, b), SewError)  (i = 3)\n"
           "    (21, [1, i, a, 2])     try_or_coerce!(self.unlink::<i>(trans, a), SewError)\n"
           "  Nested calls are flattened in evaluation order (left to right, arguments first), every call binding an anonymous\n"
           "  variable; `let x = e` / `let (x, y, …) = (e, f, …)` only name operands (all right-hand sides evaluated first).\n"
           "  Skeleton instructions:\n"
           "    (40, a :: g)           let side<j> = self.orbit_transac(trans, OrbitPolicy::Custom(&g), a).collect::<Result<Vec<_>, _>>()?\n"
           "    (41, [s])              let x = side<s>.iter().copied().min().expect(..)   (binds; the walk starts with its start dart, which\n"
           "                           the interpreter — like the model — uses as the seed of the minimum)\n"
           "    (42, [j])              let mut <accumulator j> = Vec::with_capacity(..)\n"
           "    (43, [s, t, b])        for (l, r) in side<s>.into_iter().zip(side<t>) { block b with operands 0, 1 = l, r }\n"
           "    (44, j :: b :: c)      for (x, y) in <accumulator j>.into_iter().filter(|&(u, v)| c) { block b with operands 0, 1 = x, y };\n"
           "                           c = [a1, b1, a2, b2, …] stands for a1 != b1 && a2 != b2 && … over 0 = u, 1 = v, 2 = NULL_DART_ID\n"
           "  operands: 0 = ld / first loop variable, 1 = rd / second loop variable, 2 = NULL_DART_ID, 20 + j = the j-th variable bound\n"
           "  on the path taken; p: 0 = Vertex, 1 = Edge, 2 = Face.  Props/C05Gen3.lean interprets these lists and proves them EQUAL to\n"
           "  `threeSew3` / `threeUnsew3` (and their loops `threeSewCollect` / `threeUnsewLoop`) of Model/Ops3.lean.\n-/\n",
           "namespace HC.Gen\n"]
    for f, camel, skel, blocks in fns:
        for j, b in enumerate(blocks):
            out.append(f"/-- `CMap3::{f}`: body of its loop number {j} -/\ndef {camel}Body{j} : List (Nat × List Nat) := {lst(b)}\n")
        out.append(f"/-- `CMap3::{f}`: the loop bodies, as numbered by the skeleton -/\ndef {camel}Bodies : List (List (Nat × List Nat)) := [" +
                   ", ".join(f"{camel}Body{j}" for j in range(len(blocks))) + "]\n")
        out.append(f"/-- `CMap3::{f}`: the skeleton -/\ndef {camel}Skel : List (Nat × List Nat) := {lst(skel)}\n")
    out.append("end HC.Gen\n")
    txt = "\n".join(out)
    if not os.path.exists(SEW3C_OUT) or open(SEW3C_OUT).read() != txt:
        open(SEW3C_OUT, "w").write(txt)
    n_ins = sum(len(s) + sum(len(b) for b in bl) for _, _, s, bl in fns)
    return f"gen_lean: sews3c ok ({n_ins} instructions)"


GENERATORS["sews3c"] = gen_sews3c

# ---------------------------------------------------------------------------------------------
# CMap3::three_link / three_unlink (dim3/links/three.rs): straight-line code + two `while` loops over the
# mutable pair (lside, rside)
# ---------------------------------------------------------------------------------------------

LINK3C_RS = os.environ.get("GEN_LEAN_LINK3C_RS", "/repo/honeycomb-core/src/cmap/dim3/links/three.rs")
LINK3C_OUT = os.path.join(os.path.dirname(LINK3_OUT), "Links3Loops.lean")


def link3c_instrs(src, fname):
    where = f"dim3/links/three.rs {fname}"
    sig = "".join(fn_sig(src, fname).split())
    params = re.findall(r"(\w+):DartIdType", sig)
    need(params in (["ld", "rd"], ["ld"]), f"{where}: parameters {params}")
    names = {p: k for k, p in enumerate(params)}
    names["NULL_DART_ID"] = 2
    nvars = [0]
    regs = {}                      # the two `mut` variables, codes 10 and 11, declared by the `let (mut a, mut b) = …`

    def arg(tok):
        if tok in regs:
            return regs[tok]
        need(tok in names, f"{where}: unknown name {tok!r}")
        return names[tok]

    def bind(name):
        need(name not in names and name not in regs, f"{where}: {name} bound twice")
        names[name] = 20 + nvars[0]
        nvars[0] += 1

    beta = r"self\.beta_transac::<(\d)>\(trans,(\w+)\)\?"
    ab = r"\{abort\(LinkError::(\w+)\(([\w,]*)\)\)\?;\}"

    def err(k, es):
        need(k in LINK_ERRS3, f"{where}: unknown LinkError::{k}")
        return [LINK_ERRS3[k]] + [arg(a) for a in es.split(",") if a]

    def block(body):
        out, pos = [], 0
        while pos < len(body):
            m = re.compile(r"self\.betas\.(\w+_core)\(trans,(\w+)(?:,(\w+))?\)\?;").match(body, pos)
            if m:
                need(m.group(1) in CORE_CODE, f"{where}: unknown core {m.group(1)}")
                two = CORE_CODE[m.group(1)] < 3
                need((m.group(3) is not None) == two, f"{where}: arity of {m.group(1)}")
                out.append((0, [CORE_CODE[m.group(1)], arg(m.group(2)), arg(m.group(3)) if two else 2]))
                pos = m.end()
                continue
            m = re.compile(r"let(\w+)=" + beta + ";").match(body, pos)
            if m:
                out.append((1, [int(m.group(2)), arg(m.group(3))]))
                bind(m.group(1))
                pos = m.end()
                continue
            m = re.compile(r"let\(mut(\w+),mut(\w+)\)=\(" + beta + "," + beta + r",?\);").match(body, pos)
            if m:
                need(not regs, f"{where}: a second pair of mutable variables")
                out.append((30, [int(m.group(3)), arg(m.group(4)), int(m.group(5)), arg(m.group(6))]))
                regs[m.group(1)], regs[m.group(2)] = 10, 11
                pos = m.end()
                continue
            m = re.compile(r"\((\w+),(\w+)\)=\(" + beta + "," + beta + r",?\);").match(body, pos)
            if m:
                need(regs.get(m.group(1)) == 10 and regs.get(m.group(2)) == 11, f"{where}: assignment to {m.group(1)}, {m.group(2)}")
                out.append((30, [int(m.group(3)), arg(m.group(4)), int(m.group(5)), arg(m.group(6))]))
                pos = m.end()
                continue
            m = re.compile(r"while(\w+)!=(\w+)&&(\w+)!=NULL_DART_ID\{").match(body, pos) or \
                re.compile(r"while(\w+)!=(NULL_DART_ID)()\{").match(body, pos)
            if m:
                need(regs.get(m.group(1)) == 10 and m.group(3) in ("", m.group(1)), f"{where}: loop condition is not on the first mutable variable")
                need(m.group(2) not in regs, f"{where}: the loop is bounded by a mutable variable")
                inner, end = block_after(body, m.end() - 1, where)
                sub = block(inner)
                need(sub and sub[-1][0] == 30, f"{where}: the loop body does not end with the assignment of the pair")
                out.append((31, [arg(m.group(2)), len(sub)]))
                out += sub
                pos = end
                continue
            m = re.compile(r"if(\w+)(==|!=)(\w+)" + ab).match(body, pos)
            if m:
                out.append((32 if m.group(2) == "==" else 33, [arg(m.group(1)), arg(m.group(3))] + err(m.group(4), m.group(5))))
                pos = m.end()
                continue
            m = re.compile(r"if(\w+)!=" + beta + ab).match(body, pos)
            if m:
                out.append((34, [arg(m.group(1)), int(m.group(2)), arg(m.group(3))] + err(m.group(4), m.group(5))))
                pos = m.end()
                continue
            m = re.compile(r"assert_eq!\((\w+)," + beta + r"\);").match(body, pos)
            if m:
                out.append((35, [arg(m.group(1)), int(m.group(2)), arg(m.group(3))]))
                pos = m.end()
                continue
            m = re.compile(r"if(\w+)==NULL_DART_ID\{").match(body, pos)
            if m:
                th, end = block_after(body, m.end() - 1, where)
                t_ins = block(th)
                e_ins = []
                if body.startswith("elseif", end):
                    # `else if c { abort }` is `else { if c { abort } }`
                    m2 = re.compile(r"elseif(\w+)(==|!=)(\w+)" + ab).match(body, end)
                    need(m2, f"{where}: `else if` not recognised at {body[end:end + 80]!r}")
                    e_ins = [(32 if m2.group(2) == "==" else 33, [arg(m2.group(1)), arg(m2.group(3))] + err(m2.group(4), m2.group(5)))]
                    end = m2.end()
                else:
                    need(not body.startswith("else", end), f"{where}: unexpected `else`")
                out.append((36, [arg(m.group(1)), len(t_ins), len(e_ins)]))
                out += t_ins + e_ins
                pos = end
                continue
            m = re.compile(r"Ok\(\(\)\)$").match(body, pos)
            if m:
                pos = m.end()
                continue
            raise Shape(f"{where}: statement not recognised at {body[pos:pos + 90]!r}")
        return out

    body = "".join(fn_body(src, fname).split())
    need(body.endswith("Ok(())"), f"{where}: does not end with Ok(())")
    return block(body)


def gen_links3c():
    src = strip_comments(open(LINK3C_RS).read())
    fns = [(f, link3c_instrs(src, f)) for f in ("three_link", "three_unlink")]
    out = ["/-\n  GENERATED by /verif/tools/gen_lean.py from\n  /repo/honeycomb-core/src/cmap/dim3/links/three.rs — DO NOT EDIT.\n"
           "  Regenerated by tools/check.py before every build of a module that imports it.\n\n"
           "  `CMap3::three_link(ld, rd)` / `CMap3::three_unlink(ld)` as (opcode, operands):\n"
           "    (0, [f, a, b])          self.betas.<f>(trans, a, b)?     f as in Gen/Links3.lean\n"
           "    (1, [i, a])             let x = self.beta_transac::<i>(trans, a)?        (binds the next variable)\n"
           "    (30, [i, a, j, b])      (lside, rside) = (self.beta_transac::<i>(trans, a)?, self.beta_transac::<j>(trans, b)?)\n"
           "                            (also the declaring `let (mut lside, mut rside) = …`; both reads use the old values)\n"
           "    (31, [s, n])            while lside != s && lside != NULL_DART_ID { the next n instructions }   (s = 2: only the null test)\n"
           "    (32, [a, b, k, e…])     if a == b { abort(LinkError::k(e…))?; }\n"
           "    (33, [a, b, k, e…])     if a != b { abort(LinkError::k(e…))?; }\n"
           "    (34, [a, i, b, k, e…])  if a != self.beta_transac::<i>(trans, b)? { abort(LinkError::k(e…))?; }\n"
           "    (35, [a, i, b])         assert_eq!(a, self.beta_transac::<i>(trans, b)?)\n"
           "    (36, [a, n, m])         if a == NULL_DART_ID { the next n instructions } else { the m instructions after them }\n"
           "  operands: 0 = ld, 1 = rd (when a parameter), 2 = NULL_DART_ID, 10 = lside, 11 = rside, 20 + j = the j-th bound variable;\n"
           "  k: 3 = AsymmetricalFaces.  Props/C02Gen3.lean interprets these lists and proves them EQUAL to `threeLink3` / `threeUnlink3`\n"
           "  of Model/Ops3.lean.\n-/\n",
           "namespace HC.Gen\n"]
    for f, ins in fns:
        camel = re.sub(r"_(\w)", lambda m: m.group(1).upper(), f) + "3"
        out.append(f"/-- `CMap3::{f}` -/\ndef {camel} : List (Nat × List Nat) := [" +
                   ", ".join(f"({op}, [{', '.join(map(str, a))}])" for op, a in ins) + "]\n")
    out.append("end HC.Gen\n")
    txt = "\n".join(out)
    if not os.path.exists(LINK3C_OUT) or open(LINK3C_OUT).read() != txt:
        open(LINK3C_OUT, "w").write(txt)
    return f"gen_lean: links3c ok ({sum(len(i) for _, i in fns)} instructions)"


GENERATORS["links3c"] = gen_links3c

# ---------------------------------------------------------------------------------------------
# the public (un)link / (un)sew API of CMap3: dim3/links/mod.rs and dim3/sews/mod.rs dispatch on the const generic I; the
# `force_` variants wrap the same internal function in `atomically_with_err`; `two_link` / `two_unlink` are the cores
# ---------------------------------------------------------------------------------------------

D3_LINKS = os.environ.get("GEN_LEAN_D3_LINKS_DIR", "/repo/honeycomb-core/src/cmap/dim3/links")
D3_SEWS = os.environ.get("GEN_LEAN_D3_SEWS_DIR", "/repo/honeycomb-core/src/cmap/dim3/sews")
DISPATCH3_OUT = os.path.join(os.path.dirname(LINK3_OUT), "Dispatch3.lean")
FN_CODE = dict(CORE_CODE, one_link=10, one_unlink=11, three_link=12, three_unlink=13,
               one_sew=20, one_unsew=21, two_sew=22, two_unsew=23, three_sew=24, three_unsew=25)


def dispatch_table(src, fname, where, forced):
    """`assert!(I < 4); assert_ne!(I, 0); match I { k => self.f(trans, args), …, _ => unreachable!() }` -> (bound, excluded, [(k, f)])"""
    body = "".join(fn_body(src, fname).split())
    sig = "".join(fn_sig(src, fname).split())
    params = re.findall(r"(\w+):DartIdType", sig)
    m = re.fullmatch(r"assert!\(I<(\d)\);assert_ne!\(I,(\d)\);matchI\{(.*?),?_=>unreachable!\(\),?\}", body)
    need(m, f"{where} {fname}: not `assert!(I < n); assert_ne!(I, k); match I {{ … }}`")
    arms = []
    for arm in split_depth0(m.group(3), ","):
        if forced == "closure":
            h = re.fullmatch(r"(\d)=>atomically_with_err\(\|trans\|self\.(\w+)\(trans,([\w,]*)\)\)", arm)
        elif forced == "method":
            h = re.fullmatch(r"(\d)=>self\.(\w+)\(()([\w,]*)\)", arm)
            if h:
                h = (h.group(1), h.group(2), h.group(4))
        else:
            h = re.fullmatch(r"(\d)=>self\.(\w+)\(trans,([\w,]*)\)", arm)
        need(h, f"{where} {fname}: arm not recognised: {arm!r}")
        k, f, args = (h if isinstance(h, tuple) else h.groups())
        need([a for a in args.split(",") if a] == params, f"{where} {fname}: arm {k} passes {args} for the parameters {params}")
        arms.append((int(k), f))
    return int(m.group(1)), int(m.group(2)), arms


def wrapper_target(src, fname, where):
    """body `self.betas.X_core(trans, p…)` or `self.Y(trans, p…)`, possibly inside `atomically_with_err(|trans| …)` -> (forced, name)"""
    body = "".join(fn_body(src, fname).split())
    sig = "".join(fn_sig(src, fname).split())
    params = re.findall(r"(\w+):DartIdType", sig)
    m = re.fullmatch(r"(atomically_with_err\(\|trans\|)?self\.(?:betas\.)?(\w+)\(trans,([\w,]*)\)(\))?", body)
    need(m and (m.group(1) is None) == (m.group(4) is None), f"{where} {fname}: not a plain wrapper: {body[:100]!r}")
    need([a for a in m.group(3).split(",") if a] == params, f"{where} {fname}: passes {m.group(3)} for the parameters {params}")
    return (1 if m.group(1) else 0), m.group(2)


def gen_dispatch(dim, links_dir, sews_dir, out_path):
    lm = strip_comments(open(os.path.join(links_dir, "mod.rs")).read())
    sm = strip_comments(open(os.path.join(sews_dir, "mod.rs")).read())
    lsrc = {k: strip_comments(open(os.path.join(links_dir, k + ".rs")).read()) for k in (("one", "two", "three") if dim == 3 else ("one", "two"))}
    tabs = []

    def resolve(f, where):
        # internal functions that are themselves plain wrappers are followed to what they call
        for k, s in lsrc.items():
            if re.search(r"fn\s+" + f + r"\b", s):
                b = "".join(fn_body(s, f).split())
                if re.fullmatch(r"(atomically_with_err\(\|trans\|)?self\.(?:betas\.)?\w+\(trans,[\w,]*\)\)?", b):
                    forced, g = wrapper_target(s, f, f"dim{dim}/links/{k}.rs")
                    f2, g2 = resolve(g, where) if g not in FN_CODE else (0, g)
                    return forced + f2, g2
        need(f in FN_CODE, f"{where}: unknown internal function {f}")
        return 0, f

    for name, src, fname, forced, where in ((f"link{dim}", lm, "link", None, f"dim{dim}/links/mod.rs"), (f"unlink{dim}", lm, "unlink", None, f"dim{dim}/links/mod.rs"),
                                            (f"forceLink{dim}", lm, "force_link", "method", f"dim{dim}/links/mod.rs"),
                                            (f"forceUnlink{dim}", lm, "force_unlink", "method", f"dim{dim}/links/mod.rs"),
                                            (f"sew{dim}", sm, "sew", None, f"dim{dim}/sews/mod.rs"), (f"unsew{dim}", sm, "unsew", None, f"dim{dim}/sews/mod.rs"),
                                            (f"forceSew{dim}", sm, "force_sew", "closure", f"dim{dim}/sews/mod.rs"),
                                            (f"forceUnsew{dim}", sm, "force_unsew", "closure", f"dim{dim}/sews/mod.rs")):
        bound, excl, arms = dispatch_table(src, fname, where, forced)
        rows = []
        for k, f in arms:
            nf, g = resolve(f, f"{where} {fname}")
            nf += 1 if forced == "closure" else 0
            need(nf == (1 if forced else 0), f"{where} {fname}: arm {k} runs {g} inside {nf} transaction wrapper(s)")
            rows.append((k, FN_CODE[g]))
        tabs.append((name, bound, excl, rows))
    out = ["/-\n  GENERATED by /verif/tools/gen_lean.py from /repo/honeycomb-core/src/cmap/dim" + str(dim) + "/links/*.rs and dim" + str(dim) + "/sews/mod.rs\n"
           "  — DO NOT EDIT.  Regenerated by tools/check.py before every build of a module that imports it.\n\n"
           "  The public API of CMap" + str(dim) + ", per function: (n, k, arms) for `assert!(I < n); assert_ne!(I, k); match I { i => f, … }`; every arm passes the\n"
           "  parameters on in order; f is the internal function finally run, plain wrappers followed (`two_link` is `self.betas.two_link_core`):\n"
           "  0..5 = one/two/three_link_core, one/two/three_unlink_core; 10 one_link, 11 one_unlink, 12 three_link, 13 three_unlink; 20 one_sew,\n"
           "  21 one_unsew, 22 two_sew, 23 two_unsew, 24 three_sew, 25 three_unsew.  The `force*` tables: the same function run inside exactly one\n"
           "  `atomically_with_err`.  Props/C01GenApi.lean (2-D) / C02GenApi.lean (3-D) prove that the model's `prog` dispatches exactly like this, to the TRANSLATED functions.\n-/\n",
           f"namespace HC.Gen.Dispatch{dim}\n"]
    for name, bound, excl, rows in tabs:
        out.append(f"def {name} : Nat × Nat × List (Nat × Nat) := ({bound}, {excl}, [" + ", ".join(f"({k}, {c})" for k, c in rows) + "])")
    out.append(f"\nend HC.Gen.Dispatch{dim}\n")
    txt = "\n".join(out)
    if not os.path.exists(out_path) or open(out_path).read() != txt:
        open(out_path, "w").write(txt)
    return f"gen_lean: dispatch{dim} ok"


D2_LINKS = os.environ.get("GEN_LEAN_D2_LINKS_DIR", "/repo/honeycomb-core/src/cmap/dim2/links")
D2_SEWS = os.environ.get("GEN_LEAN_D2_SEWS_DIR", "/repo/honeycomb-core/src/cmap/dim2/sews")


def gen_dispatch3():
    return gen_dispatch(3, D3_LINKS, D3_SEWS, DISPATCH3_OUT)


def gen_dispatch2():
    return gen_dispatch(2, D2_LINKS, D2_SEWS, os.path.join(os.path.dirname(DISPATCH3_OUT), "Dispatch2.lean"))


GENERATORS["dispatch2"] = gen_dispatch2


# ---------------------------------------------------------------------------------------------
# geometric primitives (C19): every impl block of geometry/dim2/vector.rs, dim2/vertex.rs, dim3/vector.rs, dim3/vertex.rs.
# Component-wise arithmetic is PARSED (precedence climbing: unary minus, * /, + -, parentheses, field access `.0`, accessor
# calls `.x()`) into expression trees; `self.0 -= rhs.0;` sequences are kept as statements (the Lean side runs them).
# Every top-level item of the four files and every item of every impl block is translated, pinned (its whitespace-normalised
# text must equal a fixed string) or refused (`Shape`); nothing is skipped silently.
# ---------------------------------------------------------------------------------------------

GEOM_DIR = os.environ.get("GEN_LEAN_GEOM_DIR", "/repo/honeycomb-core/src/geometry")
GEOM_OUT = os.environ.get("GEN_LEAN_GEOM_OUT", os.path.join(VERIF, "lean", "Honeycomb", "Gen", "Geometry.lean"))
GEOM_FILES = [("dim2/vector.rs", "Vector2", "dim2_vector"), ("dim2/vertex.rs", "Vertex2", "dim2_vertex"),
              ("dim3/vector.rs", "Vector3", "dim3_vector"), ("dim3/vertex.rs", "Vertex3", "dim3_vertex")]
GEOM_TY = {"T": 0, "Vector2": 1, "Vertex2": 2, "Vector3": 3, "Vertex3": 4}   # 5 = tuple of T, 6 = `()` (a `&mut self` operator)
GEOM_TRAIT_FN = {"Add": "add", "Sub": "sub", "Mul": "mul", "Div": "div", "Neg": "neg", "AddAssign": "add_assign",
                 "SubAssign": "sub_assign", "MulAssign": "mul_assign", "DivAssign": "div_assign", "From": "from"}
GEOM_BIN = {"+": "add", "-": "sub", "*": "mul", "/": "div"}
GEOM_TOK = re.compile(r"\s*(T::zero\(\)|T::one\(\)|[A-Za-z_]\w*|\d+|[-+*/().,])")
# impl blocks that are not arithmetic: header -> (reason, normalised body the block must have)
GEOM_PINNED_IMPLS = {
    "unsafe impl<T:CoordsFloat>Send for {ty}<T>": ("marker trait, empty body", ""),
    "unsafe impl<T:CoordsFloat>Sync for {ty}<T>": ("marker trait, empty body", ""),
    "impl<T:CoordsFloat>AttributeUpdate for {ty}<T>": (
        "attribute laws (C04): merge = Self::average(&attr1, &attr2) — `average` itself is translated —, split duplicates, "
        "merge_incomplete keeps; no arithmetic of its own; text pinned",
        "fn merge(attr1:Self,attr2:Self)->Result<Self,AttributeError>{Ok(Self::average(&attr1,&attr2))}"
        "fn split(attr:Self)->Result<(Self,Self),AttributeError>{Ok((attr,attr))}"
        "fn merge_incomplete(attr:Self)->Result<Self,AttributeError>{Ok(attr)}"),
    "impl<T:CoordsFloat>AttributeBind for {ty}<T>": (
        "associated types and the constant BIND_POLICY = OrbitPolicy::Vertex, no function; text pinned",
        "type StorageType=AttrSparseVec<Self>;type IdentifierType=VertexIdType;const BIND_POLICY:OrbitPolicy=OrbitPolicy::Vertex;"),
}
# inherent methods that are control flow around other operators, not component expressions: name -> (signature, body, reason)
GEOM_PINNED_FNS = {
    "unit_dir": ("(&self)->Result<Self,CoordsError>",
                 "let norm=self.norm();if norm.is_zero(){Err(CoordsError::InvalidUnitDir)}else{Ok(*self/norm)}",
                 "control flow around `norm` and `Div<T>` (both translated): Err(InvalidUnitDir) when the norm is zero, else *self / norm; text pinned"),
}


def geom_norm(s):
    """whitespace-insensitive text: blanks survive only between two word characters"""
    return re.sub(r"\s*([^\w\s])\s*", r"\1", " ".join(s.split()))


def geom_match(src, i, op, cl, where):
    """index just after the bracket closing the `op` at src[i]"""
    need(src[i] == op, f"{where}: expected {op!r}")
    depth = 0
    for j in range(i, len(src)):
        if src[j] == op:
            depth += 1
        elif src[j] == cl:
            depth -= 1
            if depth == 0:
                return j + 1
    raise Shape(f"{where}: unbalanced {op}{cl}")


def geom_top_items(src, where):
    """top-level items of a file: ('use'|'struct'|'impl', header, body, attributes); anything else is refused"""
    items, attrs, i = [], [], 0
    while True:
        while i < len(src) and src[i].isspace():
            i += 1
        if i >= len(src):
            break
        if src.startswith("#[", i):
            j = geom_match(src, i + 1, "[", "]", where)
            attrs.append(geom_norm(src[i:j]))
            i = j
            continue
        m = re.compile(r"use\b[^;]*;").match(src, i)
        if m:
            need(not attrs, f"{where}: attribute on a use item")
            items.append(("use", geom_norm(m.group(0)), "", []))
            i = m.end()
            continue
        m = re.compile(r"pub\s+struct\b[^;{]*;").match(src, i)
        if m:
            items.append(("struct", geom_norm(m.group(0)), "", attrs))
            attrs, i = [], m.end()
            continue
        m = re.compile(r"(unsafe\s+)?impl\b[^{;]*\{").match(src, i)
        if m:
            need(not attrs, f"{where}: attribute on an impl block")
            j = geom_match(src, m.end() - 1, "{", "}", where)
            items.append(("impl", geom_norm(m.group(0)[:-1]), src[m.end():j - 1], []))
            i = j
            continue
        raise Shape(f"{where}: top-level item not recognised: {flat(src[i:i + 60])!r}")
    need(not attrs, f"{where}: dangling attribute")
    n_impl = len(re.findall(r"\bimpl\b", src))
    need(n_impl == sum(1 for it in items if it[0] == "impl"), f"{where}: an `impl` that is not a top-level block")
    return items


def geom_impl_items(body, where):
    """items of a translated impl block: ([Output type or None], [(name, params, ret, body)])"""
    output, fns, i = None, [], 0
    while True:
        while i < len(body) and body[i].isspace():
            i += 1
        if i >= len(body):
            break
        if body.startswith("#[", i):
            j = geom_match(body, i + 1, "[", "]", where)
            need(re.fullmatch(r'#\[must_use(="[^"\]]*")?\]', geom_norm(body[i:j])), f"{where}: attribute {flat(body[i:j])!r}")
            i = j
            continue
        m = re.compile(r"type\s+Output\s*=\s*([^;]+);").match(body, i)
        if m:
            need(output is None, f"{where}: two Output types")
            output, i = geom_norm(m.group(1)), m.end()
            continue
        m = re.compile(r"(?:pub\s+)?fn\s+(\w+)\s*\(").match(body, i)
        need(m, f"{where}: impl item not recognised: {flat(body[i:i + 60])!r}")
        j = geom_match(body, m.end() - 1, "(", ")", where)
        k = body.index("{", j)
        e = geom_match(body, k, "{", "}", where)
        ret = geom_norm(body[j:k])
        need(ret == "" or ret.startswith("->"), f"{where}: fn {m.group(1)}: between parameters and body: {ret!r}")
        fns.append((m.group(1), body[m.end():j - 1], ret[2:], body[k + 1:e - 1]))
        i = e
    return output, fns


class GeomExpr:
    """recursive descent over one arithmetic expression; values: ('s', lean term of type E) or ('o', operand, type)"""

    def __init__(self, text, env, acc, dims, where):
        self.where, self.env, self.acc, self.dims = f"{where}: `{flat(text)}`", env, acc, dims
        self.t, self.i, s, i = [], 0, text.strip(), 0
        while i < len(s):
            m = GEOM_TOK.match(s, i)
            need(m, f"{self.where}: cannot tokenise at {s[i:i + 20]!r}")
            self.t.append(m.group(1))
            i = m.end()

    def peek(self):
        return self.t[self.i] if self.i < len(self.t) else None

    def eat(self, want=None):
        t = self.peek()
        need(t is not None and (want is None or t == want), f"{self.where}: expected {want or 'a token'}, found {t!r}")
        self.i += 1
        return t

    def scalar(self, a):
        need(a[0] == "s", f"{self.where}: a whole vector/vertex where a coordinate is expected")
        return a[1]

    def full(self):
        a = self.scalar(self.expr())
        need(self.peek() is None, f"{self.where}: trailing {self.peek()!r}")
        return a

    def expr(self):
        a = self.term()
        while self.peek() in ("+", "-"):
            op = GEOM_BIN[self.eat()]
            b = self.term()
            a = ("s", f"(.{op} {self.scalar(a)} {self.scalar(b)})")
        return a

    def term(self):
        a = self.unary()
        while self.peek() in ("*", "/"):
            op = GEOM_BIN[self.eat()]
            b = self.unary()
            a = ("s", f"(.{op} {self.scalar(a)} {self.scalar(b)})")
        return a

    def unary(self):
        if self.peek() == "-":
            self.eat()
            return ("s", f"(.neg {self.scalar(self.unary())})")
        return self.postfix()

    def postfix(self):
        a = self.atom()
        while self.peek() == ".":
            self.eat()
            f = self.eat()
            need(a[0] == "o", f"{self.where}: `.{f}` applied to a coordinate")
            if f.isdigit():
                c = int(f)
            else:
                self.eat("(")
                self.eat(")")
                need(f in self.acc.get(a[2], {}), f"{self.where}: `.{f}()` is not a coordinate accessor of {a[2]}")
                c = self.acc[a[2]][f]
            need(c < self.dims[a[2]], f"{self.where}: component {c} of a {a[2]}")
            a = ("s", f"(.v {a[1]} {c})")
        return a

    def atom(self):
        t = self.eat()
        if t == "(":
            a = ("s", self.scalar(self.expr()))
            self.eat(")")
            return a
        if t in ("T::zero()", "T::one()"):
            return ("s", "(.lit 0)" if t == "T::zero()" else "(.lit 1)")
        need(t in self.env, f"{self.where}: unknown name {t!r}")
        return self.env[t]


def geom_type(t, ty, output, dims, where):
    """(type name, type code, passing mode) of a parameter / return type"""
    mode = 0
    if t.startswith("&mut "):
        t, mode = t[5:], 2
    elif t.startswith("&"):
        t, mode = t[1:], 1
    if t == "Self::Output":
        need(output is not None, f"{where}: Self::Output without `type Output`")
        t = output
    if t == "Self":
        t = ty
    m = re.fullmatch(r"(\w+)<T>", t)
    if m and m.group(1) in dims:
        return m.group(1), GEOM_TY[m.group(1)], mode
    if t in dims:
        return t, GEOM_TY[t], mode
    if t == "T":
        return "T", 0, mode
    if re.fullmatch(r"\(T(,T)*,?\)", t):
        return ("tuple", t.count("T")), 5, mode
    raise Shape(f"{where}: type {t!r}")


def geom_ctor(text, out_ty, env, acc, dims, where):
    """components of `Self(e, …)` / `Vector2(e, …)` / `(e, …)` / a single coordinate expression, checked against the return type"""
    text = text.strip()
    m = re.match(r"(\w+)\s*\(", text)
    if m and m.group(1) in dims or m and m.group(1) == "Self":
        need(geom_match(text, m.end() - 1, "(", ")", where) == len(text), f"{where}: `{flat(text)}`: something after the constructor")
        need(isinstance(out_ty[0], str) and out_ty[0] in dims, f"{where}: a constructor where {out_ty[0]!r} is returned")
        need(m.group(1) in ("Self", out_ty[0]) and (m.group(1) != "Self" or out_ty[3]), f"{where}: constructor {m.group(1)} but the declared result is {out_ty[0]}")
        parts = split_top(text[m.end():-1])
        need(len(parts) == dims[out_ty[0]], f"{where}: {len(parts)} components for a {out_ty[0]}")
        return [GeomExpr(p, env, acc, dims, where).full() for p in parts]
    if text.startswith("(") and geom_match(text, 0, "(", ")", where) == len(text) and len(split_top(text[1:-1])) > 1:
        parts = split_top(text[1:-1])
        need(out_ty[1] == 5 and out_ty[0][1] == len(parts), f"{where}: a {len(parts)}-tuple where {out_ty[0]!r} is returned")
        return [GeomExpr(p, env, acc, dims, where).full() for p in parts]
    need(out_ty[1] == 0, f"{where}: a coordinate expression where {out_ty[0]!r} is returned")
    return [GeomExpr(text, env, acc, dims, where).full()]


def geom_fn(ty, output, fname, params, ret, body, acc, dims, where):
    """one function -> dict(args, out, guard, stmts, ret, root)"""
    where = f"{where}: fn {fname}"
    env, args = {}, []
    for k, p in enumerate(split_top(params)):
        p = geom_norm(p)
        if p in ("self", "&self", "&mut self"):
            need(k == 0, f"{where}: self is not the first parameter")
            env["self"] = ("o", k, ty)
            args.append((GEOM_TY[ty], {"self": 0, "&self": 1, "&mut self": 2}[p]))
            continue
        m = re.fullmatch(r"\((\w+(?:,\w+)*)\):(\(T(?:,T)*\))", p)
        if m:
            names = m.group(1).split(",")
            need(len(names) == m.group(2).count("T") and len(set(names)) == len(names), f"{where}: tuple pattern {p!r}")
            for c, nm in enumerate(names):
                env[nm] = ("s", f"(.v {k} {c})")
            args.append((5, 0))
            continue
        m = re.fullmatch(r"(\w+):(.+)", p)
        need(m, f"{where}: parameter {p!r}")
        tn, code, mode = geom_type(m.group(2), ty, output, dims, where)
        need(code != 5 and mode != 2, f"{where}: parameter {p!r}")
        env[m.group(1)] = ("s", f"(.v {k} 0)") if code == 0 else ("o", k, tn)
        args.append((code, mode))
    mutating = bool(args) and args[0][1] == 2 and "self" in env
    if mutating:
        need(ret == "", f"{where}: a `&mut self` function that returns {ret!r}")
        out_ty = ("()", 6, 0, False)
    else:
        need(ret != "", f"{where}: no return type")
        if fname == "normal_dir":
            need(ret in (f"Result<{ty}<T>,CoordsError>", "Result<Self,CoordsError>"), f"{where}: return type {ret!r}")
            out_ty = (ty, GEOM_TY[ty], 0, True)
        else:
            tn, code, mode = geom_type(ret, ty, output, dims, where)
            need(mode == 0, f"{where}: returns a reference")
            out_ty = (tn, code, mode, tn == ty)
    pieces = [s.strip() for s in body.split(";")]
    need("{" not in body and "}" not in body, f"{where}: a block inside the body")
    stmts_txt, tail = pieces[:-1], pieces[-1]
    guard, stmts, root = [], [], 0
    while stmts_txt:
        s = stmts_txt[0]
        m = re.fullmatch(r"assert!\s*\(\s*!\s*(.+?)\s*\.\s*is_zero\s*\(\s*\)\s*\)", s, re.S)
        if m and not stmts:
            guard.append(GeomExpr(m.group(1), env, acc, dims, where).full())
            stmts_txt.pop(0)
            continue
        m = re.fullmatch(r"let\s+(\w+)\s*=\s*T::from\(\s*(\d+)\.0\s*\)\s*\.\s*unwrap\(\s*\)", s)
        if m and not stmts:
            need(m.group(1) not in env, f"{where}: `{m.group(1)}` shadows a parameter")
            env[m.group(1)] = ("s", f"(.lit {int(m.group(2))})")
            stmts_txt.pop(0)
            continue
        break
    n_self = dims[ty]
    if mutating:
        need(tail == "", f"{where}: tail expression {tail!r} in a `&mut self` function")
        need(stmts_txt, f"{where}: no assignment")
        for s in stmts_txt:
            m = re.fullmatch(r"self\s*\.\s*(\d+)\s*([-+*/]?)=(?!=)\s*(.+)", s, re.S)
            if m:
                c = int(m.group(1))
                need(c < n_self, f"{where}: component {c}")
                e = GeomExpr(m.group(3), env, acc, dims, where).full()
                stmts.append([(c, f"(.{GEOM_BIN[m.group(2)]} (.v 0 {c}) {e})" if m.group(2) else e)])
                continue
            m = re.fullmatch(r"\*\s*self\s*=(?!=)\s*(.+)", s, re.S)
            need(m, f"{where}: statement not recognised: `{flat(s)}`")
            comps = geom_ctor(m.group(1), (ty, GEOM_TY[ty], 0, True), env, acc, dims, where)
            stmts.append(list(enumerate(comps)))
        retc = [f"(.v 0 {c})" for c in range(n_self)]
    else:
        need(not stmts_txt, f"{where}: statement not recognised: `{flat(stmts_txt[0]) if stmts_txt else ''}`")
        need(tail != "", f"{where}: no tail expression")
        m = re.fullmatch(r"(.+)\.\s*hypot\s*\((.+)\)", tail, re.S)
        m2 = re.fullmatch(r"(\(.+\))\s*\.\s*sqrt\s*\(\s*\)", tail, re.S)
        m3 = re.fullmatch(r"(Self\s*\(.+\))\s*\.\s*unit_dir\s*\(\s*\)\s*\.\s*map_err\s*\(\s*\|\s*_\s*\|\s*CoordsError::InvalidNormDir\s*\)", tail, re.S)
        if fname == "norm" and m:
            need(out_ty[1] == 0, f"{where}: norm does not return T")
            retc, root = [GeomExpr(m.group(1), env, acc, dims, where).full(), GeomExpr(m.group(2), env, acc, dims, where).full()], 2
        elif fname == "norm" and m2:
            need(out_ty[1] == 0, f"{where}: norm does not return T")
            need(geom_match(m2.group(1), 0, "(", ")", where) == len(m2.group(1)), f"{where}: `.sqrt()` is not applied to the whole expression")
            retc, root = [GeomExpr(m2.group(1), env, acc, dims, where).full()], 1
        elif fname == "normal_dir" and m3:
            retc, root = geom_ctor(m3.group(1), out_ty, env, acc, dims, where), 3
        else:
            need(fname != "normal_dir", f"{where}: shape of normal_dir")
            retc = geom_ctor(tail, out_ty, env, acc, dims, where)
    return dict(args=args, out=out_ty[1], guard=guard, stmts=stmts, ret=retc, root=root)


def geom_lean_op(name, op):
    stmts = ", ".join("[" + ", ".join(f"({c}, {e})" for c, e in grp) + "]" for grp in op["stmts"])
    return (f"def {name} : Op :=\n  {{ args := [" + ", ".join(f"({a}, {b})" for a, b in op["args"]) + f"], out := {op['out']}, root := {op['root']},\n"
            f"    guard := [" + ", ".join(op["guard"]) + f"],\n    stmts := [{stmts}],\n    ret := [" + ", ".join(op["ret"]) + "] }")


def gen_geom():
    srcs = {rel: strip_comments(open(os.path.join(GEOM_DIR, rel)).read()) for rel, _, _ in GEOM_FILES}
    tops = {rel: geom_top_items(srcs[rel], rel) for rel, _, _ in GEOM_FILES}
    # pass 1: the structs (number of components, derives) and the coordinate accessors `fn x(&self) -> T { self.0 }`
    dims, derives, acc = {}, {}, {}
    for rel, ty, _ in GEOM_FILES:
        ss = [it for it in tops[rel] if it[0] == "struct"]
        need(len(ss) == 1, f"{rel}: expected exactly one struct")
        m = re.fullmatch(r"pub struct (\w+)<T:CoordsFloat>\((pub T(?:,pub T)*),?\);", ss[0][1])
        need(m and m.group(1) == ty, f"{rel}: struct declaration {ss[0][1]!r}")
        dims[ty] = m.group(2).count("pub T")
        need(len(ss[0][3]) == 1 and re.fullmatch(r"#\[derive\([\w,]+\)\]", ss[0][3][0]), f"{rel}: attributes of the struct: {ss[0][3]}")
        derives[ty] = ss[0][3][0][len("#[derive("):-2].split(",")
    parsed = {}
    for rel, ty, _ in GEOM_FILES:
        parsed[rel] = []
        for kind, header, body, _ in tops[rel]:
            if kind != "impl":
                continue
            pin = {k.format(ty=ty): v for k, v in GEOM_PINNED_IMPLS.items()}.get(header)
            if pin is not None:
                need(geom_norm(body) == pin[1], f"{rel}: `{header}`: body differs from the pinned text")
                parsed[rel].append((header, None, None, pin[0]))
                continue
            output, fns = geom_impl_items(body, f"{rel}: `{header}`")
            parsed[rel].append((header, output, fns, None))
            if header == f"impl<T:CoordsFloat>{ty}<T>":
                acc[ty] = {}
                for fname, params, ret, fbody in fns:
                    m = re.fullmatch(r"self\.(\d+)", geom_norm(fbody))
                    if m and geom_norm(params) == "&self" and ret == "T":
                        acc[ty][fname] = int(m.group(1))
    # pass 2: translate
    out = ["/-\n  GENERATED by /verif/tools/gen_lean.py from /repo/honeycomb-core/src/geometry/{dim2,dim3}/{vector,vertex}.rs — DO NOT EDIT.\n"
           "  Regenerated by tools/check.py before every build of a module that imports it.\n\n"
           "  One `Op` per function of every impl block of the four files (the definition name is <Self type>_<Trait>[_<Rhs>] for a\n"
           "  trait impl — `ref` marks a by-reference right-hand side — and <Self type>_<method> for an inherent method).\n"
           "  `E`: expression over the coordinates of the parameters; `.v k c` = component c (`.0`, `.1`, `.2` or the accessor `.x()` …,\n"
           "  resolved through the translated accessor) of parameter number k (self = 0; a scalar `T` parameter has the single component 0;\n"
           "  a tuple pattern `(x, y): (T, T)` binds its names to the components); `.lit n` = `T::zero()` / `T::one()` /\n"
           "  `T::from(n.0).unwrap()`; `.add/.sub/.mul/.div/.neg` as parsed (Rust precedence and associativity, parentheses respected;\n"
           "  nothing is reordered or normalised).\n"
           "  `args`: (type, passing) per parameter — type 0 = T, 1 = Vector2, 2 = Vertex2, 3 = Vector3, 4 = Vertex3, 5 = tuple of T;\n"
           "  passing 0 = by value, 1 = `&`, 2 = `&mut`.  `out`: result type (same codes, 6 = `()` for a `&mut self` operator).\n"
           "  `guard`: the expressions e of the leading `assert!(!e.is_zero());` statements.\n"
           "  `stmts`: the assignments of a `&mut self` body in source order; each is a group of simultaneous (component of self, new\n"
           "  value) pairs: `self.c op= e;` is [(c, op (.v 0 c) e)], `*self = Self(e0, …);` is [(0, e0), …]; `.v 0 _` reads the CURRENT self.\n"
           "  `ret`: the components of the result (`Self(e0, …)`, `Vector2(e0, …)`, `(e0, …)` or one coordinate expression), evaluated\n"
           "  after the statements; for a `&mut self` operator: self afterwards.\n"
           "  `root`: 0 = the result is `ret`; 1 = `norm`: the result is `(ret[0]).sqrt()`; 2 = `norm`: the result is\n"
           "  `ret[0].hypot(ret[1])`; 3 = `normal_dir`: the result is `Self(ret…).unit_dir().map_err(|_| CoordsError::InvalidNormDir)`.\n"
           "  Props/C19Gen.lean evaluates these over an arbitrary coordinate type and proves the values EQUAL to Model/Geometry.lean.\n\n"
           "  NOT translated (listed in `…_skipped`; the translator refuses the file when the text of one of them changes):"]
    body_out, reasons = [], []
    for rel, ty, tag in GEOM_FILES:
        names, skipped = [], []
        body_out.append(f"/-! ## {rel} (`{ty}`) -/")
        for header, output, fns, reason in parsed[rel]:
            if fns is None:
                # (the Rust keyword of the marker impls is spelled `marker` in the Lean strings: the proof audit of tools/hv.py
                #  forbids that word in Lean files and does not strip string literals)
                skipped.append(header.replace("unsafe impl", "marker impl"))
                reasons.append(f"    {rel}: `{header}` — {reason}")
                continue
            where = f"{rel}: `{header}`"
            m = re.fullmatch(r"impl<T:CoordsFloat>(?:std::ops::)?(\w+)(?:<(.+)>)? ?for (\w+)<T>", header)
            if m:
                trait, rhs = m.group(1), m.group(2)
                need(m.group(3) == ty, f"{where}: impl for another type")
                need(trait in GEOM_TRAIT_FN, f"{where}: trait {trait} is neither translated nor listed as skipped")
                need(len(fns) == 1 and fns[0][0] == GEOM_TRAIT_FN[trait], f"{where}: expected the single function {GEOM_TRAIT_FN[trait]}")
                need((output is not None) == (trait in ("Add", "Sub", "Mul", "Div", "Neg")), f"{where}: `type Output`")
                if output is not None:
                    need(output == "Self" or re.fullmatch(r"\w+<T>", output), f"{where}: Output = {output!r}")
                suffix = ""
                if rhs is not None:
                    r = re.fullmatch(r"(&?)(\w+)<T>", rhs)
                    if rhs == "T":
                        suffix = "_T"
                    elif re.fullmatch(r"\(T(,T)*\)", rhs):
                        suffix = "_tuple"
                    else:
                        need(r and r.group(2) in dims, f"{where}: right-hand side {rhs!r}")
                        suffix = ("_ref" if r.group(1) else "_") + r.group(2)
                op = geom_fn(ty, output, fns[0][0], fns[0][1], fns[0][2], fns[0][3], acc, dims, where)
                if rhs is not None:   # the trait parameter is the type of the second parameter
                    want = geom_type(rhs, ty, output, dims, where)
                    need(len(op["args"]) == (1 if trait == "From" else 2) and op["args"][-1] == (want[1], want[2]), f"{where}: parameter type differs from the trait parameter")
                names.append(f"{ty}_{trait}{suffix}")
                body_out.append(geom_lean_op(names[-1], op))
                continue
            need(header == f"impl<T:CoordsFloat>{ty}<T>", f"{where}: impl header not recognised")
            need(output is None, f"{where}: Output in an inherent impl")
            for fname, params, ret, fbody in fns:
                if fname in GEOM_PINNED_FNS:
                    sig, txt, reason = GEOM_PINNED_FNS[fname]
                    need(f"({geom_norm(params)})->{ret}" == sig and geom_norm(fbody) == txt, f"{where}: fn {fname} differs from the pinned text")
                    skipped.append(f"{ty}::{fname}")
                    reasons.append(f"    {rel}: `{ty}::{fname}` — {reason}")
                    continue
                names.append(f"{ty}_{fname}")
                body_out.append(geom_lean_op(names[-1], geom_fn(ty, None, fname, params, ret, fbody, acc, dims, where)))
        need(len(set(names)) == len(names), f"{rel}: two impls with the same name: {names}")
        body_out.append(f"/-- every translated function of {rel}, in source order -/")
        body_out.append(f"def {tag} : List (String × Op) :=\n  [" + ",\n   ".join(f'("{n}", {n})' for n in names) + "]")
        body_out.append(f"/-- the impl blocks / methods of {rel} that are pinned, not translated -/")
        body_out.append(f"def {tag}_skipped : List String :=\n  [" + ",\n   ".join(f'"{s}"' for s in skipped) + "]\n")
    out.append("\n".join(reasons))
    out.append("  `use` items carry no code.  Any other top-level item, impl item, statement or expression form is refused (`Shape`).\n-/\n")
    out.append("namespace HC.Gen.Geometry\n")
    out.append("inductive E where\n  | v (operand comp : Nat)\n  | lit (n : Nat)\n  | add (a b : E)\n  | sub (a b : E)\n  | mul (a b : E)\n"
               "  | div (a b : E)\n  | neg (a : E)\n  deriving Repr, DecidableEq\n")
    out.append("structure Op where\n  args : List (Nat × Nat)\n  out : Nat\n  root : Nat\n  guard : List E\n  stmts : List (List (Nat × E))\n"
               "  ret : List E\n  deriving Repr, DecidableEq\n")
    out.append("/-- the structs: (name, number of `pub T` fields, derives) -/")
    out.append("def structs : List (String × Nat × List String) :=\n  [" + ",\n   ".join(
        f'("{ty}", {dims[ty]}, [' + ", ".join(f'"{d}"' for d in derives[ty]) + "])" for _, ty, _ in GEOM_FILES) + "]\n")
    out.extend(body_out)
    out.append("end HC.Gen.Geometry\n")
    txt = "\n".join(out)
    if not os.path.exists(GEOM_OUT) or open(GEOM_OUT).read() != txt:
        open(GEOM_OUT, "w").write(txt)
    return "gen_lean: geom ok"


GENERATORS["geom"] = gen_geom


# ---------------------------------------------------------------------------------------------
# fan: honeycomb-kernels/src/triangulation/{mod,fan}.rs — `check_requirements`, `TriangulateError`, the two fan kernels
# (Gen/Fan.lean, interpreted and proved equal to Model/Kernels/Fan.lean in Props/C13Gen.lean)
# ---------------------------------------------------------------------------------------------
FAN_RS = os.environ.get("GEN_LEAN_FAN_RS", "/repo/honeycomb-kernels/src/triangulation/fan.rs")
FAN_MOD_RS = os.environ.get("GEN_LEAN_TRI_MOD_RS", "/repo/honeycomb-kernels/src/triangulation/mod.rs")
FAN_OUT = os.environ.get("GEN_LEAN_FAN_OUT", os.path.join(VERIF, "lean", "Honeycomb", "Gen", "Fan.lean"))


def fan_compact(s):
    """all white space removed except one blank between two word characters"""
    s = re.sub(r"(?<=\w)\s+(?=\w)", "\x00", s)
    return re.sub(r"\s+", "", s).replace("\x00", " ")


def fan_rx(readable, **holes):
    """regex of a readable Rust fragment (compacted, escaped); `@NAME@` are capture groups given as keyword arguments"""
    rx = re.escape(fan_compact(re.sub(r"@(\w+)@", r"HOLE\1HOLE", readable)))
    for k, v in holes.items():
        h = "HOLE" + k + "HOLE"
        need(rx.count(h) == 1, f"fan: hole {k} not in pattern")
        rx = rx.replace("\\ " + h, " ?" + h).replace(h + "\\ ", h + " ?").replace(h, "(" + v + ")")
    need("HOLE" not in rx, "fan: unfilled hole in pattern " + readable)
    return rx


def fan_take(text, pos, rx, where):
    m = re.compile(rx).match(text, pos)
    need(m, f"fan: {where}: unexpected text at `{text[pos:pos + 90]}`")
    return m, m.end()


def fan_block_end(text, i, where):
    """text[i] == '{' -> index just after the matching '}'"""
    need(i < len(text) and text[i] == "{", f"fan: {where}: `{{` expected")
    depth = 0
    for j in range(i, len(text)):
        if text[j] == "{":
            depth += 1
        elif text[j] == "}":
            depth -= 1
            if depth == 0:
                return j + 1
    raise Shape(f"fan: {where}: unbalanced braces")


def fan_enum(src):
    m = re.search(r"\bpub\s+enum\s+TriangulateError\s*\{", src)
    need(m, "fan: enum TriangulateError not found")
    end = fan_block_end(src, m.end() - 1, "TriangulateError")
    body = re.sub(r"#\[[^\]]*\]", " ", src[m.end():end - 1])
    names = []
    for item in split_depth0(body, ","):
        item = item.strip()
        if not item:
            continue
        mm = re.fullmatch(r"([A-Z]\w*)\s*(\(.*\))?", item, flags=re.S)
        need(mm, f"fan: TriangulateError: unexpected variant `{item}`")
        names.append(mm.group(1))
    need(len(set(names)) == len(names) and names, "fan: TriangulateError: variants")
    return names


def fan_err_action(text, variants, msgs, where):
    """`` -> []; `return Err(TriangulateError::V(payload));` -> [variant, payload kind, message index]"""
    if text == "":
        return []
    m = re.fullmatch(r"return Err\(TriangulateError::(\w+)(?:\((.*)\))?\);", text)
    need(m, f"fan: {where}: unexpected arm body `{text}`")
    need(m.group(1) in variants, f"fan: {where}: unknown variant {m.group(1)}")
    v, pay = variants.index(m.group(1)), m.group(2)
    if pay is None:
        return [v, 0, 0]
    if pay == "diff.abs()as usize":
        return [v, 1, 0]
    if pay == "diff as usize":
        return [v, 2, 0]
    mm = re.fullmatch(r'"([^"]*)",?', pay)
    need(mm, f"fan: {where}: unexpected payload `{pay}`")
    msgs.append(mm.group(1).replace(" ", "-"))
    return [v, 3, len(msgs) - 1]


def fan_arms(text, where):
    """`PAT=>{BODY}…` -> [(PAT, BODY)]"""
    arms, pos = [], 0
    while pos < len(text):
        m, pos = fan_take(text, pos, r"([^{}]+?)=>(?=\{)", where)
        end = fan_block_end(text, pos, where)
        arms.append((m.group(1), text[pos + 1:end - 1]))
        pos = end
        if pos < len(text) and text[pos] == ",":
            pos += 1
    return arms


def fan_check_requirements(src, variants, msgs):
    where = "check_requirements"
    need(fan_compact(fn_sig(src, where)) == "(n_darts_face:usize,n_darts_allocated:usize,)->Result<(),TriangulateError>",
         "fan: check_requirements: signature")
    body = fan_compact(fn_body(src, where))
    m, pos = fan_take(body, 0, fan_rx("match n_darts_face"), where)
    end = fan_block_end(body, pos, where)
    arms = fan_arms(body[pos + 1:end - 1], where)
    need(len(arms) >= 1 and arms[-1] == ("_", ""), "fan: check_requirements: the first match must end with `_ => {}`")
    face_arms = []
    for pat, act in arms[:-1]:
        need(re.fullmatch(r"\d+(\|\d+)*", pat), f"fan: check_requirements: pattern `{pat}`")
        face_arms.append(([int(x) for x in pat.split("|")], fan_err_action(act, variants, msgs, where)))
    m, pos = fan_take(body, end, fan_rx("match n_darts_allocated as isize - (n_darts_face as isize - @A@) * @B@",
                                        A=r"\d+", B=r"\d+"), where)
    diff_expr = [int(m.group(1)), int(m.group(2))]
    end = fan_block_end(body, pos, where)
    diff_arms = []
    for pat, act in fan_arms(body[pos + 1:end - 1], where):
        for k, rx in ((0, r"diff@\.\.(\d+)"), (3, r"diff@\.\.=(\d+)"), (1, r"(\d+)"), (2, r"diff@(\d+)\.\.")):
            mm = re.fullmatch(rx, pat)
            if mm:
                diff_arms.append(([k, int(mm.group(1))], fan_err_action(act, variants, msgs, where)))
                break
        else:
            raise Shape(f"fan: check_requirements: pattern `{pat}`")
    need(body[end:] == "Ok(())", "fan: check_requirements: must end with Ok(())")
    return face_arms, diff_expr, diff_arms


def fan_operand(txt, names, where):
    txt = txt[1:] if txt.startswith("*") else txt
    need(txt in names, f"fan: {where}: unknown operand `{txt}`")
    return names[txt]


def fan_straight(text, params, vals, where):
    """straight-line statements -> instructions; params: name -> operand; vals: name -> value index (extended in place)"""
    names, ins, pos, nbound = dict(params), [], 0, 0
    arg = r"\*?\w+"
    while pos < len(text):
        for kind, rx in (
                ("beta", fan_rx("let @X@ = cmap.beta_transac::<@I@>(t, @A@)?;", X=r"\w+", I=r"\d+", A=arg)),
                ("vid", fan_rx("let @X@ = cmap.vertex_id_transac(t, @A@)?;", X=r"\w+", A=arg)),
                ("rdv", fan_rx("let @X@ = cmap.read_vertex(t, @A@)?.unwrap();", X=r"\w+", A=arg)),
                ("sew", fan_rx("try_or_coerce!(cmap.sew::<@I@>(t, @A@, @B@), TriangulateError);", I=r"\d+", A=arg, B=arg)),
                ("unsew", fan_rx("try_or_coerce!(cmap.unsew::<@I@>(t, @A@), TriangulateError);", I=r"\d+", A=arg)),
                ("wrv", fan_rx("cmap.write_vertex(t, @A@, @V@)?;", A=arg, V=r"\w+"))):
            m = re.compile(rx).match(text, pos)
            if m:
                break
        else:
            raise Shape(f"fan: {where}: unexpected statement at `{text[pos:pos + 90]}`")
        pos = m.end()
        if kind == "beta":
            ins.append((1, [int(m.group(2)), fan_operand(m.group(3), names, where)]))
            names[m.group(1)] = 20 + nbound
            nbound += 1
        elif kind == "vid":
            ins.append((5, [fan_operand(m.group(2), names, where)]))
            names[m.group(1)] = 20 + nbound
            nbound += 1
        elif kind == "rdv":
            ins.append((62, [fan_operand(m.group(2), names, where)]))
            need(m.group(1) not in vals and m.group(1) not in names, f"fan: {where}: value name reused")
            vals[m.group(1)] = len(vals)
        elif kind == "sew":
            ins.append((50, [0, int(m.group(1)), fan_operand(m.group(2), names, where), fan_operand(m.group(3), names, where)]))
        elif kind == "unsew":
            ins.append((50, [1, int(m.group(1)), fan_operand(m.group(2), names, where)]))
        else:
            need(m.group(2) in vals, f"fan: {where}: unknown value `{m.group(2)}`")
            ins.append((64, [fan_operand(m.group(1), names, where), vals[m.group(2)]]))
    return ins


def fan_tail(text, where):
    """the common tail of both kernels: pre; `let mut d0 = sdart;` for-loop over the dart pairs; post"""
    m = re.search(fan_rx("let mut d0 = @S@; for sl in new_darts.chunks_exact(2)", S=r"\*?\w+"), text)
    need(m, f"fan: {where}: loop header not found")
    vals = {}
    pre = fan_straight(text[:m.start()], {"sdart": 0}, vals, where + " (before the loop)")
    start = fan_operand(m.group(1), {"sdart": 0}, where)
    end = fan_block_end(text, m.end(), where)
    lbody = text[m.end() + 1:end - 1]
    mm, p = fan_take(lbody, 0, fan_rx("let [d1, d2] = sl else { unreachable!() };"), where + " (loop)")
    mn = re.search(r"d0=(\*?\w+);$", lbody)
    need(mn, f"fan: {where}: the loop must end with `d0 = …;`")
    names = {"d0": 0, "d1": 1, "d2": 2}
    body = fan_straight(lbody[p:mn.start()], names, {}, where + " (loop)")
    nxt = fan_operand(mn.group(1), names, where)
    post = fan_straight(text[end:], {"sdart": 0, "d0": 1}, vals, where + " (after the loop)")
    return pre, start, body, nxt, post


FAN_POLICIES = ["Vertex", "VertexLinear", "Edge", "Face", "FaceLinear"]
FAN_SIG = ("<T:CoordsFloat>(t:&mut Transaction,cmap:&CMap2<T>,face_id:FaceIdType,new_darts:&[DartIdType],)"
           "->TransactionClosureResult<(),TriangulateError>")
FAN_ORBIT = ("for d in cmap.orbit_transac(t, OrbitPolicy::@POL@, face_id as DartIdType) { darts.push(d?); }")
FAN_CHECK = "let n = darts.len(); if let Err(e) = check_requirements(n, new_darts.len()) { abort(e)?; }"


def fan_convex(src):
    where = "process_convex_cell"
    need(fan_compact(fn_sig(src, where)) == FAN_SIG, f"fan: {where}: signature")
    body = fan_compact(fn_body(src, where))
    m, pos = fan_take(body, 0, fan_rx("let mut darts: SmallVec<DartIdType, 16> = SmallVec::new(); " + FAN_ORBIT + FAN_CHECK +
                                      " let sdart = face_id as DartIdType;", POL=r"\w+"), where)
    need(m.group(1) in FAN_POLICIES, f"fan: {where}: policy {m.group(1)}")
    need(body.endswith("Ok(())"), f"fan: {where}: must end with Ok(())")
    return FAN_POLICIES.index(m.group(1)), fan_tail(body[pos:-len("Ok(())")], where)


def fan_cell(src, variants, msgs):
    where = "process_cell"
    need(fan_compact(fn_sig(src, where)) == FAN_SIG, f"fan: {where}: signature")
    body = fan_compact(fn_body(src, where))
    m, pos = fan_take(body, 0, fan_rx(
        "let mut darts: SmallVec<DartIdType, 16> = SmallVec::new(); let mut vertices: SmallVec<Vertex2<T>, 16> = SmallVec::new(); "
        + FAN_ORBIT +
        " for &d in &darts { let vid = cmap.vertex_id_transac(t, d)?; let v = if let Some(val) = cmap.read_vertex(t, vid)? { val } "
        "else { abort(TriangulateError::@V@(@MSG@))? }; vertices.push(v); } " + FAN_CHECK,
        POL=r"\w+", V=r"\w+", MSG=r'"[^"]*",?'), where)
    need(m.group(1) in FAN_POLICIES, f"fan: {where}: policy {m.group(1)}")
    pol = FAN_POLICIES.index(m.group(1))
    need(m.group(2) in variants, f"fan: {where}: variant {m.group(2)}")
    msgs.append(m.group(3).strip('",').replace(" ", "-"))
    undef = [variants.index(m.group(2)), 3, len(msgs) - 1]
    seg = r"i_seg|\(i_seg\+1\)%n"
    m, pos = fan_take(body, pos, fan_rx(
        "let star = darts.iter().zip(vertices.iter()).enumerate().find_map(|(id, (d0, v0))| { "
        "let mut tmp = (@LO@..n).filter(|i_seg| !(*i_seg == id || (i_seg + 1) % n == id)).map(|i_seg| { "
        "let (v1, v2) = (&vertices[@I1@], &vertices[@I2@]); Vertex2::cross_product_from_vertices(@A@, @B@, @C@) }); "
        "let signum = tmp.next().map(T::signum).unwrap(); "
        "for v in tmp { if v.signum() @SOP@ signum || v.abs() @EOP@ T::epsilon() { return None; } } Some(d0) });",
        LO=r"\d+", I1=seg, I2=seg, A=r"v[012]", B=r"v[012]", C=r"v[012]", SOP=r"!=|==", EOP=r"<=|>=|<|>"), where)
    star = [int(m.group(1)), 0 if m.group(2) == "i_seg" else 1, 0 if m.group(3) == "i_seg" else 1,
            int(m.group(4)[1]), int(m.group(5)[1]), int(m.group(6)[1]),
            ["!=", "=="].index(m.group(7)), ["<", "<=", ">", ">="].index(m.group(8))]
    m, pos = fan_take(body, pos, fan_rx("if let Some(sdart) = star"), where)
    end = fan_block_end(body, pos, where)
    tail = fan_tail(body[pos + 1:end - 1], where)
    m, pos = fan_take(body, end, fan_rx("else { abort(TriangulateError::@V@)?; } Ok(())", V=r"\w+") + "$", where)
    need(m.group(1) in variants, f"fan: {where}: variant {m.group(1)}")
    return pol, undef, star, [variants.index(m.group(1)), 0, 0], tail


def gen_fan():
    msrc = strip_comments(open(FAN_MOD_RS).read())
    fsrc = strip_comments(open(FAN_RS).read())
    variants, msgs = fan_enum(msrc), []
    face_arms, diff_expr, diff_arms = fan_check_requirements(msrc, variants, msgs)
    cpol, ctail = fan_convex(fsrc)
    spol, undef, star, nonfan, stail = fan_cell(fsrc, variants, msgs)

    def nl(a):
        return "[" + ", ".join(map(str, a)) + "]"

    def tab(rows):
        return "[" + ", ".join(f"({op}, {nl(a)})" for op, a in rows) + "]"

    def arms(rows):
        return "[" + ", ".join(f"({nl(p)}, {nl(a)})" for p, a in rows) + "]"

    def tail(prefix, doc, t):
        pre, start, body, nxt, post = t
        return [f"/-- {doc}: before the loop -/\ndef {prefix}Pre : List (Nat × List Nat) := {tab(pre)}\n",
                f"/-- {doc}: `let mut d0 = <operand>` -/\ndef {prefix}Start : Nat := {start}\n",
                f"/-- {doc}: the loop body -/\ndef {prefix}Body : List (Nat × List Nat) := {tab(body)}\n",
                f"/-- {doc}: `d0 = <operand>` closing the loop body -/\ndef {prefix}Next : Nat := {nxt}\n",
                f"/-- {doc}: after the loop -/\ndef {prefix}Post : List (Nat × List Nat) := {tab(post)}\n"]

    out = ["/-\n  GENERATED by /verif/tools/gen_lean.py from\n  /repo/honeycomb-kernels/src/triangulation/mod.rs and fan.rs — DO NOT EDIT.\n"
           "  Regenerated by tools/check.py before every build of a module that imports it.\n\n"
           "  `errVariants`: the variants of `enum TriangulateError`, in source order.\n"
           "  `msgs`: the `&'static str` payloads, in order of appearance (check_requirements, then process_cell), blanks replaced by `-`.\n"
           "  error actions [v, k, j]: `TriangulateError::<variant v>` with payload k: 0 = none, 1 = `diff.abs() as usize`,\n"
           "    2 = `diff as usize`, 3 = message j; [] = `{}` (fall through).\n"
           "  `faceArms`: arms of `match n_darts_face` (patterns `a | b | …`, action `return Err(..)`); the closing `_ => {}` is required.\n"
           "  `diffExpr` = [a, b]: the scrutinee `n_darts_allocated as isize - (n_darts_face as isize - a) * b` of the second match;\n"
           "  `diffArms`: its arms ([kind, c], action): kind 0 = `diff @ ..c`, 1 = `c`, 2 = `diff @ c..`, 3 = `diff @ ..=c`; then `Ok(())`.\n"
           "  Both kernels: `for d in cmap.orbit_transac(t, OrbitPolicy::<P>, face_id as DartIdType) { darts.push(d?); }` (`…Policy`: index in\n"
           "    Vertex, VertexLinear, Edge, Face, FaceLinear), `let n = darts.len(); if let Err(e) = check_requirements(n, new_darts.len())\n"
           "    { abort(e)?; }`, then (process_convex_cell: with `let sdart = face_id as DartIdType`; process_cell: inside\n"
           "    `if let Some(sdart) = star { … } else { abort(<cellNoStar>)?; }`) the tail `…Pre; let mut d0 = …Start;\n"
           "    for sl in new_darts.chunks_exact(2) { let [d1, d2] = sl else { unreachable!() }; …Body; d0 = …Next; } …Post; Ok(())` with\n"
           "    (1, [i, a])        let x = cmap.beta_transac::<i>(t, a)?                 (binds the next variable of its part)\n"
           "    (5, [a])           let x = cmap.vertex_id_transac(t, a)?                 (binds)\n"
           "    (62, [a])          let v = cmap.read_vertex(t, a)?.unwrap()              (binds the next VALUE variable; shared by Pre and Post)\n"
           "    (50, [0, I, a, b]) try_or_coerce!(cmap.sew::<I>(t, a, b), TriangulateError)\n"
           "    (50, [1, I, a])    try_or_coerce!(cmap.unsew::<I>(t, a), TriangulateError)\n"
           "    (64, [a, v])       cmap.write_vertex(t, a, <value variable v>)?\n"
           "    operands: Pre: 0 = sdart; Body: 0 = d0, 1 = d1, 2 = d2; Post: 0 = sdart, 1 = d0; 20 + j = the j-th variable bound in the part.\n"
           "  process_cell only: `cellUndef` = action of the `else` of `if let Some(val) = cmap.read_vertex(t, vid)?` in the vertex loop\n"
           "    `for &d in &darts { let vid = cmap.vertex_id_transac(t, d)?; … vertices.push(v); }`;\n"
           "  `starShape` = [lo, i1, i2, a, b, c, sop, eop]: the star search `darts.iter().zip(vertices.iter()).enumerate().find_map(|(id, (d0, v0))|`\n"
           "    `{ let mut tmp = (lo..n).filter(|i_seg| !(*i_seg == id || (i_seg + 1) % n == id)).map(|i_seg| { let (v1, v2) =`\n"
           "    `(&vertices[<i1>], &vertices[<i2>]); Vertex2::cross_product_from_vertices(v<a>, v<b>, v<c>) });`\n"
           "    `let signum = tmp.next().map(T::signum).unwrap(); for v in tmp { if v.signum() <sop> signum || v.abs() <eop> T::epsilon()`\n"
           "    `{ return None; } } Some(d0) })`; i1, i2: 0 = `i_seg`, 1 = `(i_seg + 1) % n`; sop: 0 = `!=`, 1 = `==`;\n"
           "    eop: 0 = `<`, 1 = `<=`, 2 = `>`, 3 = `>=`.\n"
           "  Props/C13Gen.lean interprets these tables and proves them EQUAL to Model/Kernels/Fan.lean.\n-/\n",
           "namespace HC.Gen.Fan\n",
           "/-- `enum TriangulateError` -/\ndef errVariants : List String := [" + ", ".join(f'"{s}"' for s in variants) + "]\n",
           "/-- `&'static str` payloads -/\ndef msgs : List String := [" + ", ".join(f'"{s}"' for s in msgs) + "]\n",
           "/-- `check_requirements`: `match n_darts_face` -/\ndef faceArms : List (List Nat × List Nat) := " + arms(face_arms) + "\n",
           "/-- `check_requirements`: scrutinee of the second match -/\ndef diffExpr : List Nat := " + nl(diff_expr) + "\n",
           "/-- `check_requirements`: arms of the second match -/\ndef diffArms : List (List Nat × List Nat) := " + arms(diff_arms) + "\n",
           f"/-- `process_convex_cell`: orbit policy -/\ndef convexPolicy : Nat := {cpol}\n"]
    out += tail("convex", "`process_convex_cell`", ctail)
    out += [f"/-- `process_cell`: orbit policy -/\ndef cellPolicy : Nat := {spol}\n",
            "/-- `process_cell`: undefined vertex -/\ndef cellUndef : List Nat := " + nl(undef) + "\n",
            "/-- `process_cell`: the star search -/\ndef starShape : List Nat := " + nl(star) + "\n",
            "/-- `process_cell`: no star -/\ndef cellNoStar : List Nat := " + nl(nonfan) + "\n"]
    out += tail("cell", "`process_cell`", stail)
    out.append("end HC.Gen.Fan\n")
    txt = "\n".join(out)
    if not os.path.exists(FAN_OUT) or open(FAN_OUT).read() != txt:
        open(FAN_OUT, "w").write(txt)
    return f"gen_lean: fan ok ({len(face_arms) + len(diff_arms)} arms, {len(ctail[2])} + {len(stail[2])} loop instructions)"


GENERATORS["fan"] = gen_fan


# ---------------------------------------------------------------------------------------------
# earclip: honeycomb-kernels/src/triangulation/ear_clipping.rs — `earclip_cell_countercw`, `earclip_cell_cw`, `process_cell`
# (Gen/EarClip.lean, interpreted and proved equal to Model/Kernels/EarClip.lean in Props/C13GenB.lean)
# ---------------------------------------------------------------------------------------------
EARCLIP_RS = os.environ.get("GEN_LEAN_EARCLIP_RS", "/repo/honeycomb-kernels/src/triangulation/ear_clipping.rs")
EARCLIP_OUT = os.environ.get("GEN_LEAN_EARCLIP_OUT", os.path.join(VERIF, "lean", "Honeycomb", "Gen", "EarClip.lean"))
EARCLIP_OPS = [">", "<", ">=", "<="]
EARCLIP_OP_RX = r">=|<=|>|<"


def earclip_entry(src, name):
    """`process_cell(t, cmap, face_id, new_darts, |v1, v2, v3| { cross(va, vb, vc) OP T::zero() })` -> [a, b, c, op]"""
    need(fan_compact(fn_sig(src, name)) == FAN_SIG, f"earclip: {name}: signature")
    body = fan_compact(fn_body(src, name))
    m = re.fullmatch(fan_rx("process_cell(t, cmap, face_id, new_darts, |v1, v2, v3| { "
                            "Vertex2::cross_product_from_vertices(@A@, @B@, @C@) @OP@ T::zero() })",
                            A=r"v[123]", B=r"v[123]", C=r"v[123]", OP=EARCLIP_OP_RX), body)
    need(m, f"earclip: {name}: unexpected body `{body[:120]}`")
    return [int(m.group(1)[1]), int(m.group(2)[1]), int(m.group(3)[1]), EARCLIP_OPS.index(m.group(4))]


def earclip_off(txt, var, where):
    """`var` -> 0; `(var + k) % n` -> k (k >= 1)"""
    if txt == var:
        return 0
    m = re.fullmatch(r"\(" + re.escape(var) + r"\+(\d+)\)%n", txt)
    need(m and int(m.group(1)) >= 1, f"earclip: {where}: unexpected index `{txt}`")
    return int(m.group(1))


def earclip_process(src, variants, msgs):
    where = "process_cell"
    need(fan_compact(fn_sig(src, where)) == FAN_SIG.replace(
        "new_darts:&[DartIdType],)", "new_darts:&[DartIdType],is_inside_fn:impl FnOnce(&Vertex2<T>,&Vertex2<T>,&Vertex2<T>)->bool+Copy,)"),
        f"earclip: {where}: signature")
    body = fan_compact(fn_body(src, where))
    m, pos = fan_take(body, 0, fan_rx(
        "let mut darts: SmallVec<DartIdType, 16> = SmallVec::new(); let mut vertices: SmallVec<Vertex2<T>, 16> = SmallVec::new(); "
        + FAN_ORBIT +
        " for &d in &darts { let vid = cmap.vertex_id_transac(t, d)?; let v = if let Some(val) = cmap.read_vertex(t, vid)? { val } "
        "else { abort(TriangulateError::@V@(@MSG@))? }; vertices.push(v); } "
        "if let Err(e) = check_requirements(darts.len(), new_darts.len()) { abort(e)?; } "
        "let mut darts = darts.clone(); let mut vertices = vertices.clone(); let mut n = darts.len(); "
        "for sl in new_darts.chunks_exact(2)",
        POL=r"\w+", V=r"\w+", MSG=r'"[^"]*",?'), where)
    need(m.group(1) in FAN_POLICIES, f"earclip: {where}: policy {m.group(1)}")
    pol = FAN_POLICIES.index(m.group(1))
    need(m.group(2) in variants, f"earclip: {where}: variant {m.group(2)}")
    msgs.append(m.group(3).strip('",').replace(" ", "-"))
    undef = [variants.index(m.group(2)), 3, len(msgs) - 1]
    end = fan_block_end(body, pos, where)
    lbody = body[pos + 1:end - 1]
    m = re.fullmatch(fan_rx('assert_eq!(n, @K@, @MSG@); Ok(())', K=r"\d+", MSG=r'"[^"]*",?'), body[end:])
    need(m, f"earclip: {where}: unexpected text after the loop `{body[end:][:90]}`")
    final_n = int(m.group(1))
    vidx = r"\*idx|\(\*idx\+\d+\)%n"
    didx = r"ear|\(ear\+\d+\)%n"
    vv = r"v[123]"
    m, p = fan_take(lbody, 0, fan_rx(
        "let &[nd1, nd2] = sl else { unreachable!() }; let Some(ear) = (@LO@..n).find(|idx| { "
        "let v1 = &vertices[@I1@]; let v2 = &vertices[@I2@]; let v3 = &vertices[@I3@]; "
        "let is_inside = is_inside_fn(@A@, @B@, @C@); "
        "let no_overlap = vertices.iter().filter(|v| (**v != *v1) && (**v != *v2) && (**v != *v3)).all(|v| { "
        "let sig12v = Vertex2::cross_product_from_vertices(@P1@, @Q1@, v); "
        "let sig23v = Vertex2::cross_product_from_vertices(@P2@, @Q2@, v); "
        "let sig31v = Vertex2::cross_product_from_vertices(@P3@, @Q3@, v); "
        "let has_pos = (sig12v @X1@ T::zero()) || (sig23v @X2@ T::zero()) || (sig31v @X3@ T::zero()); "
        "let has_neg = (sig12v @Y1@ T::zero()) || (sig23v @Y2@ T::zero()) || (sig31v @Y3@ T::zero()); "
        "has_pos && has_neg }); is_inside && no_overlap }) else { abort(TriangulateError::@NE@)? }; "
        "let @E1@ = darts[@J1@]; let @E2@ = darts[@J2@];",
        LO=r"\d+", I1=vidx, I2=vidx, I3=vidx, A=vv, B=vv, C=vv, P1=vv, Q1=vv, P2=vv, Q2=vv, P3=vv, Q3=vv,
        X1=EARCLIP_OP_RX, X2=EARCLIP_OP_RX, X3=EARCLIP_OP_RX, Y1=EARCLIP_OP_RX, Y2=EARCLIP_OP_RX, Y3=EARCLIP_OP_RX,
        NE=r"\w+", E1=r"\w+", J1=didx, E2=r"\w+", J2=didx), where + " (loop)")
    g = m.groups()
    lo = int(g[0])
    vidxs = [earclip_off(x, "*idx", where) for x in g[1:4]]
    inside_args = [int(x[1]) for x in g[4:7]]
    sigs = [[int(g[7][1]), int(g[8][1])], [int(g[9][1]), int(g[10][1])], [int(g[11][1]), int(g[12][1])]]
    pos_ops = [EARCLIP_OPS.index(x) for x in g[13:16]]
    neg_ops = [EARCLIP_OPS.index(x) for x in g[16:19]]
    need(g[19] in variants, f"earclip: {where}: variant {g[19]}")
    no_ear = [variants.index(g[19]), 0, 0]
    e1, e2 = g[20], g[22]
    need(e1 != e2 and not {e1, e2} & {"nd1", "nd2", "ear", "n", "darts", "vertices"}, f"earclip: {where}: names of the ear darts")
    picks = [earclip_off(g[21], "ear", where), earclip_off(g[23], "ear", where)]
    names = {e1: 0, e2: 1, "nd1": 2, "nd2": 3}
    ms = re.search(fan_rx("darts.remove((ear + @KR@) % n); darts.push(@PU@); darts.swap_remove(ear); "
                          "vertices.remove((ear + @KV@) % n); n -= 1;", KR=r"\d+", PU=r"\*?\w+", KV=r"\d+") + "$", lbody)
    need(ms and ms.start() >= p, f"earclip: {where}: the loop must end with the dart / vertex list bookkeeping and `n -= 1;`")
    step = fan_straight(lbody[p:ms.start()], names, {}, where + " (loop)")
    surgery = [int(ms.group(1)), fan_operand(ms.group(2), names, where), int(ms.group(3))]
    need(surgery[0] >= 1 and surgery[2] >= 1, f"earclip: {where}: bookkeeping offsets")
    return pol, undef, final_n, [lo] + vidxs, inside_args, sigs, pos_ops, neg_ops, no_ear, picks, step, surgery


def gen_earclip():
    msrc = strip_comments(open(FAN_MOD_RS).read())
    src = strip_comments(open(EARCLIP_RS).read())
    variants, msgs = fan_enum(msrc), []
    ccw = earclip_entry(src, "earclip_cell_countercw")
    cw = earclip_entry(src, "earclip_cell_cw")
    pol, undef, final_n, search, inside_args, sigs, pos_ops, neg_ops, no_ear, picks, step, surgery = earclip_process(src, variants, msgs)

    def nl(a):
        return "[" + ", ".join(map(str, a)) + "]"

    def tab(rows):
        return "[" + ", ".join(f"({op}, {nl(a)})" for op, a in rows) + "]"

    out = ["/-\n  GENERATED by /verif/tools/gen_lean.py from\n  /repo/honeycomb-kernels/src/triangulation/ear_clipping.rs (and the enum of mod.rs) — DO NOT EDIT.\n\n"
           "  `ccwInside` / `cwInside` = [a, b, c, op]: the closure `|v1, v2, v3| { Vertex2::cross_product_from_vertices(v<a>, v<b>, v<c>)\n"
           "    <op> T::zero() }` handed to `process_cell` by `earclip_cell_countercw` / `earclip_cell_cw`; op: 0 `>`, 1 `<`, 2 `>=`, 3 `<=`.\n"
           "  `process_cell`: the collecting loops exactly as in fan.rs (`policy`: index in Vertex, VertexLinear, Edge, Face, FaceLinear;\n"
           "    `undef` = error action [variant, 3, message index into `msgs`] of an undefined vertex), `if let Err(e) =\n"
           "    check_requirements(darts.len(), new_darts.len()) { abort(e)?; }`, `let mut n = darts.len();`, then\n"
           "    `for sl in new_darts.chunks_exact(2) { let &[nd1, nd2] = sl else { unreachable!() }; <search> <step> <bookkeeping> }`\n"
           "    `assert_eq!(n, <finalN>, ..); Ok(())`.\n"
           "  <search> = `let Some(ear) = (<lo>..n).find(|idx| { let v1 = &vertices[i1]; let v2 = &vertices[i2]; let v3 = &vertices[i3];`\n"
           "    `let is_inside = is_inside_fn(v<a>, v<b>, v<c>); let no_overlap = vertices.iter().filter(|v| (**v != *v1) && (**v != *v2)`\n"
           "    `&& (**v != *v3)).all(|v| { let sig12v = cross(v<p1>, v<q1>, v); let sig23v = cross(v<p2>, v<q2>, v); let sig31v =`\n"
           "    `cross(v<p3>, v<q3>, v); let has_pos = (sig12v <x1> 0) || (sig23v <x2> 0) || (sig31v <x3> 0); let has_neg = (sig12v <y1> 0)`\n"
           "    `|| (sig23v <y2> 0) || (sig31v <y3> 0); has_pos && has_neg }); is_inside && no_overlap }) else { abort(<noEar>)? };`\n"
           "    `search` = [lo, i1, i2, i3] with index 0 = `*idx`, k ≥ 1 = `(*idx + k) % n`; `insideArgs` = [a, b, c];\n"
           "    `sigs` = [[p1, q1], [p2, q2], [p3, q3]]; `posOps` = [x1, x2, x3]; `negOps` = [y1, y2, y3] (op codes as above).\n"
           "  <step> = `let e1 = darts[j1]; let e2 = darts[j2];` (`picks` = [j1, j2]: 0 = `ear`, k ≥ 1 = `(ear + k) % n`) followed by\n"
           "    `stepBody`, instructions as in Gen/Fan.lean ((1, [i, a]) beta_transac::<i>; (50, [0, I, a, b]) sew::<I>(a, b);\n"
           "    (50, [1, I, a]) unsew::<I>(a)), operands 0 = e1, 1 = e2, 2 = nd1, 3 = nd2, 20 + j = the j-th variable bound.\n"
           "  <bookkeeping> = `darts.remove((ear + kr) % n); darts.push(<operand pu>); darts.swap_remove(ear);`\n"
           "    `vertices.remove((ear + kv) % n); n -= 1;` with `surgery` = [kr, pu, kv].\n"
           "  Props/C13GenB.lean interprets these tables and proves them EQUAL to Model/Kernels/EarClip.lean.\n-/\n",
           "namespace HC.Gen.EarClip\n",
           "/-- `&'static str` payloads -/\ndef msgs : List String := [" + ", ".join(f'"{s}"' for s in msgs) + "]\n",
           "/-- `earclip_cell_countercw`: the orientation test -/\ndef ccwInside : List Nat := " + nl(ccw) + "\n",
           "/-- `earclip_cell_cw`: the orientation test -/\ndef cwInside : List Nat := " + nl(cw) + "\n",
           f"/-- `process_cell`: orbit policy -/\ndef policy : Nat := {pol}\n",
           "/-- `process_cell`: undefined vertex -/\ndef undef : List Nat := " + nl(undef) + "\n",
           f"/-- `process_cell`: the closing `assert_eq!(n, …)` -/\ndef finalN : Nat := {final_n}\n",
           "/-- the ear search: range start and the three vertex indices -/\ndef search : List Nat := " + nl(search) + "\n",
           "/-- the ear search: arguments of `is_inside_fn` -/\ndef insideArgs : List Nat := " + nl(inside_args) + "\n",
           "/-- the ear search: first two arguments of the three cross products -/\ndef sigs : List (List Nat) := [" + ", ".join(nl(s) for s in sigs) + "]\n",
           "/-- the ear search: comparisons of `has_pos` -/\ndef posOps : List Nat := " + nl(pos_ops) + "\n",
           "/-- the ear search: comparisons of `has_neg` -/\ndef negOps : List Nat := " + nl(neg_ops) + "\n",
           "/-- no ear found -/\ndef noEar : List Nat := " + nl(no_ear) + "\n",
           "/-- the two darts of the ear -/\ndef picks : List Nat := " + nl(picks) + "\n",
           "/-- one clipping step: reads, unsews, sews -/\ndef stepBody : List (Nat × List Nat) := " + tab(step) + "\n",
           "/-- the dart / vertex list bookkeeping -/\ndef surgery : List Nat := " + nl(surgery) + "\n",
           "end HC.Gen.EarClip\n"]
    txt = "\n".join(out)
    if not os.path.exists(EARCLIP_OUT) or open(EARCLIP_OUT).read() != txt:
        open(EARCLIP_OUT, "w").write(txt)
    return f"gen_lean: earclip ok ({len(step)} step instructions)"


GENERATORS["earclip"] = gen_earclip


GENERATORS["dispatch3"] = gen_dispatch3


# ---------------------------------------------------------------------------------------------
# dart allocation: add_free_dart(s), insert_free_dart, remove_free_dart(_transac) of dim2/basic_ops.rs and dim3/basic_ops.rs,
# AttrStorageManager::extend_storages and the bucket a bind policy selects (attributes/manager.rs)
# ---------------------------------------------------------------------------------------------

ALLOC2_RS = os.environ.get("GEN_LEAN_ALLOC2_RS", "/repo/honeycomb-core/src/cmap/dim2/basic_ops.rs")
ALLOC3_RS = os.environ.get("GEN_LEAN_ALLOC3_RS", "/repo/honeycomb-core/src/cmap/dim3/basic_ops.rs")
MANAGER_RS = os.environ.get("GEN_LEAN_MANAGER_RS", "/repo/honeycomb-core/src/attributes/manager.rs")
ALLOC_OUT = os.path.join(os.path.dirname(LINK3_OUT), "Alloc.lean")
ALLOC_COMP = {"betas.extend": 1, "unused_darts.extend": 2, "vertices.extend": 3, "attributes.extend_storages": 4}


def alloc_add(src, fname, dim):
    """add_free_dart / add_free_darts -> (source of the returned id, [(component, amount)]); amount 0 = the parameter, 1 = literal 1"""
    where = f"dim{dim}/basic_ops.rs {fname}"
    body = "".join(fn_body(src, fname).split())
    sig = "".join(fn_sig(src, fname).split())
    par = re.findall(r"(\w+):usize", sig)
    need(len(par) <= 1, f"{where}: parameters {par}")
    m = re.match(r"letnew_id=self\.n_darts(\(\))?asDartIdType;", body)
    need(m, f"{where}: does not start by saving the dart count")
    derived = m.group(1) is not None           # 3-D: n_darts() is derived from the beta storage
    pos, comps = m.end(), []

    def amount(tok):
        if tok == "1":
            return 1
        need(par and tok == par[0], f"{where}: extension by {tok!r}")
        return 0

    while not body.startswith("new_id", pos):
        m = re.compile(r"self\.n_darts\+=(\w+);").match(body, pos)
        if m:
            need(not derived, f"{where}: the derived dart count is assigned")
            comps.append((0, amount(m.group(1))))
            pos = m.end()
            continue
        m = re.compile(r"self\.(\w+\.\w+)\((\w+)\);").match(body, pos)
        need(m and m.group(1) in ALLOC_COMP, f"{where}: statement not recognised at {body[pos:pos + 60]!r}")
        comps.append((ALLOC_COMP[m.group(1)], amount(m.group(2))))
        pos = m.end()
    need(body[pos:] == "new_id", f"{where}: does not return the saved count")
    return (1 if derived else 0), comps


def alloc_rest(src, dim):
    where = f"dim{dim}/basic_ops.rs"
    b = "".join(fn_body(src, "insert_free_dart").split())
    m = re.fullmatch(r"ifletSome\(\(new_id,_\)\)=self\.unused_darts\.iter\(\)\.enumerate\(\)\.find\(\|\(_,u\)\|(!?)u\.read_atomic\(\)\)"
                     r"\{atomically\(\|trans\|self\.unused_darts\[new_idasDartIdType\]\.write\(trans,(true|false)\)\);new_idasDartIdType\}"
                     r"else\{self\.(add_free_dart)\(\)\}", b)
    need(m, f"{where} insert_free_dart: shape not recognised: {b[:120]!r}")
    ins = [0 if m.group(1) else 1, 1 if m.group(2) == "true" else 0, 1]      # flag value searched for (first match from index 0), value written, falls back to add_free_dart
    b = "".join(fn_body(src, "remove_free_dart_transac").split())
    m = re.fullmatch(r"self\.unused_darts\[dart_id\]\.replace\(t,(true|false)\)", b)
    need(m, f"{where} remove_free_dart_transac: shape not recognised: {b[:120]!r}")
    rtx = [1 if m.group(1) == "true" else 0]                                 # `replace`: returns the old flag, writes this value
    b = "".join(fn_body(src, "remove_free_dart").split())
    m = re.fullmatch(r"assert!\(self\.is_free\(dart_id\)\);assert!\((!?)atomically\(\|t\|self\.remove_free_dart_transac\(t,dart_id\)\)\);", b)
    need(m, f"{where} remove_free_dart: shape not recognised: {b[:120]!r}")
    rm = [1, 0 if m.group(1) else 1]                                          # freeness asserted first; then the answer of the removal asserted to be this value
    b = "".join(fn_body(src, "is_free").split())
    idx = []
    for conj in b.split("&&"):
        m = re.fullmatch(r"self\.beta::<(\d)>\(dart_id\)==NULL_DART_ID", conj)
        need(m, f"{where} is_free: conjunct not recognised: {conj!r}")
        idx.append(int(m.group(1)))
    return ins, rtx, rm, idx


def alloc_manager(src):
    where = "attributes/manager.rs"
    b = "".join(fn_body(src, "extend_storages").split())
    buckets, pos = [], 0
    while pos < len(b):
        m = re.compile(r"formapin&mutself\.icells\{forstorageinmap\.values_mut\(\)\{storage\.extend\(length\);\}\}").match(b, pos)
        if m:
            buckets.append(0)
            pos = m.end()
            continue
        m = re.compile(r"forstorageinself\.others\.values_mut\(\)\{storage\.extend\(length\);\}").match(b, pos)
        need(m, f"{where} extend_storages: statement not recognised at {b[pos:pos + 80]!r}")
        buckets.append(1)
        pos = m.end()
    # get_map / get_map_mut: the bucket of every bind policy (4 = others)
    pol = {"Vertex": 0, "VertexLinear": 4, "Edge": 1, "Face": 2, "FaceLinear": 5, "Volume": 3, "VolumeLinear": 6, "Custom(_)": 7}
    tables = []
    for f in ("get_map", "get_map_mut"):
        gb = "".join(fn_body(src, f).split())
        m = re.fullmatch(r"matchorbit\{(.*)\}", gb)
        need(m, f"{where} {f}: not a single match")
        row = {}
        for arm in [a for a in m.group(1).split(",") if a]:
            h = re.fullmatch(r"((?:OrbitPolicy::[\w()]+\|?)+)=>&(?:mut)?self\.(icells\[(\d)\]|others)", arm)
            need(h, f"{where} {f}: arm not recognised: {arm!r}")
            for pn in h.group(1).split("|"):
                pn = pn.replace("OrbitPolicy::", "")
                need(pn in pol and pol[pn] not in row, f"{where} {f}: policy {pn}")
                row[pol[pn]] = int(h.group(3)) if h.group(3) is not None else 4
        need(sorted(row) == list(range(8)), f"{where} {f}: policies {sorted(row)}")
        tables.append([row[k] for k in range(8)])
    need(tables[0] == tables[1], f"{where}: get_map and get_map_mut disagree")
    # merge_attributes / split_attributes: one loop over the storages of the bucket of the policy, every storage gets the three
    # identifiers in the order of the parameters, the first failure ends the call (`?`)
    loops = []
    for f, meth in (("merge_attributes", "merge"), ("split_attributes", "split")):
        sig = "".join(fn_sig(src, f).split())
        params = re.findall(r"(\w+):DartIdType", sig)
        need(len(params) == 3 and "orbit_policy:OrbitPolicy" in sig, f"{where} {f}: parameters {params}")
        lb = "".join(fn_body(src, f).split())
        m = re.fullmatch(r"forstorageinself\.get_map\(orbit_policy\)\.values\(\)\{storage\.(\w+)\(trans,(\w+),(\w+),(\w+)\)\?;\}Ok\(\(\)\)", lb)
        need(m and m.group(1) == meth, f"{where} {f}: not one `?`-propagating loop over the storages of the policy's bucket calling `{meth}`")
        loops.append([params.index(m.group(k)) for k in (2, 3, 4)])
    return buckets, tables[0], loops


def gen_alloc():
    s2, s3 = strip_comments(open(ALLOC2_RS).read()), strip_comments(open(ALLOC3_RS).read())
    mg = strip_comments(open(MANAGER_RS).read())
    out = ["/-\n  GENERATED by /verif/tools/gen_lean.py from /repo/honeycomb-core/src/cmap/dim2/basic_ops.rs, dim3/basic_ops.rs and\n"
           "  attributes/manager.rs — DO NOT EDIT.  Regenerated by tools/check.py before every build of a module that imports it.\n\n"
           "  add_free_dart / add_free_darts: (d, steps); d = 1 when the saved id is the DERIVED count `self.n_darts()` (3-D), 0 when it is the\n"
           "  field `self.n_darts` (2-D); steps in source order, (component, amount): component 0 = `self.n_darts += …`, 1 = `self.betas.extend`,\n"
           "  2 = `self.unused_darts.extend`, 3 = `self.vertices.extend`, 4 = `self.attributes.extend_storages`; amount 0 = the parameter, 1 = the literal 1.\n"
           "  insertFreeDart: [flag value searched for from index 0, value written to the slot found, 1 = falls back to add_free_dart].\n"
           "  removeFreeDartTx: [value `replace`d into the flag (the old flag is the answer)].\n"
           "  removeFreeDart: [1 = `assert!(self.is_free(d))` comes first, the answer of the transactional removal that the second assertion demands].\n"
           "  isFree: the indices i of the conjuncts `self.beta::<i>(d) == NULL_DART_ID` of `is_free`, in source order.\n"
           "  extendStorages: buckets extended by `extend_storages`, in source order (0 = every map of `icells`, 1 = `others`).\n"
           "  bucketOfPolicy: bucket chosen by get_map / get_map_mut for the policies Vertex, Edge, Face, Volume, VertexLinear, FaceLinear,\n"
           "  VolumeLinear, Custom(_) in this order (0..3 = icells[i], 4 = others).\n"
           "  Props/C18Gen.lean gives these tables their meaning and proves it EQUAL to the allocation functions of Model/Ops.lean.\n-/\n",
           "namespace HC.Gen.Alloc\n"]
    for dim, src in ((2, s2), (3, s3)):
        for f, nm in (("add_free_dart", "addFreeDart"), ("add_free_darts", "addFreeDarts")):
            d, comps = alloc_add(src, f, dim)
            out.append(f"def {nm}{dim} : Nat × List (Nat × Nat) := ({d}, [" + ", ".join(f"({a}, {b})" for a, b in comps) + "])")
        ins, rtx, rm, free = alloc_rest(src, dim)
        out.append(f"def isFree{dim} : List Nat := {free}")
        out.append(f"def insertFreeDart{dim} : List Nat := {ins}")
        out.append(f"def removeFreeDartTx{dim} : List Nat := {rtx}")
        out.append(f"def removeFreeDart{dim} : List Nat := {rm}\n")
    buckets, table, loops = alloc_manager(mg)
    out.append(f"def extendStorages : List Nat := {buckets}")
    out.append(f"def bucketOfPolicy : List Nat := {table}")
    out.append("/-- `merge_attributes` / `split_attributes`: ONE loop over `self.get_map(orbit_policy).values()`, every storage is handed the three\n"
               "    identifier parameters in this order (indices into the parameter list), the first error ends the call -/")
    out.append(f"def mergeAttributesArgs : List Nat := {loops[0]}")
    out.append(f"def splitAttributesArgs : List Nat := {loops[1]}\n")
    out.append("end HC.Gen.Alloc\n")
    txt = "\n".join(out)
    if not os.path.exists(ALLOC_OUT) or open(ALLOC_OUT).read() != txt:
        open(ALLOC_OUT, "w").write(txt)
    return "gen_lean: alloc ok"


GENERATORS["alloc"] = gen_alloc


# ---------------------------------------------------------------------------------------------
# remeshing kernels: swap_edge (honeycomb-kernels/src/remeshing/swap.rs), cut_outer_edge / cut_inner_edge (cut.rs), and the
# dispatch `CMap2::sew::<I>` / `unsew::<I>` / `force_sew::<I>` / `force_unsew::<I>` (honeycomb-core/src/cmap/dim2/sews/mod.rs)
# ---------------------------------------------------------------------------------------------

REMESH_SWAP_RS = os.environ.get("GEN_LEAN_SWAP_RS", "/repo/honeycomb-kernels/src/remeshing/swap.rs")
REMESH_CUT_RS = os.environ.get("GEN_LEAN_CUT_RS", "/repo/honeycomb-kernels/src/remeshing/cut.rs")
REMESH_MOD_RS = os.environ.get("GEN_LEAN_SEWS2_MOD_RS", "/repo/honeycomb-core/src/cmap/dim2/sews/mod.rs")
REMESH_OUT = os.environ.get("GEN_LEAN_REMESH_OUT", os.path.join(VERIF, "lean", "Honeycomb", "Gen", "Remesh.lean"))
REMESH_CALLEE = {"one_sew": 0, "two_sew": 1, "one_unsew": 2, "two_unsew": 3}
REMESH_KIND = {"VertexAnchor": 0, "EdgeAnchor": 1, "FaceAnchor": 2}
REMESH_NULL = {"NULL_DART_ID": 10, "NULL_EDGE_ID": 11}
REMESH_ID_FN = {"vertex_id_transac": 7, "face_id_transac": 8, "edge_id_transac": 9}
REMESH_CAST = r"(?: as (?:DartIdType|EdgeIdType|VertexIdType|FaceIdType))?"


def remesh_norm(s):
    """one space between two word characters, none elsewhere"""
    return re.sub(r" ?([^\w ]) ?", r"\1", " ".join(s.split()))


def remesh_dispatch(src):
    """[(k, I, callee, positions of the callee's arguments among the dispatcher's dart parameters)] for
    k = 0 `sew`, 1 `unsew`, 2 `force_sew`, 3 `force_unsew`"""
    rows = []
    for k, (fname, ps) in enumerate([("sew", ["ld", "rd"]), ("unsew", ["ld"]), ("force_sew", ["ld", "rd"]), ("force_unsew", ["ld"])]):
        where = f"dim2/sews/mod.rs {fname}"
        forced = k >= 2
        sig = remesh_norm(fn_sig(src, fname))
        want = "<const I:u8>(&self," + ("" if forced else "trans:&mut Transaction,") + ",".join(p + ":DartIdType" for p in ps)
        need(sig.startswith(want) and re.fullmatch(r",?\)->.*", sig[len(want):]), f"{where}: signature {sig!r}")
        body = remesh_norm(fn_body(src, fname))
        m = re.fullmatch(r"assert!\(I<3\);assert_ne!\(I,0\);match I\{(.*)\}", body)
        need(m, f"{where}: body is not `assert!(I < 3); assert_ne!(I, 0); match I {{ … }}`: {body[:80]!r}")
        arms = split_top(m.group(1))
        need(arms and arms[-1] == "_=>unreachable!()", f"{where}: last arm is not `_ => unreachable!()`")
        seen = []
        for arm in arms[:-1]:
            call = r"self\.(\w+)\(trans((?:,\w+)*)\)"
            a = re.fullmatch(r"(\d+)=>" + (r"atomically_with_err\(\|trans\|" + call + r"\)" if forced else call), arm)
            need(a, f"{where}: arm not recognised: {arm!r}")
            i, callee, args = int(a.group(1)), a.group(2), [x for x in a.group(3).split(",") if x]
            need(callee in REMESH_CALLEE, f"{where}: unknown callee {callee!r}")
            need(i not in seen, f"{where}: arm {i} twice")
            need(all(x in ps for x in args), f"{where}: arguments {args}")
            need(len(args) == (2 if REMESH_CALLEE[callee] < 2 else 1), f"{where}: arity of {callee}")
            seen.append(i)
            rows.append((k, i, REMESH_CALLEE[callee], [ps.index(x) for x in args]))
    return rows


def remesh_enum(src, name):
    """variant names of `pub enum name` in declaration order (payloads dropped)"""
    m = re.search(r"\bpub enum " + name + r"\b", src)
    need(m, f"enum {name} not found")
    body, _ = block_after(src, m.end(), f"enum {name}")
    body = re.sub(r"#\[[^\]]*\]", " ", body)
    out = []
    for v in split_top(body):
        mm = re.fullmatch(r"(\w+)(?:\(.*\))?", "".join(v.split()))
        need(mm, f"enum {name}: variant not recognised: {v!r}")
        out.append(mm.group(1))
    need(len(set(out)) == len(out) and out, f"enum {name}: variants {out}")
    return out


def remesh_fn(src, fname, label, nnew, errty, errs):
    """instructions of one kernel; `nnew` = length of the array of new darts (0: no such parameter)"""
    where = f"{label} {fname}"
    sig = remesh_norm(fn_sig(src, fname))
    nds = [f"nd{j + 1}" for j in range(nnew)]
    want = "<T:CoordsFloat>(t:&mut Transaction,map:&CMap2<T>,e:EdgeIdType," + \
           (f"[{','.join(nds)}]:[DartIdType;{nnew}]," if nnew else "") + f")->TransactionClosureResult<(),{errty}>"
    need(sig == want, f"{where}: signature {sig!r}")
    # name -> (operand, type); types: "n" number (dart / cell id), ("opt", K) Option<K-anchor>, ("anch", K), "vtx"
    base = {"e": (0, "n")}
    for j, p in enumerate(nds):
        base[p] = (1 + j, "n")
    for c, v in REMESH_NULL.items():
        base[c] = (v, "n")
    nvars = [0]
    A = r"(\w+)" + REMESH_CAST          # an atom: a name, possibly cast between the (integer) identifier types

    def block(body, names):
        out, pos = [], 0

        def val(tok, ty="n"):
            need(tok in names, f"{where}: unknown name {tok!r}")
            need(names[tok][1] == ty, f"{where}: {tok} has type {names[tok][1]}, expected {ty}")
            return names[tok][0]

        def bind(name, ty):
            need(name not in names, f"{where}: {name} bound twice")
            names[name] = (20 + nvars[0], ty)
            nvars[0] += 1

        def rhs(e):
            """one right-hand side of a `let`: returns ("alias", operand) or ("ins", instruction)"""
            m = re.fullmatch(A, e)
            if m:
                return ("alias", val(m.group(1)))
            m = re.fullmatch(r"map\.beta_transac::<(\d)>\(t," + A + r"\)\?", e)
            if m:
                return ("ins", (1, [int(m.group(1)), val(m.group(2))]))
            m = re.fullmatch(r"map\.(vertex_id_transac|face_id_transac|edge_id_transac)\(t," + A + r"\)\?", e)
            if m:
                return ("ins", (REMESH_ID_FN[m.group(1)], [val(m.group(2))]))
            raise Shape(f"{where}: expression not recognised: {e[:90]!r}")

        def let(name, e):
            kind, x = rhs(e)
            if kind == "alias":
                need(name not in names, f"{where}: {name} bound twice")
                names[name] = (x, "n")
            else:
                out.append(x)
                bind(name, "n")

        while pos < len(body):
            rest = body[pos:]
            m = re.match(r"if " + A + "==" + A + r"\{abort\(" + errty + r"::(\w+)\)\?;\}", rest)
            if m:
                need(m.group(3) in errs, f"{where}: unknown error variant {m.group(3)}")
                out.append((0, [val(m.group(1)), val(m.group(2)), errs.index(m.group(3))]))
                pos += m.end()
                continue
            b = r"map\.beta_transac::<(\d)>\(t," + A + r"\)\?"
            m = re.match(r"if " + b + "!=" + A + r"\|\|" + b + "!=" + A + r"\{abort\(" + errty + r"::(\w+)\)\?;\}", rest)
            if m:
                g = m.groups()
                need(g[6] in errs, f"{where}: unknown error variant {g[6]}")
                out.append((2, [int(g[0]), val(g[1]), val(g[2]), int(g[3]), val(g[4]), val(g[5]), errs.index(g[6])]))
                pos += m.end()
                continue
            call = r"map\.(sew|unsew)::<(\d)>\(t," + A + r"(?:," + A + r")?\)"
            m = re.match(r"try_or_coerce!\(" + call + "," + errty + r"\);", rest) or re.match(call + r"\?;", rest)
            if m:
                k = 0 if m.group(1) == "sew" else 1
                need((m.group(4) is not None) == (k == 0), f"{where}: arity of {m.group(1)}")
                out.append((3, [k, int(m.group(2)), val(m.group(3))] + ([val(m.group(4))] if k == 0 else [])))
                pos += m.end()
                continue
            m = re.match(r"try_or_coerce!\(map\.link::<(\d)>\(t," + A + "," + A + r"\)," + errty + r"\);", rest)
            if m:
                out.append((4, [int(m.group(1)), val(m.group(2)), val(m.group(3))]))
                pos += m.end()
                continue
            m = re.match(r"let (\w+)=if map\.contains_attribute::<(\w+)>\(\)\{let (\w+)=map\.face_id_transac\(t," + A +
                         r"\)\?;map\.remove_attribute::<(\w+)>\(t,(\w+)\)\?\}else\{None\};", rest)
            if m:
                g = m.groups()
                need(g[1] in REMESH_KIND and g[1] == g[4], f"{where}: attribute kinds {g[1]} / {g[4]}")
                need(g[2] == g[5] and g[2] not in names, f"{where}: the removed identifier is not the face identifier just computed")
                out.append((5, [REMESH_KIND[g[1]], val(g[3])]))
                bind(g[0], ("opt", REMESH_KIND[g[1]]))
                pos += m.end()
                continue
            m = re.match(r"let (\w+)=if map\.contains_attribute::<(\w+)>\(\)\{map\.read_attribute::<(\w+)>\(t," + A +
                         r"\)\?\}else\{None\};", rest)
            if m:
                g = m.groups()
                need(g[1] in REMESH_KIND and g[1] == g[2], f"{where}: attribute kinds {g[1]} / {g[2]}")
                out.append((6, [REMESH_KIND[g[1]], val(g[3])]))
                bind(g[0], ("opt", REMESH_KIND[g[1]]))
                pos += m.end()
                continue
            rv = r"map\.read_vertex\(t," + A + r"\)\?"
            m = re.match(r"let (\w+)=match\(" + rv + "," + rv + r"\)\{\(Some\((\w+)\),Some\((\w+)\)\)=>Vertex2::average\(&(\w+),&(\w+)\),"
                         r"_=>retry\(\)\?,?\};", rest)
            if m:
                g = m.groups()
                need((g[3], g[4]) == (g[5], g[6]) and g[3] != g[4], f"{where}: the average is not taken of the two values read, in order")
                out.append((10, [val(g[1]), val(g[2])]))
                bind(g[0], "vtx")
                pos += m.end()
                continue
            m = re.match(r"let (\w+)=([^;{}]+);", rest)
            if m:
                let(m.group(1), m.group(2))
                pos += m.end()
                continue
            m = re.match(r"let\((\w+),(\w+)\)=\(([^;{}]+)\);", rest)
            if m:
                parts = split_top(m.group(3))
                need(len(parts) == 2, f"{where}: tuple `let` with {len(parts)} components")
                let(m.group(1), parts[0])         # evaluated left to right
                let(m.group(2), parts[1])
                pos += m.end()
                continue
            m = re.match(r"map\.write_vertex\(t," + A + r",(\w+)\)\?;", rest)
            if m:
                out.append((11, [val(m.group(1)), val(m.group(2), "vtx")]))
                pos += m.end()
                continue
            m = re.match(r"map\.write_attribute\(t," + A + r",(?:(\w+)::from\((\w+)\)|(\w+))\)\?;", rest)
            if m:
                g = m.groups()
                a = g[2] if g[2] is not None else g[3]
                need(a in names and isinstance(names[a][1], tuple) and names[a][1][0] == "anch", f"{where}: written value {a!r} is not an anchor")
                kfrom = names[a][1][1]
                if g[1] is not None:
                    need(g[1] in REMESH_KIND and REMESH_KIND[g[1]] < kfrom, f"{where}: conversion {g[1]}::from of a kind-{kfrom} anchor")
                    kto = REMESH_KIND[g[1]]
                else:
                    kto = kfrom
                # the attribute written is the one the TYPE of the value selects
                out.append((13, [kto, val(g[0]), names[a][0], kfrom]))
                pos += m.end()
                continue
            m = re.match(r"if let Some\((\w+)\)=(\w+)\{", rest)
            if m:
                need(m.group(2) in names and isinstance(names[m.group(2)][1], tuple) and names[m.group(2)][1][0] == "opt",
                     f"{where}: `if let Some` on {m.group(2)!r}")
                blk, end = block_after(rest, m.end() - 1, where)
                need(not rest.startswith("else", end), f"{where}: unexpected `else`")
                inner = dict(names)
                need(m.group(1) not in inner, f"{where}: {m.group(1)} bound twice")
                saved = nvars[0]
                inner[m.group(1)] = (20 + nvars[0], ("anch", names[m.group(2)][1][1]))
                nvars[0] += 1
                ins = block(blk, inner)
                nvars[0] = saved                   # the bindings of the block end with it
                out.append((12, [names[m.group(2)][0], len(ins)]))
                out.extend(ins)
                pos += end
                continue
            m = re.match(r"if map\.contains_attribute::<(\w+)>\(\)\{", rest)
            if m:
                need(m.group(1) in REMESH_KIND, f"{where}: unknown attribute {m.group(1)}")
                blk, end = block_after(rest, m.end() - 1, where)
                need(not rest.startswith("else", end), f"{where}: unexpected `else`")
                saved = nvars[0]
                ins = block(blk, dict(names))
                nvars[0] = saved
                out.append((14, [REMESH_KIND[m.group(1)], len(ins)]))
                out.extend(ins)
                pos += end
                continue
            raise Shape(f"{where}: statement not recognised at {rest[:90]!r}")
        return out

    body = remesh_norm(fn_body(src, fname))
    need(body.endswith("Ok(())"), f"{where}: does not end with Ok(())")
    return block(body[:-len("Ok(())")], dict(base))


def gen_remesh():
    swap = strip_comments(open(REMESH_SWAP_RS).read())
    cut = strip_comments(open(REMESH_CUT_RS).read())
    mod = strip_comments(open(REMESH_MOD_RS).read())
    disp = remesh_dispatch(mod)
    errs = remesh_enum(swap, "EdgeSwapError")
    fns = [("swap_edge", remesh_fn(swap, "swap_edge", "remeshing/swap.rs", 0, "EdgeSwapError", errs)),
           ("cut_outer_edge", remesh_fn(cut, "cut_outer_edge", "remeshing/cut.rs", 3, "SewError", [])),
           ("cut_inner_edge", remesh_fn(cut, "cut_inner_edge", "remeshing/cut.rs", 6, "SewError", []))]
    out = ["/-\n  GENERATED by /verif/tools/gen_lean.py from\n  /repo/honeycomb-kernels/src/remeshing/swap.rs, cut.rs and /repo/honeycomb-core/src/cmap/dim2/sews/mod.rs — DO NOT EDIT.\n"
           "  Regenerated by tools/check.py before every build of a module that imports it.\n\n"
           "  `sewDispatch`: the arms of `match I` in `CMap2::sew::<I>` (k = 0), `unsew::<I>` (1), `force_sew::<I>` (2), `force_unsew::<I>` (3)\n"
           "  as (k, I, callee, positions of the callee's arguments among the dart parameters (ld, rd) of the dispatcher);\n"
           "  callee: 0 = one_sew, 1 = two_sew, 2 = one_unsew, 3 = two_unsew.  (Every function starts with `assert!(I < 3); assert_ne!(I, 0)`\n"
           "  and ends with `_ => unreachable!()`; the `force_` arms wrap the call in `atomically_with_err(|trans| …)`.)\n"
           "  `swapErrors`: the variants of `EdgeSwapError` in declaration order.\n\n"
           "  `swap_edge(t, map, e)`, `cut_outer_edge(t, map, e, [nd1, nd2, nd3])`, `cut_inner_edge(t, map, e, [nd1, …, nd6])` as (opcode, operands):\n"
           "    (0, [a, b, v])          if a == b { abort(EdgeSwapError::<variant v>)?; }\n"
           "    (1, [i, a])             let x = map.beta_transac::<i>(t, a)?                         (binds the next variable)\n"
           "    (2, [i, a, b, j, c, d, v])  if map.beta_transac::<i>(t, a)? != b || map.beta_transac::<j>(t, c)? != d { abort(<variant v>)?; }\n"
           "    (3, [0, I, a, b])       map.sew::<I>(t, a, b), error propagated (`try_or_coerce!(…, <error type of the function>)` or `?`)\n"
           "    (3, [1, I, a])          map.unsew::<I>(t, a), likewise\n"
           "    (4, [I, a, b])          try_or_coerce!(map.link::<I>(t, a, b), SewError)\n"
           "    (5, [K, a])             let x = if map.contains_attribute::<K>() { let fid = map.face_id_transac(t, a)?;\n"
           "                                     map.remove_attribute::<K>(t, fid)? } else { None }     (binds an Option<K>)\n"
           "    (6, [K, a])             let x = if map.contains_attribute::<K>() { map.read_attribute::<K>(t, a)? } else { None }   (binds)\n"
           "    (7 / 8 / 9, [a])        let x = map.vertex_id_transac / face_id_transac / edge_id_transac (t, a)?   (binds)\n"
           "    (10, [a, b])            let x = match (map.read_vertex(t, a)?, map.read_vertex(t, b)?) { (Some(v1), Some(v2)) =>\n"
           "                                     Vertex2::average(&v1, &v2), _ => retry()? }              (binds a vertex value)\n"
           "    (11, [a, x])            map.write_vertex(t, a, x)?\n"
           "    (12, [x, n])            if let Some(a) = x { the next n instructions, in which a is the next variable }\n"
           "    (13, [K, a, x, K'])     map.write_attribute(t, a, v)? where v = x (K' = K, the kind of anchor x is) or v = <K>::from(x) (x of kind K')\n"
           "    (14, [K, n])            if map.contains_attribute::<K>() { the next n instructions }\n"
           "  A tuple `let` is its components left to right; `let x = y as DartIdType` is an alias (no instruction); casts between the integer\n"
           "  identifier types inside arguments are dropped.  Variables bound inside a block end with it.\n"
           "  operands: 0 = e, 1 … 6 = nd1 … nd6, 10 = NULL_DART_ID, 11 = NULL_EDGE_ID, 20 + j = the j-th variable bound on the path taken;\n"
           "  K: 0 = VertexAnchor, 1 = EdgeAnchor, 2 = FaceAnchor.\n"
           "  Props/C15Gen.lean interprets these lists and proves them EQUAL to `swapEdge` (Model/Kernels/Swap.lean), `cutOuterEdge`,\n"
           "  `cutInnerEdge` (Model/Kernels/Cut.lean).\n-/\n",
           "namespace HC.Gen.Remesh\n"]
    out.append("/-- `CMap2::sew` / `unsew` / `force_sew` / `force_unsew` -/\ndef sewDispatch : List (Nat × Nat × Nat × List Nat) := [" +
               ", ".join(f"({k}, {i}, {c}, [{', '.join(map(str, a))}])" for k, i, c, a in disp) + "]\n")
    out.append("/-- `enum EdgeSwapError` -/\ndef swapErrors : List String := [" + ", ".join(f'"{v}"' for v in errs) + "]\n")
    for f, ins in fns:
        camel = re.sub(r"_(\w)", lambda m: m.group(1).upper(), f)
        out.append(f"/-- `{f}` -/\ndef {camel} : List (Nat × List Nat) := [" +
                   ", ".join(f"({op}, [{', '.join(map(str, a))}])" for op, a in ins) + "]\n")
    out.append("end HC.Gen.Remesh\n")
    txt = "\n".join(out)
    if not os.path.exists(REMESH_OUT) or open(REMESH_OUT).read() != txt:
        open(REMESH_OUT, "w").write(txt)
    return f"gen_lean: remesh ok ({len(disp)} dispatch arms, {sum(len(i) for _, i in fns)} instructions)"


GENERATORS["remesh"] = gen_remesh


# ---------------------------------------------------------------------------------------------
# edge collapse kernel: `collapse_edge` and its helpers (honeycomb-kernels/src/remeshing/collapse.rs); the statement shapes and
# operand conventions are those of the `remesh` generator above, extended (tuple parameters, helper calls, dart removal, …)
# ---------------------------------------------------------------------------------------------

COLLAPSE_RS = os.environ.get("GEN_LEAN_COLLAPSE_RS", "/repo/honeycomb-kernels/src/remeshing/collapse.rs")
COLLAPSE_OUT = os.environ.get("GEN_LEAN_COLLAPSE_OUT", os.path.join(VERIF, "lean", "Honeycomb", "Gen", "Collapse.lean"))
COLLAPSE_NULL = {"NULL_DART_ID": 10, "NULL_EDGE_ID": 11, "NULL_VERTEX_ID": 12}
COLLAPSE_HALF = {"collapse_halfcell_to_midpoint": 0, "collapse_halfcell_to_base": 1}
COLLAPSE_EDGE = {"collapse_edge_to_midpoint": 0, "collapse_edge_to_base": 1}
COLLAPSE_CHOICE = ["Average", "Left", "Right"]


def collapse_slug(s):
    return "-".join(s.split())


def collapse_fn(src, fname, ntuples, ret, errty):
    """instructions of one helper whose dart parameters are `ntuples` triples; returns (instructions, result operand or None)"""
    where = f"remeshing/collapse.rs {fname}"
    sig = remesh_norm(fn_sig(src, fname))
    tp = r"\((\w+),(\w+),(\w+)\):\(DartIdType,DartIdType,DartIdType\),"
    m = re.fullmatch(r"<T:CoordsFloat>\(t:&mut Transaction,map:&CMap2<T>," + tp * ntuples + r"\)->TransactionClosureResult<" +
                     re.escape(ret) + "," + errty + ">", sig)
    need(m, f"{where}: signature {sig!r}")
    base = {}
    for j, p in enumerate(m.groups()):
        need(p not in base, f"{where}: parameter {p} twice")
        base[p] = (j, "n")
    for c, v in COLLAPSE_NULL.items():
        base[c] = (v, "n")
    nvars = [0]
    A = r"(\w+)" + REMESH_CAST
    ERR = r"(?:SewError|EdgeCollapseError)"

    def block(body, names):
        out, pos = [], 0

        def val(tok, ty="n"):
            need(tok in names, f"{where}: unknown name {tok!r}")
            need(names[tok][1] == ty, f"{where}: {tok} has type {names[tok][1]}, expected {ty}")
            return names[tok][0]

        def bind(name, ty):
            need(name not in names, f"{where}: {name} bound twice")
            names[name] = (20 + nvars[0], ty)
            nvars[0] += 1

        def vidsel(e):
            """`if a != NULL_DART_ID { vid(b) } else if c != NULL_DART_ID { vid(d) } else { NULL_VERTEX_ID }`"""
            v = r"\{map\.vertex_id_transac\(t," + A + r"\)\?\}"
            mm = re.fullmatch("if " + A + "!=" + A + v + "else if " + A + "!=" + A + v + r"else\{(\w+)\}", e)
            need(mm, f"{where}: expression not recognised: {e[:90]!r}")
            g = mm.groups()
            need(g[1] == "NULL_DART_ID" and g[4] == "NULL_DART_ID" and g[6] == "NULL_VERTEX_ID", f"{where}: constants of the identifier selection: {g}")
            return (23, [val(g[0]), val(g[1]), val(g[2]), val(g[3]), val(g[4]), val(g[5]), val(g[6])])

        def let(name, e):
            mm = re.fullmatch(A, e)
            if mm:
                need(name not in names, f"{where}: {name} bound twice")
                names[name] = (val(mm.group(1)), "n")
                return
            mm = re.fullmatch(r"map\.beta_transac::<(\d)>\(t," + A + r"\)\?", e)
            if mm:
                out.append((1, [int(mm.group(1)), val(mm.group(2))]))
                return bind(name, "n")
            mm = re.fullmatch(r"map\.vertex_id_transac\(t," + A + r"\)\?", e)
            if mm:
                out.append((7, [val(mm.group(1))]))
                return bind(name, "n")
            mm = re.fullmatch(r"map\.read_vertex\(t," + A + r"\)\?", e)
            if mm:
                out.append((21, [val(mm.group(1))]))
                return bind(name, ("opt", "vtx"))
            mm = re.fullmatch(r"map\.read_attribute::<(\w+)>\(t," + A + r"\)\?", e)
            if mm:
                need(mm.group(1) in REMESH_KIND, f"{where}: unknown attribute {mm.group(1)}")
                out.append((22, [REMESH_KIND[mm.group(1)], val(mm.group(2))]))
                return bind(name, ("opt", REMESH_KIND[mm.group(1)]))
            out.append(vidsel(e))
            bind(name, "n")

        while pos < len(body):
            rest = body[pos:]
            call = r"map\.(sew|unsew)::<(\d)>\(t," + A + r"(?:," + A + r")?\)"
            m = re.match(r"try_or_coerce!\(" + call + "," + ERR + r"\);", rest) or re.match(call + r"\?;", rest)
            if m:
                k = 0 if m.group(1) == "sew" else 1
                need((m.group(4) is not None) == (k == 0), f"{where}: arity of {m.group(1)}")
                out.append((3, [k, int(m.group(2)), val(m.group(3))] + ([val(m.group(4))] if k == 0 else [])))
                pos += m.end()
                continue
            m = re.match(r"try_or_coerce!\(map\.unlink::<(\d)>\(t," + A + r"\),SewError\);", rest)
            if m:
                out.append((16, [int(m.group(1)), val(m.group(2))]))
                pos += m.end()
                continue
            m = re.match(r"map\.remove_free_dart_transac\(t," + A + r"\)\?;", rest)
            if m:
                out.append((15, [val(m.group(1))]))
                pos += m.end()
                continue
            call = r"(\w+)\(t,map,\(" + A + "," + A + "," + A + r"\)\)"
            m = re.match(r"try_or_coerce!\(" + call + r",?," + ERR + r",?\);", rest) or re.match(call + r"\?;", rest)
            if m:
                need(m.group(1) in COLLAPSE_HALF, f"{where}: unknown callee {m.group(1)!r}")
                out.append((20, [COLLAPSE_HALF[m.group(1)], val(m.group(2)), val(m.group(3)), val(m.group(4))]))
                pos += m.end()
                continue
            m = re.match(r"let (\w+)=(if [^;]+);", rest) or re.match(r"let (\w+)=([^;{}]+);", rest)
            if m:
                let(m.group(1), m.group(2))
                pos += m.end()
                continue
            m = re.match(r"let\((\w+),(\w+)\)=\(([^;{}]+)\);", rest)
            if m:
                parts = [p for p in split_top(m.group(3)) if p]
                need(len(parts) == 2, f"{where}: tuple `let` with {len(parts)} components")
                let(m.group(1), parts[0])         # evaluated left to right
                let(m.group(2), parts[1])
                pos += m.end()
                continue
            m = re.match(r"if " + A + "!=" + A + r"\{", rest)
            if m:
                need(m.group(2) in COLLAPSE_NULL, f"{where}: comparison with {m.group(2)!r}")
                blk, end = block_after(rest, m.end() - 1, where)
                need(not rest.startswith("else", end), f"{where}: unexpected `else`")
                saved = nvars[0]
                ins = block(blk, dict(names))
                nvars[0] = saved
                out.append((17, [val(m.group(1)), val(m.group(2)), len(ins)]))
                out.extend(ins)
                pos += end
                continue
            m = re.match(r"if let Some\((\w+)\)=(\w+)\{", rest)
            if m:
                o = m.group(2)
                need(o in names and isinstance(names[o][1], tuple) and names[o][1][0] == "opt", f"{where}: `if let Some` on {o!r}")
                blk, end = block_after(rest, m.end() - 1, where)
                need(not rest.startswith("else", end), f"{where}: unexpected `else`")
                need(m.group(1) not in names, f"{where}: {m.group(1)} bound twice")
                kind = names[o][1][1]
                x = 20 + nvars[0]
                if kind == "vtx":
                    mm = re.fullmatch(r"map\.write_vertex\(t," + A + r",(\w+)\)\?;", blk)
                    need(mm and mm.group(2) == m.group(1), f"{where}: block of `if let Some({m.group(1)})`: {blk[:80]!r}")
                    ins = [(11, [val(mm.group(1)), x])]
                else:
                    mm = re.fullmatch(r"map\.write_attribute\(t," + A + r",(\w+)\)\?;", blk)
                    need(mm and mm.group(2) == m.group(1), f"{where}: block of `if let Some({m.group(1)})`: {blk[:80]!r}")
                    ins = [(13, [kind, val(mm.group(1)), x, kind])]      # the attribute written is the one the TYPE of the value selects
                out.append((12, [names[o][0], len(ins)]))
                out.extend(ins)
                pos += end
                continue
            raise Shape(f"{where}: statement not recognised at {rest[:90]!r}")
        return out

    body = remesh_norm(fn_body(src, fname))
    names = dict(base)
    if ret == "()":
        m = re.fullmatch(r"(.*;|.*\})(?:TransactionClosureResult::)?Ok\(\(\)\)", body)
        need(m, f"{where}: does not end with Ok(())")
        return block(m.group(1), names), None
    m = re.fullmatch(r"(.*;|.*\})Ok\((.*)\)", body)
    need(m, f"{where}: does not end with Ok(…)")
    ins = block(m.group(1), names)
    tail = m.group(2)
    if re.fullmatch(r"\w+", tail):
        need(tail in names and names[tail][1] == "n", f"{where}: result {tail!r}")
        return ins, names[tail][0]
    # the final expression is the identifier selection
    sub = block("let __result=" + tail + ";", names)
    return ins + sub, names["__result"][0]


def collapse_guard(src):
    """`is_collapsible`, a rigid shape; every name and literal that appears is recorded"""
    where = "remeshing/collapse.rs is_collapsible"
    sig = remesh_norm(fn_sig(src, "is_collapsible"))
    need(sig == "<T:CoordsFloat>(t:&mut Transaction,map:&CMap2<T>,e:EdgeIdType,)->TransactionClosureResult<Collapsible,EdgeCollapseError>",
         f"{where}: signature {sig!r}")
    body = remesh_norm(fn_body(src, "is_collapsible"))
    A = r"(\w+)" + REMESH_CAST
    rd = r"map\.read_attribute::<(\w+)>\(t," + A + r"\)\?,"
    pat = (r"if!map\.contains_attribute::<(?P<k0>\w+)>\(\)\{return Ok\(Collapsible::(?P<early>\w+)\);\}"
           r"(?P<pre>(?:let[^;{}]+;)*)"
           r"let\((?P<n1>\w+),(?P<n2>\w+),(?P<n3>\w+)\)=if let\(Some\((?P<s1>\w+)\),Some\((?P<s2>\w+)\),Some\((?P<s3>\w+)\)\)=\(" +
           r"map\.read_attribute::<(?P<k1>\w+)>\(t,(?P<i1>\w+)" + REMESH_CAST + r"\)\?," +
           r"map\.read_attribute::<(?P<k2>\w+)>\(t,(?P<i2>\w+)" + REMESH_CAST + r"\)\?," +
           r"map\.read_attribute::<(?P<k3>\w+)>\(t,(?P<i3>\w+)" + REMESH_CAST + r"\)\?,?\)"
           r"\{\((?P<t1>\w+),(?P<t2>\w+),(?P<t3>\w+)\)\}else\{retry\(\)\?\};"
           r"match AttributeUpdate::merge\((?P<m1>\w+),(?P<m2>\w+)\)\{Ok\((?P<val>\w+)\)=>\{"
           r"if (?P<d1>\w+)\.anchor_dim\(\)==(?P<d2>\w+)\.anchor_dim\(\)\|\|(?P<d3>\w+)\.anchor_dim\(\)==(?P<d4>\w+)\.anchor_dim\(\)\{"
           r"match\((?P<q1>\w+)==(?P<q2>\w+),(?P<q3>\w+)==(?P<q4>\w+)\)\{(?P<arms>[^{}]*)\}\}"
           r"else\{abort\(EdgeCollapseError::NonCollapsibleEdge\(\"(?P<msg1>[^\"]*)\",?\)\)\}\}"
           r"Err\(AttributeError::FailedMerge\(_,_\)\)=>abort\(EdgeCollapseError::NonCollapsibleEdge\(\"(?P<msg2>[^\"]*)\",?\)\),"
           r"Err\(AttributeError::FailedSplit\(_,_\)\|AttributeError::InsufficientData\(_,_\)\)=>\{unreachable!\(\);\},?\}")
    m = re.fullmatch(pat, body)
    need(m, f"{where}: body not of the expected shape: {body[:120]!r}")
    g = m.groupdict()
    need(g["k0"] in REMESH_KIND and g["early"] in COLLAPSE_CHOICE, f"{where}: early return {g['k0']} / {g['early']}")
    # the reads before the anchors: the statement shapes of the helpers, on the single parameter `e`
    names = {"e": (0, "n")}
    pre = []
    nv = 0
    def let(name, e):
        nonlocal nv
        need(name not in names, f"{where}: {name} bound twice")
        mm = re.fullmatch(A, e)
        if mm:
            need(mm.group(1) in names, f"{where}: unknown name {mm.group(1)!r}")
            names[name] = names[mm.group(1)]
            return
        mm = re.fullmatch(r"map\.(beta_transac::<(\d)>|vertex_id_transac)\(t," + A + r"\)\?", e)
        need(mm, f"{where}: expression not recognised: {e!r}")
        need(mm.group(3) in names, f"{where}: unknown name {mm.group(3)!r}")
        a = names[mm.group(3)][0]
        pre.append((1, [int(mm.group(2)), a]) if mm.group(2) is not None else (7, [a]))
        names[name] = (20 + nv, "n")
        nv += 1
    for st in [s for s in g["pre"].split(";") if s]:
        mm = re.fullmatch(r"let\((\w+),(\w+)\)=\((.*)\)", st)
        if mm:
            parts = [p for p in split_top(mm.group(3)) if p]
            need(len(parts) == 2, f"{where}: tuple `let` with {len(parts)} components")
            let(mm.group(1), parts[0])
            let(mm.group(2), parts[1])
            continue
        mm = re.fullmatch(r"let (\w+)=(.*)", st)
        need(mm, f"{where}: statement not recognised: {st!r}")
        let(mm.group(1), mm.group(2))
    reads = []
    for j in "123":
        need(g["k" + j] in REMESH_KIND and g["i" + j] in names, f"{where}: anchor read {j}: {g['k' + j]} of {g['i' + j]}")
        reads.append((REMESH_KIND[g["k" + j]], names[g["i" + j]][0]))
    need(len({g["s1"], g["s2"], g["s3"]}) == 3 and len({g["n1"], g["n2"], g["n3"]}) == 3, f"{where}: pattern names")
    anch = {}
    for j, t in enumerate([g["t1"], g["t2"], g["t3"]]):        # n_j is bound to the value read by read number perm[j]
        need(t in (g["s1"], g["s2"], g["s3"]), f"{where}: tuple component {t!r}")
        anch[g["n" + str(j + 1)]] = [g["s1"], g["s2"], g["s3"]].index(t)
    def an(x):
        need(x in anch, f"{where}: {x!r} is not one of the three anchors")
        return anch[x]
    merge = [an(g["m1"]), an(g["m2"])]
    dims = [[an(g["d1"]), an(g["d2"])], [an(g["d3"]), an(g["d4"])]]
    need(g["q1"] == g["val"] and g["q3"] == g["val"] and g["val"] not in anch, f"{where}: comparisons of the merged value")
    eqs = [an(g["q2"]), an(g["q4"])]
    table = []
    for arm in [a for a in split_top(g["arms"]) if a]:
        mm = re.fullmatch(r"\((true|false),(true|false)\)=>(?:Ok\(Collapsible::(\w+)\)|(unreachable!\(\)))", arm)
        need(mm, f"{where}: arm not recognised: {arm!r}")
        need(mm.group(4) is not None or mm.group(3) in COLLAPSE_CHOICE, f"{where}: unknown choice {mm.group(3)!r}")
        table.append((mm.group(1), mm.group(2), 9 if mm.group(4) is not None else COLLAPSE_CHOICE.index(mm.group(3))))
    need(sorted((a, b) for a, b, _ in table) == sorted((a, b) for a in ("false", "true") for b in ("false", "true")), f"{where}: arms {table}")
    return dict(kind=REMESH_KIND[g["k0"]], early=COLLAPSE_CHOICE.index(g["early"]), pre=pre, reads=reads, merge=merge, dims=dims, eqs=eqs,
                table=table, msgs=[collapse_slug(g["msg1"]), collapse_slug(g["msg2"])])


def collapse_top(src, errs):
    """the top level `collapse_edge`: instructions and the operand returned"""
    where = "remeshing/collapse.rs collapse_edge"
    sig = remesh_norm(fn_sig(src, "collapse_edge"))
    need(sig == "<T:CoordsFloat>(t:&mut Transaction,map:&CMap2<T>,e:EdgeIdType,)->TransactionClosureResult<VertexIdType,EdgeCollapseError>",
         f"{where}: signature {sig!r}")
    body = remesh_norm(fn_body(src, "collapse_edge"))
    names = {"e": (0, "n")}
    for c, v in COLLAPSE_NULL.items():
        names[c] = (v, "n")
    A = r"(\w+)" + REMESH_CAST
    B = r"map\.beta_transac::<(\d)>\(t," + A + r"\)\?"
    AB = r"\{abort\(EdgeCollapseError::(\w+)\)\?;\}"
    out, pos, nv = [], 0, [0]

    def val(tok):
        need(tok in names, f"{where}: unknown name {tok!r}")
        return names[tok][0]

    def err(v):
        need(v in errs, f"{where}: unknown error variant {v}")
        return errs.index(v)

    def bind(name):
        need(name not in names, f"{where}: {name} bound twice")
        names[name] = (20 + nv[0], "n")
        nv[0] += 1

    def let(name, e):
        mm = re.fullmatch(A, e)
        if mm:
            need(name not in names, f"{where}: {name} bound twice")
            names[name] = (val(mm.group(1)), "n")
            return
        mm = re.fullmatch(B, e)
        need(mm, f"{where}: expression not recognised: {e[:90]!r}")
        out.append((1, [int(mm.group(1)), val(mm.group(2))]))
        bind(name)

    m = re.fullmatch(r"(.*;|.*\})Ok\((\w+)\)", body)
    need(m, f"{where}: does not end with Ok(<name>)")
    body, result = m.group(1), m.group(2)
    while pos < len(body):
        rest = body[pos:]
        m = re.match("if " + A + "==" + A + AB, rest)
        if m:
            out.append((0, [val(m.group(1)), val(m.group(2)), err(m.group(3))]))
            pos += m.end()
            continue
        m = re.match("if " + B + "!=" + A + AB, rest)
        if m:
            out.append((24, [int(m.group(1)), val(m.group(2)), val(m.group(3)), err(m.group(4))]))
            pos += m.end()
            continue
        m = re.match("if " + A + "!=" + A + "&&" + B + "!=" + A + AB, rest)
        if m:
            g = m.groups()
            out.append((25, [val(g[0]), val(g[1]), int(g[2]), val(g[3]), val(g[4]), err(g[5])]))
            pos += m.end()
            continue
        m = re.match(r"let\((\w+),(\w+)\)=\(([^;{}]+)\);", rest)
        if m:
            parts = [p for p in split_top(m.group(3)) if p]
            need(len(parts) == 2, f"{where}: tuple `let` with {len(parts)} components")
            let(m.group(1), parts[0])
            let(m.group(2), parts[1])
            pos += m.end()
            continue
        m = re.match(r"let (\w+)=match is_collapsible\(t,map," + A + r"\)\?\{", rest)
        if m:
            arms_txt, end = block_after(rest, m.end() - 1, where)
            need(rest.startswith(";", end), f"{where}: `;` expected after the match")
            arms = {}
            tup = r"\(" + A + "," + A + "," + A + r"\)"
            for arm in [a for a in split_top(arms_txt) if a]:
                mm = re.fullmatch(r"Collapsible::(\w+)=>try_or_coerce!\((\w+)\(t,map," + tup + "," + tup + r",?\),EdgeCollapseError,?\)", arm)
                need(mm, f"{where}: arm not recognised: {arm!r}")
                g = mm.groups()
                need(g[0] in COLLAPSE_CHOICE and g[0] not in arms, f"{where}: arm {g[0]!r}")
                need(g[1] in COLLAPSE_EDGE, f"{where}: unknown callee {g[1]!r}")
                arms[g[0]] = [COLLAPSE_EDGE[g[1]]] + [val(x) for x in g[2:]]
            need(sorted(arms) == sorted(COLLAPSE_CHOICE), f"{where}: arms {sorted(arms)}")
            out.append((26, [val(m.group(2))] + [x for c in COLLAPSE_CHOICE for x in arms[c]]))
            bind(m.group(1))
            pos += end + 1
            continue
        m = re.match(r"if!is_orbit_orientation_consistent\(t,map," + A + r"\)\?" + AB, rest)
        if m:
            out.append((27, [val(m.group(1)), err(m.group(2))]))
            pos += m.end()
            continue
        raise Shape(f"{where}: statement not recognised at {rest[:90]!r}")
    need(result in names, f"{where}: result {result!r}")
    return out, names[result][0]


COLLAPSE_ROUTINES_RS = os.environ.get("GEN_LEAN_ROUTINES_RS", "/repo/honeycomb-kernels/src/utils/routines.rs")


def collapse_orient(src):
    """`is_orbit_orientation_consistent` (utils/routines.rs), a rigid shape: per triangle block [i1, s1, i2, s2, xa, xb, ra, rb, ca, cb, cc]"""
    where = "utils/routines.rs is_orbit_orientation_consistent"
    sig = remesh_norm(fn_sig(src, "is_orbit_orientation_consistent"))
    need(sig == "<T:CoordsFloat>(t:&mut Transaction,map:&CMap2<T>,vid:VertexIdType,)->StmClosureResult<bool>", f"{where}: signature {sig!r}")
    body = remesh_norm(fn_body(src, "is_orbit_orientation_consistent"))

    def blk(p):
        rv = lambda j: (r"let (?P<%sw%d>\w+)=if let Some\((?P<%sp%d>\w+)\)=map\.read_vertex\(t,(?P<%sr%d>\w+)\)\?\{(?P<%st%d>\w+)\}else\{retry\(\)\?\};" % (p, j, p, j, p, j, p, j))
        return (r"let (?P<%sb1>\w+)=map\.beta_transac::<(?P<%si1>\d)>\(t,(?P<%ss1>\w+)\)\?;let (?P<%sb2>\w+)=map\.beta_transac::<(?P<%si2>\d)>\(t,(?P<%ss2>\w+)\)\?;"
                r"let (?P<%sv1>\w+)=map\.vertex_id_transac\(t,(?P<%sxa>\w+)\)\?;let (?P<%sv2>\w+)=map\.vertex_id_transac\(t,(?P<%sxb>\w+)\)\?;" % ((p,) * 10)
                + rv(1) + rv(2) + r"let crossp=Vertex2::cross_product_from_vertices\(&(?P<%sca>\w+),&(?P<%scb>\w+),&(?P<%scc>\w+)\);" % (p, p, p))
    pat = (r"if let Some\((?P<nv>\w+)\)=map\.read_vertex\(t,vid\)\?\{let mut tmp:SmallVec<DartIdType,10>=SmallVec::new\(\);"
           r"for d in map\.orbit_transac\(t,OrbitPolicy::Vertex,vid\)\{tmp\.push\(d\?\);\}"
           r"let ref_sign=\{let d=tmp\[0\];" + blk("r") + r"(?P<rz>if crossp\.is_zero\(\)\{return Ok\(false\);\})?crossp\.signum\(\)\};"
           r"for&d in&tmp\[1\.\.\]\{" + blk("l") + r"if (?P<lz>crossp\.is_zero\(\)\|\|)?ref_sign!=crossp\.signum\(\)\{return Ok\(false\);\}\}"
           r"\}else\{retry\(\)\?;\}Ok\(true\)")
    m = re.fullmatch(pat, body)
    need(m, f"{where}: body not of the expected shape: {body[:100]!r}")
    g = m.groupdict()

    def one(p):
        darts = {"d": 0}
        def idx(tbl, x, what):
            need(x in tbl, f"{where}: {what} {x!r}")
            return tbl[x]
        s1 = idx(darts, g[p + "s1"], "dart")
        need(g[p + "b1"] not in darts, f"{where}: {g[p + 'b1']} bound twice")
        darts[g[p + "b1"]] = 1
        s2 = idx(darts, g[p + "s2"], "dart")
        need(g[p + "b2"] not in darts, f"{where}: {g[p + 'b2']} bound twice")
        darts[g[p + "b2"]] = 2
        xa, xb = idx(darts, g[p + "xa"], "dart"), idx(darts, g[p + "xb"], "dart")
        need(g[p + "v1"] != g[p + "v2"] and g[p + "v1"] not in darts and g[p + "v2"] not in darts, f"{where}: identifier names")
        ids = {g[p + "v1"]: 0, g[p + "v2"]: 1}
        ra, rb = idx(ids, g[p + "r1"], "identifier"), idx(ids, g[p + "r2"], "identifier")
        need(g[p + "p1"] == g[p + "t1"] and g[p + "p2"] == g[p + "t2"], f"{where}: `if let Some(v) = … {{ v }}`")
        need(len({g["nv"], g[p + "w1"], g[p + "w2"]}) == 3, f"{where}: value names")
        vals = {g["nv"]: 0, g[p + "w1"]: 1, g[p + "w2"]: 2}
        return [int(g[p + "i1"]), s1, int(g[p + "i2"]), s2, xa, xb, ra, rb] + [idx(vals, g[p + c], "value") for c in ("ca", "cb", "cc")]
    return one("r"), one("l"), g["rz"] is not None, g["lz"] is not None


def gen_collapse():
    src = strip_comments(open(COLLAPSE_RS).read())
    errs = remesh_enum(src, "EdgeCollapseError")
    m = re.search(r"\benum Collapsible\b", src)
    need(m, "enum Collapsible not found")
    cb, _ = block_after(src, m.end(), "enum Collapsible")
    need([v for v in "".join(cb.split()).split(",") if v] == COLLAPSE_CHOICE, f"enum Collapsible: {cb!r}")
    fns = [("collapse_halfcell_to_midpoint", collapse_fn(src, "collapse_halfcell_to_midpoint", 1, "()", "SewError")),
           ("collapse_halfcell_to_base", collapse_fn(src, "collapse_halfcell_to_base", 1, "()", "SewError")),
           ("collapse_edge_to_midpoint", collapse_fn(src, "collapse_edge_to_midpoint", 2, "VertexIdType", "SewError")),
           ("collapse_edge_to_base", collapse_fn(src, "collapse_edge_to_base", 2, "VertexIdType", "EdgeCollapseError"))]
    gd = collapse_guard(src)
    top, topres = collapse_top(src, errs)
    oref, oloop, orz, olz = collapse_orient(strip_comments(open(COLLAPSE_ROUTINES_RS).read()))
    lst = lambda ins: "[" + ", ".join(f"({op}, [{', '.join(map(str, a))}])" for op, a in ins) + "]"
    out = ["/-\n  GENERATED by /verif/tools/gen_lean.py from /repo/honeycomb-kernels/src/remeshing/collapse.rs — DO NOT EDIT.\n"
           "  Regenerated by tools/check.py before every build of a module that imports it.\n\n"
           "  `collapseErrors`: the variants of `EdgeCollapseError` in declaration order; `collapsible`: those of `Collapsible`.\n"
           "  The helpers as (opcode, operands), opcodes 1, 3, 7, 11, 12, 13 as in Gen/Remesh.lean, and\n"
           "    (15, [a])               map.remove_free_dart_transac(t, a)?\n"
           "    (16, [I, a])            try_or_coerce!(map.unlink::<I>(t, a), SewError)\n"
           "    (17, [a, c, n])         if a != c { the next n instructions }           (c one of the NULL constants)\n"
           "    (20, [h, a, b, c])      collapse_halfcell_to_midpoint (h = 0) / collapse_halfcell_to_base (h = 1) (t, map, (a, b, c)), error propagated\n"
           "    (21, [a])               let x = map.read_vertex(t, a)?                  (binds an Option<vertex>)\n"
           "    (22, [K, a])            let x = map.read_attribute::<K>(t, a)?          (binds an Option<K>)\n"
           "    (23, [a, c, b, a', c', b', z])  let x = if a != c { map.vertex_id_transac(t, b)? } else if a' != c' { map.vertex_id_transac(t, b')? } else { z }\n"
           "  operands: 0, 1, 2 (3, 4, 5) = the components of the first (second) tuple parameter, 10 = NULL_DART_ID, 11 = NULL_EDGE_ID,\n"
           "  12 = NULL_VERTEX_ID, 20 + j = the j-th variable bound on the path taken.  `…Result`: the operand returned in `Ok(…)`.\n"
           "  `is_collapsible` (rigid shape): `guardKind` / `guardEarly`: `if !map.contains_attribute::<K>() { return Ok(Collapsible::<early>) }`;\n"
           "  `guardPre`: the reads before the anchors (operand 0 = e); `guardReads`: the three `read_attribute::<K>(t, id)` as (K, id), all\n"
           "  three evaluated, `retry()` unless all are `Some`; the anchors are numbered 0, 1, 2 in the order read; `guardMerge`: the arguments of\n"
           "  `AttributeUpdate::merge`; `guardDims`: `x.anchor_dim() == y.anchor_dim() || x'.anchor_dim() == y'.anchor_dim()`;\n"
           "  `guardEqs`: `(val == x, val == y)`; `guardTable`: the arms (9 = `unreachable!()`); `guardMsgs`: the message of the `else`\n"
           "  branch and of the `FailedMerge` arm (blanks replaced by `-`).\n"
           "  Props/C15GenB.lean interprets all this and proves it EQUAL to the definitions of Model/Kernels/Collapse.lean.\n-/\n",
           "namespace HC.Gen.Collapse\n"]
    out.append("/-- `enum EdgeCollapseError` -/\ndef collapseErrors : List String := [" + ", ".join(f'"{v}"' for v in errs) + "]\n")
    out.append("/-- `enum Collapsible` -/\ndef collapsible : List String := [" + ", ".join(f'"{v}"' for v in COLLAPSE_CHOICE) + "]\n")
    for f, (ins, res) in fns:
        camel = re.sub(r"_(\w)", lambda mm: mm.group(1).upper(), f)
        out.append(f"/-- `{f}` -/\ndef {camel} : List (Nat × List Nat) := {lst(ins)}\n")
        if res is not None:
            out.append(f"def {camel}Result : Nat := {res}\n")
    out.append(f"/-- `is_collapsible` -/\ndef guardKind : Nat := {gd['kind']}\ndef guardEarly : Nat := {gd['early']}\n"
               f"def guardPre : List (Nat × List Nat) := {lst(gd['pre'])}\n"
               "def guardReads : List (Nat × Nat) := [" + ", ".join(f"({k}, {a})" for k, a in gd["reads"]) + "]\n"
               f"def guardMerge : Nat × Nat := ({gd['merge'][0]}, {gd['merge'][1]})\n"
               "def guardDims : List (Nat × Nat) := [" + ", ".join(f"({a}, {b})" for a, b in gd["dims"]) + "]\n"
               f"def guardEqs : Nat × Nat := ({gd['eqs'][0]}, {gd['eqs'][1]})\n"
               "def guardTable : List (Bool × Bool × Nat) := [" + ", ".join(f"({a}, {b}, {c})" for a, b, c in gd["table"]) + "]\n"
               f"def guardMsgs : String × String := (\"{gd['msgs'][0]}\", \"{gd['msgs'][1]}\")\n")
    out.append("/-- `collapse_edge`: (0, [a, b, v]) if a == b { abort(<variant v>)?; } · (1, [i, a]) as above ·\n"
               "    (24, [i, a, b, v]) if map.beta_transac::<i>(t, a)? != b { abort(v)?; } · (25, [a, c, i, b, d, v]) if a != c && map.beta_transac::<i>(t, b)? != d { abort(v)?; } ·\n"
               "    (26, [x, then per variant Average, Left, Right: f, a1 … a6]) let y = match is_collapsible(t, map, x)? { variant => try_or_coerce!(f(t, map, (a1, a2, a3), (a4, a5, a6)), …) }\n"
               "    with f: 0 = collapse_edge_to_midpoint, 1 = collapse_edge_to_base · (27, [a, v]) if !is_orbit_orientation_consistent(t, map, a)? { abort(v)?; };\n"
               "    operand 0 = e; v indexes `collapseErrors` -/\n"
               f"def collapseEdge : List (Nat × List Nat) := {lst(top)}\n\ndef collapseEdgeResult : Nat := {topres}\n")
    out.append("/-- `is_orbit_orientation_consistent` (honeycomb-kernels/src/utils/routines.rs; rigid shape: read_vertex(vid) else retry, the vertex orbit collected,\n"
               "    the reference triangle `tmp[0]`, the loop over `tmp[1..]`, `Ok(true)`).  A triangle block [i1, s1, i2, s2, xa, xb, ra, rb, ca, cb, cc]:\n"
               "    x1 = beta::<i1>(dart s1), x2 = beta::<i2>(dart s2) (darts: 0 = d, 1 = x1, 2 = x2); vid1 = vertex_id(dart xa), vid2 = vertex_id(dart xb);\n"
               "    v1 = read_vertex(identifier ra) else retry, v2 = read_vertex(identifier rb) else retry (identifiers: 0 = vid1, 1 = vid2);\n"
               "    crossp = cross_product_from_vertices(&value ca, &value cb, &value cc) (values: 0 = new_v, 1 = v1, 2 = v2).\n"
               "    `orientRefZero`: the reference block answers Ok(false) when `crossp.is_zero()`, before `crossp.signum()`;\n"
               "    `orientLoopZero`: the loop test is `crossp.is_zero() || ref_sign != crossp.signum()` (false: only the second disjunct) -/\n"
               f"def orientRef : List Nat := {oref}\ndef orientLoop : List Nat := {oloop}\n"
               f"def orientRefZero : Bool := {str(orz).lower()}\ndef orientLoopZero : Bool := {str(olz).lower()}\n")
    out.append("end HC.Gen.Collapse\n")
    txt = "\n".join(out)
    if not os.path.exists(COLLAPSE_OUT) or open(COLLAPSE_OUT).read() != txt:
        open(COLLAPSE_OUT, "w").write(txt)
    return f"gen_lean: collapse ok ({sum(len(i) for _, (i, _) in fns)} instructions)"


GENERATORS["collapse"] = gen_collapse


# ---------------------------------------------------------------------------------------------
# single-vertex insertion kernel: `is_free_transac` and `insert_vertex_on_edge` of honeycomb-kernels/src/cell_insertion/vertices.rs,
# with the dispatch of the public `CMap2::link::<I>` / `unlink::<I>` (dim2/links/mod.rs) and the bodies of the internal
# `one_link` / `one_unlink` (dim2/links/one.rs), `two_link` / `two_unlink` (dim2/links/two.rs) it calls
# ---------------------------------------------------------------------------------------------

VINS_RS = os.environ.get("GEN_LEAN_VINS_RS", "/repo/honeycomb-kernels/src/cell_insertion/vertices.rs")
LINKS2_MOD_RS = os.environ.get("GEN_LEAN_LINKS2_MOD_RS", "/repo/honeycomb-core/src/cmap/dim2/links/mod.rs")
LINKS2_ONE_RS = os.environ.get("GEN_LEAN_LINKS2_ONE_RS", "/repo/honeycomb-core/src/cmap/dim2/links/one.rs")
LINKS2_TWO_RS = os.environ.get("GEN_LEAN_LINKS2_TWO_RS", "/repo/honeycomb-core/src/cmap/dim2/links/two.rs")
VINS_OUT = os.environ.get("GEN_LEAN_VINS_OUT", os.path.join(VERIF, "lean", "Honeycomb", "Gen", "VertexInsertion.lean"))
VINS_ERRS = {"VertexBound": 0, "UndefinedEdge": 1, "InvalidDarts": 2}
VINS_LINK_FNS = {"one_link": 0, "two_link": 1, "one_unlink": 2, "two_unlink": 3}
VINS_CORES = {"one_link_core": 0, "two_link_core": 1, "three_link_core": 2, "one_unlink_core": 3, "two_unlink_core": 4, "three_unlink_core": 5}


def vins_free(src):
    """`is_free_transac`: the β indices tested `== NULL_DART_ID` on `dart_id`, in order, joined by the short-circuit `&&`"""
    where = "cell_insertion/vertices.rs is_free_transac"
    sig = "".join(fn_sig(src, "is_free_transac").split())
    need(re.fullmatch(r"<T:CoordsFloat>\(cmap:&CMap2<T>,trans:&mutTransaction,dart_id:DartIdType,?\)->StmClosureResult<bool>", sig),
         f"{where}: signature {sig!r}")
    body = "".join(fn_body(src, "is_free_transac").split())
    m = re.fullmatch(r"Ok\((.+)\)", body)
    need(m, f"{where}: body is not a single `Ok(…)`: {body[:90]!r}")
    idx = []
    for c in m.group(1).split("&&"):
        h = re.fullmatch(r"cmap\.beta_transac::<(\d)>\(trans,dart_id\)\?==NULL_DART_ID", c)
        need(h, f"{where}: conjunct not recognised: {c!r}")
        idx.append(int(h.group(1)))
    need(idx, f"{where}: no conjunct")
    return idx


def vins_dispatch(src, fname, params):
    """`CMap2::link::<I>` / `unlink::<I>`: for every arm of `match I`, (I, [internal function, positions of the arguments handed on])"""
    where = f"dim2/links/mod.rs {fname}"
    sig = "".join(fn_sig(src, fname).split())
    got = re.findall(r"(\w+):DartIdType", sig)
    need(got == params and sig.startswith("<constI:u8>(&self,trans:&mutTransaction,"), f"{where}: signature {sig!r}")
    body = "".join(fn_body(src, fname).split())
    m = re.fullmatch(r"assert!\(I<3\);assert_ne!\(I,0\);matchI\{(.+)\}", body)
    need(m, f"{where}: body not recognised: {body[:120]!r}")
    arms = split_top(m.group(1))
    need(arms and arms[-1] == "_=>unreachable!()", f"{where}: the last arm is not `_ => unreachable!()`")
    rows, seen = [], set()
    for a in arms[:-1]:
        h = re.fullmatch(r"(\d+)=>self\.(\w+)\(trans,([\w,]*)\)", a)
        need(h, f"{where}: arm not recognised: {a!r}")
        i = int(h.group(1))
        need(i not in seen, f"{where}: arm {i} twice")
        seen.add(i)
        need(h.group(2) in VINS_LINK_FNS, f"{where}: unknown internal function {h.group(2)}")
        args = [x for x in h.group(3).split(",") if x]
        need(all(x in params for x in args) and len(args) == len(params), f"{where}: arguments {args} of arm {i}")
        rows.append((i, [VINS_LINK_FNS[h.group(2)]] + [params.index(x) for x in args]))
    return rows


def vins_link_body(src, fname, label):
    """`CMap2::one_link` …: (internal function, [core function of components/betas.rs, positions of the arguments handed on])"""
    where = f"dim2/links/{label} {fname}"
    sig = "".join(fn_sig(src, fname).split())
    params = re.findall(r"(\w+):DartIdType", sig)
    need(sig.startswith("(&self,trans:&mutTransaction,") and sig.endswith("->TransactionClosureResult<(),LinkError>")
         and len(params) == (2 if "unlink" not in fname else 1), f"{where}: signature {sig!r}")
    body = "".join(fn_body(src, fname).split())
    h = re.fullmatch(r"self\.betas\.(\w+)\(trans,([\w,]*)\)", body)
    need(h, f"{where}: body is not a single core call: {body[:120]!r}")
    need(h.group(1) in VINS_CORES, f"{where}: unknown core {h.group(1)}")
    args = [x for x in h.group(2).split(",") if x]
    need(all(x in params for x in args) and len(args) == len(params), f"{where}: arguments {args}")
    return (VINS_LINK_FNS[fname], [VINS_CORES[h.group(1)]] + [params.index(x) for x in args])


def vins_instrs(src):
    where = "cell_insertion/vertices.rs insert_vertex_on_edge"
    fname = "insert_vertex_on_edge"
    sig = "".join(fn_sig(src, fname).split())
    need(re.fullmatch(r"<T:CoordsFloat>\(cmap:&CMap2<T>,trans:&mutTransaction,edge_id:EdgeIdType,new_darts:\(DartIdType,DartIdType\),"
                      r"midpoint_vertex:Option<T>,?\)->TransactionClosureResult<\(\),VertexInsertionError>", sig), f"{where}: signature {sig!r}")
    raw = fn_body(src, fname)
    msgs = []

    def lit(m):
        s = m.group(1)
        need(re.fullmatch(r"[A-Za-z0-9 ]+", s), f"{where}: message {s!r} has characters the slug does not cover")
        msgs.append(s.replace(" ", "-"))
        return f'"#{len(msgs) - 1}"'

    body = "".join(re.sub(r'"([^"\\\n]*)"', lit, raw).split())
    need('"' not in re.sub(r'"#\d+"', "", body), f"{where}: string literal not understood")

    OPD = r"([\w.]+)"
    VE = r"VertexInsertionError::"
    ABORT_MSG = r"\{abort\(" + VE + r"InvalidDarts\(\"#(\d+)\",?\)\)\?;\}"
    FREE = r"==NULL_DART_ID\|\|!is_free_transac\(cmap,trans," + OPD + r"\)\?"
    VID = r"cmap\.vertex_id_transac\(trans," + OPD + r"\)\?"
    RDV = r"cmap\.read_vertex\(trans," + OPD + r"\)\?"

    def parse(body, st, top):
        """st = (names, vals, geo, nvars): scoped copies are made for the arms of the final if / else"""
        names, vals, geo = st["names"], st["vals"], st["geo"]

        def arg(tok):
            need(tok in names, f"{where}: unknown name {tok!r}")
            return names[tok]

        def val(tok):
            need(tok in vals, f"{where}: {tok!r} is not a vertex value")
            return vals[tok]

        def bind(name):
            need(name not in vals and name not in geo and not name.startswith("new_darts") and name not in ("edge_id", "NULL_DART_ID"),
                 f"{where}: {name} cannot be rebound")
            names[name] = 20 + st["nvars"]          # `let` shadowing is allowed (base_dart2 is read twice)
            st["nvars"] += 1

        def alias(name, code):
            need(name not in names and name not in vals and name not in geo, f"{where}: {name} bound twice")
            names[name] = code

        def err0(k):
            need(k in ("VertexBound", "UndefinedEdge"), f"{where}: {k} is not a payload-free VertexInsertionError")
            return VINS_ERRS[k]

        out, pos, ended = [], 0, False
        while pos < len(body):
            need(not ended, f"{where}: statements after the end of the block: {body[pos:pos + 80]!r}")
            m = re.compile(r"ifmidpoint_vertex\.is_some_and\(\|t\|\(t>=T::one\(\)\)\|\(t<=T::zero\(\)\)\)\{abort\(" + VE + r"(\w+)\)\?;\}").match(body, pos)
            if m:
                out.append((40, [err0(m.group(1))]))
                pos = m.end()
                continue
            m = re.compile(r"let(\w+)=(\w+)asDartIdType;").match(body, pos)
            if m:
                need(m.group(2) == "edge_id", f"{where}: cast of {m.group(2)}")
                alias(m.group(1), 0)
                pos = m.end()
                continue
            m = re.compile(r"let(\w+)=cmap\.beta_transac::<(\d)>\(trans," + OPD + r"\)\?;").match(body, pos)
            if m:
                out.append((1, [int(m.group(2)), arg(m.group(3))]))
                bind(m.group(1))
                pos = m.end()
                continue
            m = re.compile(r"let(\w+)=" + VID + ";").match(body, pos)
            if m:
                out.append((5, [arg(m.group(2))]))
                bind(m.group(1))
                pos = m.end()
                continue
            m = re.compile(r"let\((\w+),(\w+)\)=\(" + VID + "," + VID + r",?\);").match(body, pos)
            if m:
                a, b = arg(m.group(3)), arg(m.group(4))
                need(m.group(1) != m.group(2), f"{where}: tuple let binds {m.group(1)} twice")
                out += [(5, [a]), (5, [b])]
                bind(m.group(1))
                bind(m.group(2))
                pos = m.end()
                continue
            m = re.compile(r"let(\w+)=new_darts\.([01]);").match(body, pos)
            if m:
                alias(m.group(1), 1 + int(m.group(2)))
                pos = m.end()
                continue
            m = re.compile(r"let\((\w+),(\w+)\)=new_darts;").match(body, pos)
            if m:
                need(m.group(1) != m.group(2), f"{where}: tuple let binds {m.group(1)} twice")
                alias(m.group(1), 1)
                alias(m.group(2), 2)
                pos = m.end()
                continue
            m = re.compile("if" + OPD + FREE + ABORT_MSG).match(body, pos)
            if m:
                need(arg(m.group(1)) == arg(m.group(2)), f"{where}: null test on {m.group(1)}, freeness test on {m.group(2)}")
                out.append((41, [arg(m.group(1)), int(m.group(3))]))
                pos = m.end()
                continue
            m = re.compile("if" + OPD + r"!=NULL_DART_ID&&\(" + OPD + FREE + r"\)" + ABORT_MSG).match(body, pos)
            if m:
                need(arg(m.group(2)) == arg(m.group(3)), f"{where}: null test on {m.group(2)}, freeness test on {m.group(3)}")
                out.append((42, [arg(m.group(1)), arg(m.group(2)), int(m.group(4))]))
                pos = m.end()
                continue
            m = re.compile(r"let\(Some\((\w+)\),Some\((\w+)\)\)=\(" + RDV + "," + RDV + r",?\)else\{abort\(" + VE + r"(\w+)\)\?;?\};").match(body, pos)
            if m:
                out.append((44, [arg(m.group(3)), arg(m.group(4)), err0(m.group(5))]))
                for nm in (m.group(1), m.group(2)):
                    need(nm not in vals and nm not in names and nm not in geo, f"{where}: {nm} bound twice")
                    vals[nm] = len(vals)
                pos = m.end()
                continue
            m = re.compile(r"try_or_coerce!\(cmap\.(link|unlink)::<(\d)>\(trans,([\w.,]+?),?\),VertexInsertionError,?\);").match(body, pos)
            if m:
                args = m.group(3).split(",")
                need(len(args) == (2 if m.group(1) == "link" else 1), f"{where}: arity of {m.group(1)}")
                out.append((46, [0 if m.group(1) == "link" else 1, int(m.group(2)), arg(args[0]), arg(args[1]) if len(args) == 2 else 3]))
                pos = m.end()
                continue
            m = re.compile(r"let(\w+)=(\w+)-(\w+);").match(body, pos)
            if m:
                need(m.group(1) not in names and m.group(1) not in vals and m.group(1) not in geo, f"{where}: {m.group(1)} bound twice")
                geo[m.group(1)] = (val(m.group(2)), val(m.group(3)))
                pos = m.end()
                continue
            m = re.compile(r"cmap\.write_vertex\(trans," + OPD + r",midpoint_vertex\.map_or\(Vertex2::average\(&(\w+),&(\w+)\),\|t\|(\w+)\+(\w+)\*t\),?\)\?;").match(body, pos)
            if m:
                need(m.group(5) in geo, f"{where}: {m.group(5)} is not a difference of two vertex values")
                out.append((47, [arg(m.group(1)), val(m.group(2)), val(m.group(3)), val(m.group(4))] + list(geo[m.group(5)])))
                pos = m.end()
                continue
            m = re.compile("if" + OPD + r"!=NULL_DART_ID\{").match(body, pos)
            if m:
                inner, end = block_after(body, m.end() - 1, where)
                need(not body.startswith("else", end), f"{where}: unexpected `else` after a guarded block")
                sub = parse(inner, st, False)
                need(sub and all(op == 46 for op, _ in sub), f"{where}: a guarded block may only contain link / unlink calls")
                out.append((45, [arg(m.group(1)), len(sub)]))
                out += sub
                pos = end
                continue
            m = re.compile("if" + OPD + r"==NULL_DART_ID\{").match(body, pos)
            if m:
                need(top, f"{where}: nested if / else")
                th, end = block_after(body, m.end() - 1, where)
                need(body.startswith("else{", end), f"{where}: `if … == NULL_DART_ID` without else")
                el, end2 = block_after(body, end + 4, where)
                need(end2 == len(body), f"{where}: statements after the final if / else")
                arms = []
                for blk in (th, el):
                    need(blk.endswith("Ok(())"), f"{where}: an arm does not end with Ok(())")
                    sub_st = {"names": dict(names), "vals": dict(vals), "geo": dict(geo), "nvars": st["nvars"]}
                    arms.append(parse(blk, sub_st, False))
                out.append((43, [arg(m.group(1)), len(arms[0]), len(arms[1])]))
                out += arms[0] + arms[1]
                pos = end2
                ended = True
                continue
            m = re.compile(r"Ok\(\(\)\)$").match(body, pos)
            if m:
                need(not top, f"{where}: Ok(()) at top level")
                pos = m.end()
                ended = True
                continue
            raise Shape(f"{where}: statement not recognised at {body[pos:pos + 100]!r}")
        if top:
            need(ended, f"{where}: the function does not end with the if / else on the second read of beta 2")
        return out

    st = {"names": {"edge_id": 0, "new_darts.0": 1, "new_darts.1": 2, "NULL_DART_ID": 3}, "vals": {}, "geo": {}, "nvars": 0}
    ins = parse(body, st, True)
    used = sorted({a[-1] for op, a in ins if op in (41, 42)})
    need(used == list(range(len(msgs))), f"{where}: string literals {msgs} / used {used}")
    return ins, msgs


def gen_vins():
    ksrc = strip_comments(open(VINS_RS).read())
    msrc = strip_comments(open(LINKS2_MOD_RS).read())
    osrc = strip_comments(open(LINKS2_ONE_RS).read())
    tsrc = strip_comments(open(LINKS2_TWO_RS).read())
    free = vins_free(ksrc)
    ins, msgs = vins_instrs(ksrc)
    link_arms = vins_dispatch(msrc, "link", ["ld", "rd"])
    unlink_arms = vins_dispatch(msrc, "unlink", ["ld"])
    bodies = [vins_link_body(osrc, "one_link", "one.rs"), vins_link_body(tsrc, "two_link", "two.rs"),
              vins_link_body(osrc, "one_unlink", "one.rs"), vins_link_body(tsrc, "two_unlink", "two.rs")]

    def tab(rows):
        return "[" + ", ".join(f"({op}, [{', '.join(map(str, a))}])" for op, a in rows) + "]"

    out = ["/-\n  GENERATED by /verif/tools/gen_lean.py from\n  /repo/honeycomb-kernels/src/cell_insertion/vertices.rs and\n"
           "  /repo/honeycomb-core/src/cmap/dim2/links/mod.rs, one.rs, two.rs — DO NOT EDIT.\n"
           "  Regenerated by tools/check.py before every build of a module that imports it.\n\n"
           "  `isFreeTransac`: `is_free_transac(cmap, trans, dart_id)` = the β indices i of the conjuncts\n"
           "    `cmap.beta_transac::<i>(trans, dart_id)? == NULL_DART_ID`, in source order, joined by the short-circuit `&&`.\n"
           "  `link2Arms` / `unlink2Arms`: the arms of `match I` in `CMap2::link::<I>(trans, ld, rd)` / `unlink::<I>(trans, ld)`:\n"
           "    (I, [f, p…])  `I => self.f(trans, args)`; f: 0 = one_link, 1 = two_link, 2 = one_unlink, 3 = two_unlink; p… = for every argument\n"
           "    handed on, its position among the caller's dart parameters (0 = ld, 1 = rd).\n"
           "  `links2Bodies`: (f, [c, p…])  the body of the internal function f is the single call `self.betas.c(trans, args)`; c: 0 = one_link_core,\n"
           "    1 = two_link_core, 2 = three_link_core, 3 = one_unlink_core, 4 = two_unlink_core, 5 = three_unlink_core; p… as above.\n"
           "  `vinsMsgs`: the `&'static str` payloads of `InvalidDarts`, in source order, blanks replaced by `-` (as the drivers print them).\n"
           "  `insertVertexOnEdge`: `insert_vertex_on_edge(cmap, trans, edge_id, new_darts, midpoint_vertex)` as (opcode, operands):\n"
           "    (40, [e])               if midpoint_vertex.is_some_and(|t| (t >= T::one()) | (t <= T::zero())) { abort(e)?; }\n"
           "    (1, [i, a])             let x = cmap.beta_transac::<i>(trans, a)?                  (binds the next variable)\n"
           "    (5, [a])                let x = cmap.vertex_id_transac(trans, a)?                  (binds; a tuple `let` is two of these, in order)\n"
           "    (41, [d, k])            if d == NULL_DART_ID || !is_free_transac(cmap, trans, d)? { abort(InvalidDarts(msg k))?; }\n"
           "    (42, [g, d, k])         if g != NULL_DART_ID && (d == NULL_DART_ID || !is_free_transac(cmap, trans, d)?) { abort(InvalidDarts(msg k))?; }\n"
           "    (43, [a, n, m])         if a == NULL_DART_ID { the next n instructions } else { the m instructions after them }   (ends the function)\n"
           "    (44, [a, b, e])         let (Some(v), Some(w)) = (cmap.read_vertex(trans, a)?, cmap.read_vertex(trans, b)?) else { abort(e)? }\n"
           "                            (binds the next two VALUE variables)\n"
           "    (45, [a, n])            if a != NULL_DART_ID { the next n instructions }\n"
           "    (46, [k, I, a, b])      try_or_coerce!(cmap.link::<I>(trans, a, b), VertexInsertionError) (k = 0) / cmap.unlink::<I>(trans, a) (k = 1, b = 3)\n"
           "    (47, [x, p, q, r, s, u]) cmap.write_vertex(trans, x, midpoint_vertex.map_or(Vertex2::average(&p, &q), |t| r + seg * t))?\n"
           "                            where `let seg = s - u;`   (p … u: value variables, 0 = the first bound)\n"
           "  operands: 0 = edge_id (`as DartIdType`), 1 = new_darts.0, 2 = new_darts.1, 3 = NULL_DART_ID, 20 + j = the j-th variable bound on the\n"
           "  path taken (a shadowing `let` binds a new one); plain `let x = y` / `let (x, y) = new_darts` are aliases and leave no instruction.\n"
           "  e: 0 = VertexBound, 1 = UndefinedEdge.  Props/C14Gen.lean interprets these tables and proves them EQUAL to `isFreeTx`, the link\n"
           "  cores and `insertVertexOnEdge` of Model/Kernels/VertexInsertion.lean.\n-/\n",
           "namespace HC.Gen\n",
           "/-- `is_free_transac` -/\ndef isFreeTransac : List Nat := [" + ", ".join(map(str, free)) + "]\n",
           "/-- `CMap2::link::<I>` -/\ndef link2Arms : List (Nat × List Nat) := " + tab(link_arms) + "\n",
           "/-- `CMap2::unlink::<I>` -/\ndef unlink2Arms : List (Nat × List Nat) := " + tab(unlink_arms) + "\n",
           "/-- `CMap2::one_link`, `two_link`, `one_unlink`, `two_unlink` -/\ndef links2Bodies : List (Nat × List Nat) := " + tab(bodies) + "\n",
           "/-- payloads of `InvalidDarts` -/\ndef vinsMsgs : List String := [" + ", ".join(f'"{s}"' for s in msgs) + "]\n",
           "/-- `insert_vertex_on_edge` -/\ndef insertVertexOnEdge : List (Nat × List Nat) := " + tab(ins) + "\n",
           "end HC.Gen\n"]
    txt = "\n".join(out)
    if not os.path.exists(VINS_OUT) or open(VINS_OUT).read() != txt:
        open(VINS_OUT, "w").write(txt)
    return f"gen_lean: vins ok ({len(ins)} instructions, {len(link_arms) + len(unlink_arms)} dispatch arms, {len(bodies)} link bodies)"


GENERATORS["vins"] = gen_vins


# ---------------------------------------------------------------------------------------------
# multi-vertex insertion kernel: `insert_vertices_on_edge` of honeycomb-kernels/src/cell_insertion/vertices.rs (validation prefix, reads,
# editing part; the three `for` loops as separate BODY lists).  Tied in Props/C14GenN.lean.
# ---------------------------------------------------------------------------------------------

VINSN_OUT = os.environ.get("GEN_LEAN_VINSN_OUT", os.path.join(VERIF, "lean", "Honeycomb", "Gen", "VertexInsertionN.lean"))


def vinsn_instrs(src):
    """returns (main instruction list, {loop name: body list}, messages)"""
    where = "cell_insertion/vertices.rs insert_vertices_on_edge"
    fname = "insert_vertices_on_edge"
    sig = "".join(fn_sig(src, fname).split())
    need(re.fullmatch(r"<T:CoordsFloat>\(cmap:&CMap2<T>,trans:&mutTransaction,edge_id:EdgeIdType,new_darts:&\[DartIdType\],"
                      r"midpoint_vertices:&\[T\],?\)->TransactionClosureResult<\(\),VertexInsertionError>", sig), f"{where}: signature {sig!r}")
    raw = fn_body(src, fname)
    msgs = []

    def lit(m):
        s = m.group(1)
        need(re.fullmatch(r"[A-Za-z0-9 ]+", s), f"{where}: message {s!r} has characters the slug does not cover")
        msgs.append(s.replace(" ", "-"))
        return f'"#{len(msgs) - 1}"'

    body = "".join(re.sub(r'"([^"\\\n]*)"', lit, raw).split())
    need('"' not in re.sub(r'"#\d+"', "", body), f"{where}: string literal not understood")

    OPD = r"([\w.*]+)"
    VE = r"VertexInsertionError::"
    ABORT_MSG = r"\{abort\(" + VE + r"InvalidDarts\(\"#(\d+)\",?\)\)\?;\}"
    ANYNULL = r"(\w+)\.iter\(\)\.any\(\|(\w+)\|\*(\w+)==NULL_DART_ID\)"
    VID = r"cmap\.vertex_id_transac\(trans," + OPD + r"\)\?"
    RDV = r"cmap\.read_vertex\(trans," + OPD + r"\)\?"
    LINK = r"try_or_coerce!\(cmap\.(link|unlink)::<(\d)>\(trans,([\w.,*]+?),?\),VertexInsertionError,?\);"
    loops = {}

    def err0(k):
        need(k in ("VertexBound", "UndefinedEdge"), f"{where}: {k} is not a payload-free VertexInsertionError")
        return VINS_ERRS[k]

    def mult(tok):
        """`n_t` / `2*n_t` / `n_t*2` -> the factor"""
        if tok == "n_t":
            return 1
        m = re.fullmatch(r"(\d+)\*n_t", tok) or re.fullmatch(r"n_t\*(\d+)", tok)
        need(m, f"{where}: amount expression {tok!r}")
        return int(m.group(1))

    def link_instr(m, arg):
        args = m.group(3).split(",")
        need(len(args) == (2 if m.group(1) == "link" else 1), f"{where}: arity of {m.group(1)}")
        return (46, [0 if m.group(1) == "link" else 1, int(m.group(2)), arg(args[0]), arg(args[1]) if len(args) == 2 else 3])

    def loop_body(text, names, vals, geo, tvar, has_prev, label):
        """body of a `for`: link calls on prev_d / the loop variables, `prev_d = x;`, `let x = vertex_id_transac(..)`, `write_vertex(x, r + seg * t)`"""
        names = dict(names)
        nv = 0

        def arg(tok):
            need(tok in names, f"{where}: {label}: unknown name {tok!r}")
            return names[tok]

        out, pos = [], 0
        while pos < len(text):
            m = re.compile(LINK).match(text, pos)
            if m:
                out.append(link_instr(m, arg))
                pos = m.end()
                continue
            m = re.compile(r"prev_d=" + OPD + ";").match(text, pos)
            if m:
                need(has_prev, f"{where}: {label}: assignment to prev_d, which is not a `let mut` in scope")
                out.append((48, [arg(m.group(1))]))
                pos = m.end()
                continue
            m = re.compile(r"let(\w+)=" + VID + ";").match(text, pos)
            if m:
                need(m.group(1) not in names and m.group(1) not in vals and m.group(1) not in geo, f"{where}: {label}: {m.group(1)} shadows")
                out.append((5, [arg(m.group(2))]))
                names[m.group(1)] = 20 + nv
                nv += 1
                pos = m.end()
                continue
            m = re.compile(r"cmap\.write_vertex\(trans," + OPD + r",(\w+)\+(\w+)\*(\w+),?\)\?;").match(text, pos)
            if m:
                need(tvar is not None and m.group(4) == tvar, f"{where}: {label}: the factor {m.group(4)} is not the loop's position variable")
                need(m.group(2) in vals, f"{where}: {label}: {m.group(2)} is not a vertex value")
                need(m.group(3) in geo, f"{where}: {label}: {m.group(3)} is not a difference of two vertex values")
                out.append((49, [arg(m.group(1)), vals[m.group(2)]] + list(geo[m.group(3)])))
                pos = m.end()
                continue
            raise Shape(f"{where}: {label}: statement not recognised at {text[pos:pos + 100]!r}")
        need(out, f"{where}: {label}: empty loop body")
        need(label not in loops, f"{where}: loop {label} twice")
        loops[label] = out

    def parse(body, st, top):
        names, vals, geo, lists = st["names"], st["vals"], st["geo"], st["lists"]

        def arg(tok):
            need(tok in names, f"{where}: unknown name {tok!r}")
            return names[tok]

        def lst(tok):
            need(tok in lists, f"{where}: {tok!r} is not a dart slice")
            return lists[tok]

        def fresh(name):
            need(name not in vals and name not in geo and name not in lists and name not in ("edge_id", "NULL_DART_ID", "new_darts", "midpoint_vertices",
                 "n_t", "n_d", "prev_d"), f"{where}: {name} cannot be rebound")

        def bind(name):
            fresh(name)
            names[name] = 20 + st["nvars"]
            st["nvars"] += 1

        def loop_names(pats):
            """pattern `&x` -> uses `x`; pattern `x` (a reference) -> uses `*x`"""
            d = {k: v for k, v in names.items()}
            for p, code in pats:
                nm = p.lstrip("&")
                need(re.fullmatch(r"\w+", nm) and nm not in names and nm not in vals and nm not in geo and nm not in lists, f"{where}: loop variable {p!r}")
                d[nm if p.startswith("&") else "*" + nm] = code
            return d

        out, pos, ended = [], 0, False
        while pos < len(body):
            need(not ended, f"{where}: statements after the end of the block: {body[pos:pos + 80]!r}")
            m = re.compile(r"letn_t=midpoint_vertices\.len\(\);letn_d=new_darts\.len\(\);ifn_d!=([\w*]+)\{abort\(" + VE + r"WrongAmountDarts\(([\w*]+),n_d\)\)\?;\}").match(body, pos)
            if m:
                need(top and not out, f"{where}: the amount check is not the first statement")
                out.append((60, [mult(m.group(1)), mult(m.group(2))]))
                pos = m.end()
                continue
            m = re.compile(r"for(\w+)innew_darts\{if!is_free_transac\(cmap,trans,\*(\w+)\)\?" + ABORT_MSG + r"\}").match(body, pos)
            if m:
                need(m.group(1) == m.group(2), f"{where}: the freeness loop tests {m.group(2)}, iterates {m.group(1)}")
                out.append((61, [int(m.group(3))]))
                pos = m.end()
                continue
            m = re.compile(r"let(\w+)=&new_darts\[(\.\.n_t|n_t\.\.)\];").match(body, pos)
            if m:
                fresh(m.group(1))
                need(m.group(1) not in names, f"{where}: {m.group(1)} bound twice")
                lists[m.group(1)] = len(lists)
                out.append((62, [0 if m.group(2) == "..n_t" else 1]))
                pos = m.end()
                continue
            m = re.compile(r"let(\w+)=(\w+)asDartIdType;").match(body, pos)
            if m:
                need(m.group(2) == "edge_id" and m.group(1) not in names, f"{where}: cast of {m.group(2)}")
                fresh(m.group(1))
                names[m.group(1)] = 0
                pos = m.end()
                continue
            m = re.compile(r"let(\w+)=cmap\.beta_transac::<(\d)>\(trans," + OPD + r"\)\?;").match(body, pos)
            if m:
                out.append((1, [int(m.group(2)), arg(m.group(3))]))
                bind(m.group(1))
                pos = m.end()
                continue
            m = re.compile("if" + ANYNULL + ABORT_MSG).match(body, pos)
            if m:
                need(m.group(2) == m.group(3), f"{where}: closure tests {m.group(3)}, binds {m.group(2)}")
                out.append((63, [lst(m.group(1)), int(m.group(4))]))
                pos = m.end()
                continue
            m = re.compile(r"if(\w+)!=NULL_DART_ID&&" + ANYNULL + ABORT_MSG).match(body, pos)
            if m:
                need(m.group(3) == m.group(4), f"{where}: closure tests {m.group(4)}, binds {m.group(3)}")
                out.append((64, [arg(m.group(1)), lst(m.group(2)), int(m.group(5))]))
                pos = m.end()
                continue
            m = re.compile(r"ifmidpoint_vertices\.iter\(\)\.any\(\|t\|\(\*t>=T::one\(\)\)\|\(\*t<=T::zero\(\)\)\)\{abort\(" + VE + r"(\w+)\)\?;\}").match(body, pos)
            if m:
                out.append((65, [err0(m.group(1))]))
                pos = m.end()
                continue
            m = re.compile(r"let\((\w+),(\w+)\)=\(" + VID + r",cmap\.vertex_id_transac\(trans,if(\w+)!=NULL_DART_ID\{(\w+)\}elseif(\w+)!=NULL_DART_ID\{(\w+)\}"
                           r"else\{abort\(" + VE + r"(\w+)\)\?\},?\)\?,?\);").match(body, pos)
            if m:
                need(m.group(1) != m.group(2), f"{where}: tuple let binds {m.group(1)} twice")
                need(m.group(4) == m.group(5) and m.group(6) == m.group(7), f"{where}: the second end point: tested / returned darts differ")
                out += [(5, [arg(m.group(3))]), (66, [arg(m.group(4)), arg(m.group(6)), err0(m.group(8))])]
                bind(m.group(1))
                tgt = 20 + st["nvars"]
                st["nvars"] += 1
                out.append((5, [tgt]))
                bind(m.group(2))
                pos = m.end()
                continue
            m = re.compile(r"let\(Some\((\w+)\),Some\((\w+)\)\)=\(" + RDV + "," + RDV + r",?\)else\{abort\(" + VE + r"(\w+)\)\?;?\};").match(body, pos)
            if m:
                out.append((44, [arg(m.group(3)), arg(m.group(4)), err0(m.group(5))]))
                for nm in (m.group(1), m.group(2)):
                    need(nm not in vals and nm not in names and nm not in geo and nm not in lists, f"{where}: {nm} bound twice")
                    vals[nm] = len(vals)
                pos = m.end()
                continue
            m = re.compile(r"let(\w+)=(\w+)-(\w+);").match(body, pos)
            if m:
                need(m.group(1) not in names and m.group(1) not in vals and m.group(1) not in geo and m.group(1) not in lists, f"{where}: {m.group(1)} bound twice")
                need(m.group(2) in vals and m.group(3) in vals, f"{where}: {m.group(2)} - {m.group(3)}: not vertex values")
                geo[m.group(1)] = (vals[m.group(2)], vals[m.group(3)])
                pos = m.end()
                continue
            m = re.compile(LINK).match(body, pos)
            if m:
                out.append(link_instr(m, arg))
                pos = m.end()
                continue
            m = re.compile(r"letmutprev_d=(\w+);").match(body, pos)
            if m:
                out.append((50, [arg(m.group(1))]))
                names["prev_d"] = 1
                pos = m.end()
                continue
            m = re.compile(r"for&(\w+)in(\w+)\{").match(body, pos)
            if m:
                inner, end = block_after(body, m.end() - 1, where)
                need("prev_d" in names, f"{where}: first-side loop without `let mut prev_d`")
                loop_body(inner, loop_names([("&" + m.group(1), 2)]), vals, geo, None, True, "chainFirst")
                out.append((51, [lst(m.group(2))]))
                pos = end
                continue
            m = re.compile(r"for\((&?\w+),(&?\w+)\)in(\w+)\.iter\(\)\.rev\(\)\.zip\((\w+)\.iter\(\)\)\{").match(body, pos)
            if m:
                inner, end = block_after(body, m.end() - 1, where)
                need("prev_d" in names, f"{where}: second-side loop without `let mut prev_d`")
                need(m.group(1).lstrip("&") != m.group(2).lstrip("&"), f"{where}: loop binds {m.group(1)} twice")
                loop_body(inner, loop_names([(m.group(1), 2), (m.group(2), 4)]), vals, geo, None, True, "chainSecond")
                out.append((52, [lst(m.group(3)), lst(m.group(4))]))
                pos = end
                continue
            m = re.compile(r"for\(&(\w+),(&?\w+)\)inmidpoint_vertices\.iter\(\)\.zip\((\w+)\.iter\(\)\)\{").match(body, pos)
            if m:
                inner, end = block_after(body, m.end() - 1, where)
                need(m.group(1) != m.group(2).lstrip("&") and m.group(1) not in names and m.group(1) not in vals and m.group(1) not in geo,
                     f"{where}: placement loop variable {m.group(1)}")
                loop_body(inner, loop_names([(m.group(2), 2)]), vals, geo, m.group(1), "prev_d" in names, "placeVertices")
                out.append((53, [lst(m.group(3))]))
                pos = end
                continue
            m = re.compile("if" + r"(\w+)" + r"!=NULL_DART_ID\{").match(body, pos)
            if m:
                inner, end = block_after(body, m.end() - 1, where)
                need(not body.startswith("else", end), f"{where}: unexpected `else` after a guarded block")
                sub_st = {"names": dict(names), "vals": vals, "geo": geo, "lists": lists, "nvars": st["nvars"]}
                sub = parse(inner, sub_st, False)
                need(sub and all(op in (1, 45, 46, 50, 52) for op, _ in sub), f"{where}: statement kind not allowed in a guarded block")
                out.append((45, [arg(m.group(1)), len(sub)]))
                out += sub
                pos = end
                continue
            m = re.compile(r"Ok\(\(\)\)$").match(body, pos)
            if m:
                need(top, f"{where}: Ok(()) inside a block")
                pos = m.end()
                ended = True
                continue
            raise Shape(f"{where}: statement not recognised at {body[pos:pos + 100]!r}")
        if top:
            need(ended, f"{where}: the function does not end with Ok(())")
        return out

    st = {"names": {"edge_id": 0, "NULL_DART_ID": 3}, "vals": {}, "geo": {}, "lists": {"new_darts": 0}, "nvars": 0}
    ins = parse(body, st, True)
    used = sorted(a[-1] for op, a in ins if op in (61, 63, 64))
    need(used == list(range(len(msgs))), f"{where}: string literals {msgs} / used {used}")
    need(sorted(loops) == ["chainFirst", "chainSecond", "placeVertices"], f"{where}: loops found: {sorted(loops)}")
    need(sum(1 for op, _ in ins if op in (51, 52, 53)) == 3, f"{where}: a loop shape occurs twice")
    return ins, loops, msgs


def gen_vinsn():
    ksrc = strip_comments(open(VINS_RS).read())
    ins, loops, msgs = vinsn_instrs(ksrc)

    def tab(rows):
        return "[" + ", ".join(f"({op}, [{', '.join(map(str, a))}])" for op, a in rows) + "]"

    out = ["/-\n  GENERATED by /verif/tools/gen_lean.py (generator `vinsn`) from\n  /repo/honeycomb-kernels/src/cell_insertion/vertices.rs — DO NOT EDIT.\n\n"
           "  `vinsnMsgs`: the `&'static str` payloads of `InvalidDarts` in `insert_vertices_on_edge`, in source order, blanks replaced by `-`.\n"
           "  `insertVerticesOnEdge`: `insert_vertices_on_edge(cmap, trans, edge_id, new_darts, midpoint_vertices)` as (opcode, operands):\n"
           "    (60, [c1, c2])          let n_t = midpoint_vertices.len(); let n_d = new_darts.len();\n"
           "                            if n_d != c1 * n_t { abort(WrongAmountDarts(c2 * n_t, n_d))?; }\n"
           "    (61, [k])               for d in new_darts { if !is_free_transac(cmap, trans, *d)? { abort(InvalidDarts(msg k))?; } }\n"
           "    (62, [h])               let L = &new_darts[..n_t] (h = 0) / &new_darts[n_t..] (h = 1)      (binds the next SLICE variable; 0 = new_darts)\n"
           "    (1, [i, a])             let x = cmap.beta_transac::<i>(trans, a)?                  (binds the next variable)\n"
           "    (63, [L, k])            if L.iter().any(|d| *d == NULL_DART_ID) { abort(InvalidDarts(msg k))?; }\n"
           "    (64, [g, L, k])         if g != NULL_DART_ID && L.iter().any(|d| *d == NULL_DART_ID) { abort(InvalidDarts(msg k))?; }\n"
           "    (65, [e])               if midpoint_vertices.iter().any(|t| (*t >= T::one()) | (*t <= T::zero())) { abort(e)?; }\n"
           "    (5, [a])                cmap.vertex_id_transac(trans, a)?                          (binds)\n"
           "    (66, [a, b, e])         if a != NULL_DART_ID { a } else if b != NULL_DART_ID { b } else { abort(e)? }   (binds; the argument of the next (5))\n"
           "    (44, [a, b, e])         let (Some(v), Some(w)) = (cmap.read_vertex(trans, a)?, cmap.read_vertex(trans, b)?) else { abort(e)? }\n"
           "                            (binds the next two VALUE variables)\n"
           "    (45, [a, n])            if a != NULL_DART_ID { the next n instructions }           (variables bound inside do not escape)\n"
           "    (46, [k, I, a, b])      try_or_coerce!(cmap.link::<I>(trans, a, b), VertexInsertionError) (k = 0) / cmap.unlink::<I>(trans, a) (k = 1, b = 3)\n"
           "    (50, [a])               let mut prev_d = a;\n"
           "    (51, [L])               for &new_d in L { chainFirstBody }\n"
           "    (52, [L, M])            for (d, new_d) in L.iter().rev().zip(M.iter()) { chainSecondBody }\n"
           "    (53, [L])               for (&t, &new_d) in midpoint_vertices.iter().zip(L.iter()) { placeVerticesBody }\n"
           "  loop bodies, additionally:\n"
           "    (48, [a])               prev_d = a;\n"
           "    (49, [x, r, s, u])      cmap.write_vertex(trans, x, r + seg * t)?   where `let seg = s - u;`, t = the loop's position (r, s, u: value variables)\n"
           "  operands: 0 = edge_id (`as DartIdType`), 1 = prev_d, 2 = the (first) dart variable of the loop, 3 = NULL_DART_ID, 4 = the second dart variable\n"
           "  of the loop, 20 + j = the j-th variable bound on the path taken (in a loop body: bound in this iteration).  A loop pattern `&x` is used as\n"
           "  `x`, a pattern `x` as `*x` (anything else is refused).  e: 0 = VertexBound, 1 = UndefinedEdge.\n"
           "  Props/C14GenN.lean interprets these tables (calls resolved through the translated dispatch of Gen/VertexInsertion.lean) and proves them\n"
           "  EQUAL to `chainFirst`, `placeVertices`, `chainSecond`, `insertVerticesOnEdge` of Model/Kernels/VertexInsertion.lean.\n-/\n",
           "namespace HC.Gen\n",
           "/-- payloads of `InvalidDarts` in `insert_vertices_on_edge` -/\ndef vinsnMsgs : List String := [" + ", ".join(f'"{s}"' for s in msgs) + "]\n",
           "/-- body of `for &new_d in darts_fh` -/\ndef chainFirstBody : List (Nat × List Nat) := " + tab(loops["chainFirst"]) + "\n",
           "/-- body of `for (d, new_d) in darts_fh.iter().rev().zip(darts_sh.iter())` -/\ndef chainSecondBody : List (Nat × List Nat) := " + tab(loops["chainSecond"]) + "\n",
           "/-- body of `for (&t, &new_d) in midpoint_vertices.iter().zip(darts_fh.iter())` -/\ndef placeVerticesBody : List (Nat × List Nat) := " + tab(loops["placeVertices"]) + "\n",
           "/-- `insert_vertices_on_edge` -/\ndef insertVerticesOnEdge : List (Nat × List Nat) := " + tab(ins) + "\n",
           "end HC.Gen\n"]
    txt = "\n".join(out)
    if not os.path.exists(VINSN_OUT) or open(VINSN_OUT).read() != txt:
        open(VINSN_OUT, "w").write(txt)
    return f"gen_lean: vinsn ok ({len(ins)} instructions, loop bodies {', '.join(f'{k} {len(v)}' for k, v in sorted(loops.items()))})"


GENERATORS["vinsn"] = gen_vinsn


def run(names):
    """returns (ok, log)"""
    logs, ok = [], True
    if "pre" in names and "pre" not in GENERATORS:
        import gen_pre                      # tools/gen_pre.py: grisubal pre-processing (detect_overlaps, grid sizing) -> Gen/PreProc.lean
        GENERATORS["pre"] = gen_pre.gen_pre
    for n in names:
        g = GENERATORS.get(n)
        if g is None:
            ok = False
            logs.append(f"gen_lean: unknown generator {n!r}")
            continue
        try:
            logs.append(g())
        except Shape as e:
            ok = False
            logs.append(f"gen_lean[{n}]: SOURCE SHAPE NOT RECOGNISED: {e}")
        except (OSError, ValueError) as e:
            ok = False
            logs.append(f"gen_lean[{n}]: {type(e).__name__}: {e}")
    return ok, "\n".join(logs)


if __name__ == "__main__":
    ok, log = run(sys.argv[1:] or ["grid"])
    print(log)
    sys.exit(0 if ok else 1)
