"""cmap text format helpers shared by C09 and C10: a third, independent reading of the format
(Python) used to generate texts, to predict what a text means and to classify its defects.

A text is a list of lines, a line a list of tokens.  `loadtext_line` renders it for the protocol
(`|` = newline).  Coordinates are exact dyadic rationals written `p/q` (the implementation driver
rewrites them to the shortest decimal before the real loader sees the text)."""
import re
from fractions import Fraction

VERSION = "0.8.1"
U32 = 2 ** 32
USIZE = 2 ** 64


def fr_tok(fr):
    fr = Fraction(fr)
    return str(fr.numerator) if fr.denominator == 1 else f"{fr.numerator}/{fr.denominator}"


# ---------------------------------------------------------------------------------------------
# maps and their serialization
# ---------------------------------------------------------------------------------------------

def random_wf_map(rng, n, p1=0.6, p2=0.7, pu=0.3):
    """random well-formed 2-map with darts 1..n: (b0, b1, b2, u) lists of length n+1"""
    darts = list(range(1, n + 1))
    b0, b1, b2, u = [0] * (n + 1), [0] * (n + 1), [0] * (n + 1), [0] * (n + 1)
    targets = darts[:]
    rng.shuffle(targets)
    for d in darts:
        if rng.random() < p1:
            t = targets.pop()
            b1[d] = t
            b0[t] = d
    pool = darts[:]
    rng.shuffle(pool)
    while len(pool) >= 2 and rng.random() < p2:
        a, b = pool.pop(), pool.pop()
        b2[a], b2[b] = b, a
    for d in darts:
        if b0[d] == 0 and b1[d] == 0 and b2[d] == 0 and rng.random() < pu:
            u[d] = 1
    return b0, b1, b2, u


def chain_map(n, kind):
    """structured large maps: 'chain' (open β1 path), 'cycle' (closed β1 face), 'pairs' (β2 pairs +
    β1 pairs), 'free' (all isolated)"""
    b0, b1, b2, u = [0] * (n + 1), [0] * (n + 1), [0] * (n + 1), [0] * (n + 1)
    if kind in ("chain", "cycle"):
        for d in range(1, n):
            b1[d] = d + 1
            b0[d + 1] = d
        if kind == "cycle" and n >= 1:
            b1[n] = 1
            b0[1] = n
    elif kind == "pairs":
        for d in range(1, n, 2):
            b2[d], b2[d + 1] = d + 1, d
        for d in range(2, n - 1, 4):
            b1[d] = d + 2
            b0[d + 2] = d
    return b0, b1, b2, u


def vertex_ids(n, b0, b1, b2, u):
    """iter_vertices: in-use darts that are the minimum of their vertex orbit (β1∘β2, β2∘β0)"""
    res = []
    for d in range(1, n + 1):
        if u[d]:
            continue
        seen = {0, d}
        todo = [d]
        mn = d
        while todo:
            x = todo.pop()
            for im in (b1[b2[x]], b2[b0[x]]):
                if im not in seen:
                    seen.add(im)
                    todo.append(im)
                    mn = min(mn, im)
        if mn == d:
            res.append(d)
    return res


def ser_lines(n, b0, b1, b2, u, verts, version=VERSION):
    """token lines of `CMap2::serialize` (blank lines included); verts: id -> (xtok, ytok) for the
    defined slots (only vertex ids are printed)"""
    lines = [["[META]"], [version, "2", str(n)], [],
             ["[BETAS]"], [str(x) for x in b0], [str(x) for x in b1], [str(x) for x in b2], [],
             ["[UNUSED]"], [str(d) for d in range(n + 1) if u[d]], [],
             ["[VERTICES]"]]
    for v in vertex_ids(n, b0, b1, b2, u):
        if v in verts:
            lines.append([str(v), verts[v][0], verts[v][1]])
    return lines


def lines_str(lines):
    return " | ".join(" ".join(l) for l in lines)


def loadtext_line(mask, lines):
    return f"loadtext {mask} " + lines_str(lines)


# ---------------------------------------------------------------------------------------------
# reading a text the way a *validating* loader would
# ---------------------------------------------------------------------------------------------

def parse_u(tok, bound):
    t = tok[1:] if tok.startswith("+") else tok
    if not t or not all(c in "0123456789" for c in t):
        return None
    v = int(t)
    return v if v < bound else None


_DEC = re.compile(r"^[+-]?([0-9]+|[0-9]+\.[0-9]*|[0-9]*\.[0-9]+)([eE][+-]?[0-9]+)?$")
_RATIO = re.compile(r"^-?[0-9]{1,18}/[0-9]{1,18}$")


def parse_coord(tok):
    """exact value of a coordinate token, None if it is not a number for the model"""
    if "/" in tok:
        if not _RATIO.match(tok):
            return None
        a, b = tok.split("/")
        if int(b) == 0:
            return None
        return Fraction(int(a), int(b))
    if not _DEC.match(tok):
        return None
    m = re.match(r"^([+-]?)([0-9]*)\.?([0-9]*)(?:[eE]([+-]?[0-9]+))?$", tok)
    sign, ip, fp, ex = m.group(1), m.group(2), m.group(3), m.group(4)
    e = int(ex) if ex else 0
    if abs(e) > 30:
        return None
    v = Fraction(int((ip + fp) or "0"), 10 ** len(fp)) * Fraction(10) ** e
    return -v if sign == "-" else v


def strip_comment(line):
    out = []
    for t in line:
        if "#" in t:
            p = t.split("#")[0]
            if p:
                out.append(p)
            break
        out.append(t)
    return out


def split_sections(lines):
    """('layout', variant) or ('ok', dict name -> list of content lines)"""
    secs, cur = {}, None
    for l in lines:
        if not l or l[0].startswith("#"):
            continue
        joined = " ".join(l)
        if joined.startswith("[") and "]" in joined:
            name = joined.strip("[]").lower()
            if name not in ("meta", "betas", "unused", "vertices"):
                return "layout", "UnknownHeader"
            if name in secs:
                return "layout", "DuplicatedSection"
            secs[name] = []
            cur = name
            continue
        if cur is not None:
            c = strip_comment(l)
            if c:
                secs[cur].append(c)
    if "meta" not in secs:
        return "layout", "MissingSection 0"
    if "betas" not in secs:
        return "layout", "MissingSection 1"
    parts = [t for l in secs["meta"] for t in l]
    if len(parts) != 3:
        return "layout", "BadMetaData 0"
    if parse_u(parts[1], USIZE) is None:
        return "layout", "BadMetaData 1"
    if parse_u(parts[2], USIZE) is None:
        return "layout", "BadMetaData 2"
    return "ok", secs


def analyse(lines):
    """what the (validating, fix 7170072) loader must answer, in the order of its checks.
    returns dict(kind='layout'|'err'|'ok', detail=…, expect=…)
      layout : rejected by the section parser (outside C10's quantifier); detail = variant [code]
      err    : BuilderError of build(); detail = 'Variant code'
      ok     : expect = the map the text denotes (n, rows incl. the null-dart column, flags, vertices:
               last line wins)"""
    st, secs = split_sections(lines)
    if st == "layout":
        return {"kind": "layout", "detail": secs, "expect": None}

    def err(d):
        return {"kind": "err", "detail": d, "expect": None}

    parts = [t for l in secs["meta"] for t in l]
    dim, n = parse_u(parts[1], USIZE), parse_u(parts[2], USIZE)
    if dim != 2:
        return err("BadMetaData 3")
    bl = secs["betas"]
    if len(bl) != 3:
        return err("InconsistentData 0")
    for i in range(3):
        if len(bl[i]) != n + 1:
            return err(f"InconsistentData {i + 1}")
    nd = n + 1
    rows = [[parse_u(t, U32) for t in bl[i]] for i in range(3)]
    # every image is parsed first, null-dart column included, dart by dart: b0, b1, b2
    for d in range(nd):
        for i in range(3):
            if rows[i][d] is None:
                return err(f"BadValue {i}")
    if any(rows[i][0] != 0 for i in range(3)):
        return err("InconsistentData 4")
    if any(v >= nd for i in range(3) for v in rows[i]):
        return err("InconsistentData 5")
    for d in range(1, nd):
        b0d, b1d, b2d = rows[0][d], rows[1][d], rows[2][d]
        if (b1d != 0 and rows[0][b1d] != d) or (b0d != 0 and rows[1][b0d] != d):
            return err("InconsistentData 6")
        if b2d != 0 and (rows[2][b2d] != d or b2d == d):
            return err("InconsistentData 7")
    unused = [0] * nd
    for t in [t for l in secs.get("unused", []) for t in l]:
        d = parse_u(t, U32)
        if d is None:
            return err("BadValue 3")
        if d == 0 or d >= nd or any(rows[i][d] != 0 for i in range(3)) or unused[d]:
            return err("InconsistentData 8")
        unused[d] = 1
    verts = {}
    for l in secs.get("vertices", []):
        vid = parse_u(l[0], U32)
        if vid is None:
            return err("BadValue 5")
        if len(l) < 2:
            return err("BadValue 4")
        x = parse_coord(l[1])
        if x is None:
            return err("BadValue 6")
        if len(l) < 3:
            return err("BadValue 4")
        y = parse_coord(l[2])
        if y is None:
            return err("BadValue 7")
        if len(l) > 3:
            return err("BadValue 4")
        if vid == 0 or vid >= nd or unused[vid]:
            return err("InconsistentData 9")
        verts[vid] = (x, y)
    return {"kind": "ok", "detail": "", "expect": {"n": nd, "rows": rows, "unused": unused, "verts": verts}}


# ---------------------------------------------------------------------------------------------
# reading a `snap` line
# ---------------------------------------------------------------------------------------------

def parse_snap(line):
    """'snap n=4 | b0: … | b1: … | b2: … | u: … | a0: … | …' -> dict"""
    if not line.startswith("snap n="):
        return None
    parts = [p.strip() for p in line.split("|")]
    res = {"n": int(parts[0][len("snap n="):])}
    for p in parts[1:]:
        k, _, v = p.partition(":")
        toks = v.split()
        if k in ("b0", "b1", "b2", "u"):
            res[k] = [int(t) for t in toks]
        else:
            res[k] = toks
    return res


def snap_wf_failure(s):
    """first violated clause of WF2 on a snapshot, or None"""
    n = s["n"]
    b = [s["b0"], s["b1"], s["b2"]]
    u = s["u"]
    if n < 1 or any(len(r) != n for r in b) or len(u) != n:
        return "nonwf:sizes"
    if any(v >= n for r in b for v in r):
        return "nonwf:range"
    if any(r[0] != 0 for r in b):
        return "nonwf:null"
    for d in range(n):
        if (b[1][d] != 0 and b[0][b[1][d]] != d) or (b[0][d] != 0 and b[1][b[0][d]] != d):
            return "nonwf:inverse"
    for d in range(n):
        if b[2][d] != 0 and (b[2][b[2][d]] != d or b[2][d] == d):
            return "nonwf:beta2"
    for d in range(n):
        if u[d] and any(r[d] != 0 for r in b):
            return "nonwf:unused-linked"
    return None


def snap_vertex(tok):
    """'(1/4,-2,0)' -> (Fraction, Fraction) ; 'none' -> None"""
    if tok == "none":
        return None
    x, y, _ = tok.strip("()").split(",")
    return Fraction(x), Fraction(y)


# ---------------------------------------------------------------------------------------------
# character level (C09b / C10b): a third reading of the characters
# ---------------------------------------------------------------------------------------------

# Unicode White_Space = Rust's char::is_whitespace (NOT Python's str.isspace: U+001C..U+001F are
# blanks for Python only)
WHITE_SPACE = set(range(9, 14)) | {0x20, 0x85, 0xA0, 0x1680} | set(range(0x2000, 0x200B)) | {0x2028, 0x2029, 0x202F, 0x205F, 0x3000}


def rust_is_ws(ch):
    return ord(ch) in WHITE_SPACE


def rust_split_ws(s):
    out, cur = [], []
    for ch in s:
        if rust_is_ws(ch):
            if cur:
                out.append("".join(cur))
                cur = []
        else:
            cur.append(ch)
    if cur:
        out.append("".join(cur))
    return out


def rust_lines(s):
    """str::lines: split at \\n, no final empty line (a trailing \\r is a blank anyway)"""
    parts = s.split("\n")
    if parts and parts[-1] == "":
        parts.pop()
    return parts


def tokenise_text(s):
    return [rust_split_ws(l) for l in rust_lines(s)]


def exact_decimal(fr):
    """exact decimal text of a dyadic rational (what `parse::<f64>` reads back exactly)"""
    fr = Fraction(fr)
    den = fr.denominator
    k = den.bit_length() - 1
    assert den == 1 << k, "not dyadic"
    num = abs(fr.numerator) * 5 ** k
    s = str(num).rjust(k + 1, "0")
    txt = s if k == 0 else s[:-k] + "." + s[-k:]
    return ("-" if fr < 0 else "") + txt


def ser_text(n, b0, b1, b2, u, verts, version=VERSION):
    """the characters of `CMap2::serialize` (independent of the Lean model): verts: id -> (xtext, ytext)"""
    nd = n + 1
    w = len(str(nd))
    out = ["[META]\n", f"{version} 2 {n}\n", "\n", "[BETAS]\n"]
    for row in (b0, b1, b2):
        out.append("".join(f"{str(x):>{w}} " for x in row).strip() + "\n")
    out += ["\n", "[UNUSED]\n", "".join(f"{d} " for d in range(nd) if u[d]) + "\n", "\n", "[VERTICES]\n"]
    for v in vertex_ids(n, b0, b1, b2, u):
        if v in verts:
            out.append(f"{v} {verts[v][0]} {verts[v][1]}\n")
    return "".join(out)


def hexs(s):
    return s.encode("utf-8").hex()
