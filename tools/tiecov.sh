#!/bin/bash
# Measurement (not a registered check): which lines of /repo's crates do the correspondence streams of the quick tier
# actually execute?  Builds the harness with -C instrument-coverage into a scratch directory outside /verif and /repo, runs
# the quick tier of every check through it (HV_IMPL_OVERRIDE), merges the profiles and writes notes/TIECOV.md.
# Needs llvm-profdata / llvm-cov of the nightly toolchain's llvm-tools.  Scratch directory is removed at the end.
set -e
S=${1:-/tmp/hvcov}
B=$(ls -d /root/.rustup/toolchains/nightly-x86_64-unknown-linux-gnu/lib/rustlib/*/bin | head -1)
mkdir -p $S/prof
# LLVM_PROFILE_FILE during the build too: instrumented build scripts and proc-macros otherwise drop default_*.profraw files
# into the crates' own directories (cargo registry, /repo)
( cd /verif/harness && CARGO_TARGET_DIR=$S/target LLVM_PROFILE_FILE=$S/build-%p-%m.profraw \
    RUSTFLAGS="-C instrument-coverage --cfg honeycomb_verif" cargo build --release --offline 2>&1 | tail -1 )
rm -f $S/prof/*.profraw
for p in C01 C02 C03 C04 C05 C06 C08 C09 C10 C11 C12 C13 C14 C15 C16 C17 C18 C19; do
  HV_IMPL_OVERRIDE=$S/target/release/hcimpl LLVM_PROFILE_FILE=$S/prof/$p-%p-%m.profraw VERIF_SEED=1 \
    python3 /verif/tools/check.py $p --tier quick 2>&1 | grep -E "^OK|^VIOLATION" || true
done
$B/llvm-profdata merge -sparse $S/prof/*.profraw -o $S/all.profdata
$B/llvm-cov export $S/target/release/hcimpl -instr-profile=$S/all.profdata -format=text -summary-only > $S/summary.json
$B/llvm-cov report $S/target/release/hcimpl -instr-profile=$S/all.profdata -show-functions=false > $S/report.txt 2>/dev/null || true
$B/llvm-cov show $S/target/release/hcimpl -instr-profile=$S/all.profdata -format=text -show-line-counts-or-regions \
   $(find /repo/honeycomb-core/src /repo/honeycomb-kernels/src -name '*.rs') > $S/show.txt 2>/dev/null || true
python3 /verif/tools/tiecov_report.py $S
rm -rf $S
