#!/usr/bin/env python3
"""generator `pre`: honeycomb-kernels/src/grisubal/routines/pre_processing.rs -> lean/Honeycomb/Gen/PreProc.lean
   (`detect_overlaps`: the on-grid-line tests; `compute_overlapping_grid`: bounding box, origin, cell counts)"""
import os
import re
import sys
from fractions import Fraction

sys.path.insert(0, os.path.dirname(os.path.abspath(__file__)))
import gen_lean  # noqa: E402
from gen_lean import fn_body, fn_sig, strip_comments, need, Shape  # noqa: E402,F401

PRE_RS = os.environ.get("GEN_LEAN_PRE_RS", "/repo/honeycomb-kernels/src/grisubal/routines/pre_processing.rs")
OUT = "/verif/lean/Honeycomb/Gen/PreProc.lean"

LINE = r"\(\(v\.(x|y)\(\)-origin\.(x|y)\(\)\)%(cx|cy)\)\.(\w+)\(\)"
OPS = {"&&": ".and", "||": ".or", "|": ".or", "&": ".and"}


def squash(s):
    return re.sub(r"\s+", "", s)


def line(g, what):
    v, o, c, test = g
    need(test == "is_zero", f"pre: {what}: the comparison is `.{test}()`, expected `.is_zero()`")
    return f"⟨.{v}, .{o}, .{c}, .isZero⟩"


def gen_pre():
    src = strip_comments(open(PRE_RS).read())
    # ---------------- detect_overlaps
    sig = squash(fn_sig(src, "detect_overlaps"))
    need("[cx,cy]:[T;2],origin:Vertex2<T>,overlap_only_corners:bool" in sig, f"pre: detect_overlaps signature {sig}")
    b = squash(fn_body(src, "detect_overlaps"))
    need(b.endswith("(on_grid,bad_reflection)"), "pre: detect_overlaps does not end with (on_grid, bad_reflection)")
    need(b.count("%") == 4, f"pre: detect_overlaps: {b.count('%')} uses of `%`, expected 4")
    m = re.match(r"leton_grid=geometry\.vertices\.iter\(\)\.map\(\|v\|\{leton_x_axis=" + LINE + r";leton_y_axis=" + LINE +
                 r";ifoverlap_only_corners\{on_x_axis(&&|\|\||&|\|)on_y_axis\}else\{on_x_axis(&&|\|\||&|\|)on_y_axis\}\}\)"
                 r"\.any\(\|a\|a\);letbad_reflection=", b)
    need(m, "pre: the `on_grid` chain of detect_overlaps departs from the template")
    g = m.groups()
    og_x, og_y, og_corner, og_line = line(g[0:4], "on_grid/x"), line(g[4:8], "on_grid/y"), OPS[g[8]], OPS[g[9]]
    m2 = re.match(r"geometry\.vertices\.iter\(\)\.enumerate\(\)\.filter_map\(\|\(id,v\)\|\{leton_x_axis=" + LINE +
                  r";leton_y_axis=" + LINE + r";ifon_x_axis(&&|\|\||&|\|)on_y_axis\{returnSome\(id\);\}None\}\)", b[m.end():])
    need(m2, "pre: the head of the `bad_reflection` chain of detect_overlaps departs from the template")
    g2 = m2.groups()
    br_x, br_y, br_op = line(g2[0:4], "bad_reflection/x"), line(g2[4:8], "bad_reflection/y"), OPS[g2[8]]
    # ---------------- compute_overlapping_grid
    sig = squash(fn_sig(src, "compute_overlapping_grid"))
    need("[len_cell_x,len_cell_y]:[T;2],keep_all_poi:bool" in sig, f"pre: compute_overlapping_grid signature {sig}")
    c = squash(fn_body(src, "compute_overlapping_grid"))
    m = re.search(r"let\(mut(\w+),mut(\w+),mut(\w+),mut(\w+)\):\(T,T,T,T\)=\{letSome\(tmp\)=geometry\.vertices\.first\(\)else\{"
                  r"returnErr\(GrisubalError::InvalidShape\(\"novertexinshape\"\)\);\};"
                  r"\(tmp\.(x|y)\(\),tmp\.(x|y)\(\),tmp\.(x|y)\(\),tmp\.(x|y)\(\)\)\};", c)
    need(m, "pre: bounding-box initialisation not recognised")
    names = list(m.groups()[:4])
    need(names == ["min_x", "max_x", "min_y", "max_y"], f"pre: bounding-box variables {names}")
    init = dict(zip(names, m.groups()[4:]))
    m = re.search(r"geometry\.vertices\.iter\(\)\.for_each\(\|v\|\{((?:\w+=\w+\.\w+\(v\.\w+\(\)\);)*)\}\);", c)
    need(m, "pre: bounding-box loop not recognised")
    upd = re.findall(r"(\w+)=(\w+)\.(min|max)\(v\.(x|y)\(\)\);", m.group(1))
    need(len(upd) == 4 and "".join(f"{a}={b_}.{f}(v.{k}());" for a, b_, f, k in upd) == m.group(1) and
         all(a == b_ for a, b_, _, _ in upd) and sorted(a for a, *_ in upd) == sorted(names), f"pre: bounding-box loop {m.group(1)}")
    updd = {a: (f, k) for a, _, f, k in upd}
    var = {"min_x": ".minX", "max_x": ".maxX", "min_y": ".minY", "max_y": ".maxY"}
    cell = {"len_cell_x": ".cx", "len_cell_y": ".cy"}
    bounds = [f"⟨{var[n]}, .{init[n]}, .{updd[n][0]}, .{updd[n][1]}⟩" for n in names]
    guards = re.findall(r"if(\w+)(<=|<|>=|>|==)(\w+)\{returnErr\(GrisubalError::InvalidShape\(\"boundingvaluesalong(X|Y)axisareequal\",?\)\);\}", c)
    need(len(guards) == 2 and all(o == "<=" for _, o, _, _ in guards) and all(a in var and b_ in var for a, _, b_, _ in guards),
         f"pre: the two degenerate-box guards {guards}")
    gd = [f"({var[a]}, {var[b_]})" for a, _, b_, _ in guards]
    ogs = re.findall(r"letmutog_(x|y)=(\w+)-(\w+)\*T::from\(([0-9.]+)\)\.unwrap\(\);", c)
    need([a for a, *_ in ogs] == ["x", "y"] and len(re.findall(r"letmutog_", c)) == 2, f"pre: origin definitions {ogs}")
    shs = re.findall(r"og_(x|y)\+=(\w+)\*T::from\(1\./\(2_i32\.pow\(i\+1\)asf32\)\)\.unwrap\(\);", c)
    need([a for a, _ in shs] == ["x", "y"] and c.count("+=") == 3 and "i+=1;" in c and "letmuti=1;" in c, f"pre: shift statements {shs}")
    ncs = re.findall(r"letn_cells_(x|y)=\(\((\w+)-og_(x|y)\)/(\w+)\)\.(\w+)\(\)\.to_usize\(\)\.unwrap\(\)\+(\d+);", c)
    need([a for a, *_ in ncs] == ["x", "y"] and len(re.findall(r"letn_cells_", c)) == 2, f"pre: cell counts {ncs}")
    call = "detect_overlaps(geometry,[len_cell_x,len_cell_y],Vertex2(og_x,og_y),!keep_all_poi,)"
    need(c.count("detect_overlaps(") == 2 and c.count(call) == 2, "pre: the two calls of detect_overlaps")
    need("whileon_corner|reflect{" in c and c.endswith("Ok(([n_cells_x,n_cells_y],Vertex2(og_x,og_y)))"), "pre: loop condition / result")
    axes = []
    for k in range(2):
        _, ob, oc, of = ogs[k]
        _, sc = shs[k]
        _, nb, nog, ncell, rnd, plus = ncs[k]
        need(ob in var and nb in var and oc in cell and sc in cell and ncell in cell, f"pre: axis {k}: unknown operand")
        need(rnd == "ceil", f"pre: axis {k}: rounding `{rnd}`, expected `ceil`")
        fr = Fraction(of)
        axes.append(f"⟨{var[ob]}, {cell[oc]}, {fr.numerator}, {fr.denominator}, {cell[sc]}, {var[nb]}, .{nog}, {cell[ncell]}, {plus}⟩")
    out = f"""/-
  GENERATED by /verif/tools/gen_pre.py (generator `pre`) from /repo/honeycomb-kernels/src/grisubal/routines/pre_processing.rs — DO NOT EDIT.
  `detect_overlaps`: a `PpLine` is one test `((v.COORD() - origin.ORG()) % CELL).TEST()`; `ppOnGridX/Y` those of the `on_grid` chain,
  `ppOnGridCorner/Line` the operator joining them when `overlap_only_corners` / otherwise; `ppReflX/Y/Op` those of the `bad_reflection` chain.
  `compute_overlapping_grid`: `ppBounds` = (variable, coordinate of `tmp` it starts from, `min`/`max`, coordinate of `v`);
  `ppGuards` = the pairs `a <= b` of the two InvalidShape returns; a `PpAxis` = `og = ogBound - ogCell * (ogNum/ogDen)`,
  `og += shCell * 1/2^(i+1)`, `n_cells = ((ncBound - og_ncOg) / ncCell).ceil() + ncPlus`.
  Props/C17Gen.lean gives the data its meaning and proves it equal to Model/Grisubal.lean.
-/

namespace HC.Gen

inductive PpAx where
  | x | y
  deriving Repr, DecidableEq

inductive PpCell where
  | cx | cy
  deriving Repr, DecidableEq

inductive PpTest where
  | isZero
  deriving Repr, DecidableEq

inductive PpOp where
  | and | or
  deriving Repr, DecidableEq

inductive PpFn where
  | min | max
  deriving Repr, DecidableEq

inductive PpVar where
  | minX | maxX | minY | maxY
  deriving Repr, DecidableEq

structure PpLine where
  coord : PpAx
  org : PpAx
  cell : PpCell
  test : PpTest
  deriving Repr, DecidableEq

structure PpBound where
  var : PpVar
  init : PpAx
  fn : PpFn
  coord : PpAx
  deriving Repr, DecidableEq

structure PpAxis where
  ogBound : PpVar
  ogCell : PpCell
  ogNum : Nat
  ogDen : Nat
  shCell : PpCell
  ncBound : PpVar
  ncOg : PpAx
  ncCell : PpCell
  ncPlus : Nat
  deriving Repr, DecidableEq

def ppOnGridX : PpLine := {og_x}
def ppOnGridY : PpLine := {og_y}
def ppOnGridCorner : PpOp := {og_corner}
def ppOnGridLine : PpOp := {og_line}
def ppReflX : PpLine := {br_x}
def ppReflY : PpLine := {br_y}
def ppReflOp : PpOp := {br_op}

def ppBounds : List PpBound := [{", ".join(bounds)}]
def ppGuards : List (PpVar × PpVar) := [{", ".join(gd)}]
def ppAxisX : PpAxis := {axes[0]}
def ppAxisY : PpAxis := {axes[1]}

end HC.Gen
"""
    os.makedirs(os.path.dirname(OUT), exist_ok=True)
    open(OUT, "w").write(out)
    return f"pre: {OUT} written (on_grid 2 tests + 2 operators, bad_reflection 2 tests + 1 operator, 4 bounds, 2 axes)"


if __name__ == "__main__":
    try:
        print(gen_pre())
    except Shape as e:
        print("SHAPE:", e)
        sys.exit(1)
