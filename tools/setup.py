#!/usr/bin/env python3
"""MANIFEST.setup_cmd: build the Lean library, the model driver and the Rust harness, offline."""
import os
import sys
sys.path.insert(0, os.path.dirname(os.path.abspath(__file__)))
import hv

ok1, log1 = hv.lake_build(["Honeycomb", "hcmodel"])
if not ok1:
    print(log1[-4000:])
ok2, log2 = hv.cargo_build()
if not ok2:
    print(log2[-4000:])
print("setup:", "lean ok" if ok1 else "lean FAILED", "/", "harness ok" if ok2 else "harness FAILED")
sys.exit(0 if ok1 and ok2 else 1)
