#!/usr/bin/env python3
"""MANIFEST.setup_cmd: build the Lean library, the model driver and the three Rust harnesses, offline."""
import os
import sys
sys.path.insert(0, os.path.dirname(os.path.abspath(__file__)))
import hv

ok = True
# build the driver and the proof modules of the CLAIMED checks only (the library root may import work in progress)
import importlib
import json
targets = ["hcmodel"]
try:
    man = json.load(open(os.path.join(hv.VERIF, "MANIFEST.json")))
    for c in man["checks"]:
        spec = importlib.import_module("props." + c["property_id"].lower()).SPEC
        import gen_lean
        gen_lean.run(["grid", "anchors", "orbits", "cores", "attrs", "links3", "sews2", "sews3", "links3c", "alloc", "sews3c", "dispatch3", "dispatch2", "vins", "geom", "remesh", "vinsn", "collapse", "fan", "earclip", "griddesc", "gcross", "pre"])
        targets += spec["lean_modules"]
except Exception as e:  # noqa: BLE001
    print("setup: could not read the manifest/specs:", e)
if "--lean-only" in sys.argv:
    ok1, log1 = hv.lake_build(sorted(set(targets), key=targets.index))
    if not ok1:
        print(log1[-6000:])
    print("gate: lean", "ok" if ok1 else "FAILED")
    sys.exit(0 if ok1 else 1)
# the model driver must build; a proof module that does not build is reported here but does not stop the set-up: the
# check of the property it belongs to then reports the broken proof obligation itself (and searches for a failing input)
ok1, log1 = hv.lake_build(["hcmodel"])
if not ok1:
    print(log1[-4000:])
okp, logp = hv.lake_build(sorted(set(targets), key=targets.index))
if not okp:
    print(logp[-4000:])
    print("setup: WARNING: some proof modules do not build; the checks of the properties they belong to will report it")
ok2, log2 = hv.cargo_build()
if not ok2:
    print(log2[-4000:])
msgs = [("lean ok" if okp else "lean driver ok, proof modules INCOMPLETE") if ok1 else "lean FAILED", "harness ok" if ok2 else "harness FAILED"]
ok = ok1 and ok2
# the two slower harnesses (bevy; vendored fast-stm): built here so that the first quick check does not pay for them
try:
    from props import c20
    r = c20.build_hcrender()
    msgs.append("harness-render ok" if r[0] else "harness-render FAILED")
    if not r[0]:
        print(r[1][-3000:])
    ok = ok and r[0]
except Exception as e:  # noqa: BLE001
    msgs.append(f"harness-render skipped ({e})")
try:
    from props import c07
    r = c07.build_sched()
    msgs.append("harness-sched ok" if r[0] else "harness-sched FAILED")
    if not r[0]:
        print(r[1][-3000:])
    ok = ok and r[0]
except Exception as e:  # noqa: BLE001
    msgs.append(f"harness-sched skipped ({e})")
print("setup:", " / ".join(msgs))
sys.exit(0 if ok else 1)
