#!/usr/bin/env python3
"""Regenerates MANIFEST.json from the table below (kept in one place so it stays valid)."""
import json
import os

VERIF = os.path.dirname(os.path.dirname(os.path.abspath(__file__)))
BASE = json.load(open("/root/.vp/BASELINE.json"))["cmd"] if os.path.exists("/root/.vp/BASELINE.json") else "cd /repo && cargo test --workspace --no-fail-fast --offline"

CLAIMED = {
    "C01": {
        "text": "Lean 4 theorems: every modelled editing call of CMap2 (link/unlink/sew/unsew 1-2, force_ forms, add/insert/remove "
                "free dart) preserves the well-formedness predicate WF 3 under the property's argument guard, lifted to every finite "
                "history by induction; the hand-written model is tied to /repo on every run by an exhaustive small-scope + random "
                "differential run of the real CMap2 against the compiled model, and the WF predicate is also evaluated on the real map. Props/C01b.lean: whatever the outcome of a transactional call (success, refusal, attribute failure) the state it leaves INSIDE the transaction is well formed, so a user transaction that swallows the refusal and commits publishes a well-formed map (C01_any_outcome_preserves_WF, C01_swallowed_abort_preserves_WF; stream `txi`).",
        "note": "The PUBLIC API of CMap2 end to end: the dispatch of link / unlink / sew / unsew ::<I> and of the force_ forms (dim2/links/mod.rs, dim2/sews/mod.rs, wrappers of links/one.rs, two.rs) is re-translated (Gen/Dispatch2.lean) and C01.prog, which the history theorem quantifies over, is proved to BE that dispatch into the translated bodies for every I (Props/C01GenApi.lean: C01_gen_api, C01_gen_force_tables). All four sews of a 2-map (one_sew, one_unsew, two_sew with its orientation test, two_unsew; dim2/sews/one.rs and two.rs) are re-translated too (Gen/Sews2.lean) and proved equal as programs to oneSew2 / oneUnsew2 / twoSew2 / twoUnsew2 (Props/C01Gen2.lean). The six *_core functions of components/betas.rs are RE-TRANSLATED from the source on every run (Gen/LinkCores.lean) and proved equal as programs to the link cores of the model (Props/C01Gen.lean); the rest of the model is hand-written. Trusted: Lean kernel + {propext, Classical.choice, Quot.sound}; the model is hand-written (tie = differential run, "
                "exhaustive for n<=3 darts quick / n<=4 thorough); fast-stm modelled sequentially here (concurrency is C07).",
        "design_ref": "DESIGN.md §7 C01",
    },
    "C06": {
        "text": "Lean 4 theorems: for every transactional closure over a map (hence every modelled core call and kernel, every attribute "
                "law and every fault position k) an outcome other than Ok leaves the map unchanged, both for the sequential semantics and "
                "for the transaction-log semantics of fast-stm (T1: log semantics = sequential semantics, proved generically). The claim "
                "about the CODE (operations write only through their Transaction) is carried by the tie: a fault-injection campaign on "
                "the real crates (user attribute laws failing at the k-th update, every k) with full before/after snapshots, diffed "
                "against the model.",
        "note": "Every force_ form of the 2-D and 3-D API is checked by the translator to run ONE internal function inside exactly ONE atomically_with_err, the same function as the transactional form (Gen/Dispatch2.lean, Gen/Dispatch3.lean; C01_gen_force_tables, C02_gen_force_tables, C01_gen_api, C02_gen_api), so the theorem about `atomically p` covers the whole public call. AttrSparseVec::merge / split of attributes/collections.rs (guard, reads, law dispatch table, writes in order) are RE-TRANSLATED from the source on every run (Gen/AttrMoves.lean) and proved equal as programs to mergeS / splitS of the model (Props/C04Gen.lean). Trusted: Lean kernel + 3 standard axioms; the model of fast-stm's log is hand-written; 'operations are closures over "
                "the log' is tested (campaign), not proved; streams: every sew/unsew of every WF 2-map n<=3 x k<=8, transaction "
                "blocks, 3-map glued-faces family (plain and force_ variants), remeshing kernels.",
        "design_ref": "DESIGN.md §7 C06, §4.1",
    },
    "C08": {
        "text": "Lean 4 theorems: for every list of transactional closures, if each succeeds when run one after the other (each in its "
                "own atomically_with_err) then the single atomic block returns the same results and exactly the same map, and "
                "conversely; proved for the sequential semantics and, via T1 (read-your-writes through the transaction log), for the "
                "log semantics fast-stm implements. Tie: every generated straight-line program is executed on the real crates both ways "
                "from the same state and compared with each other and with the model.",
        "note": "For the functions under translation (the whole 2-D and 3-D (un)link / (un)sew API down to the cores, the single-vertex insertion kernel: Props/C01GenApi, C02GenApi, C14Gen are obligations of this check) 'every read goes through the transaction' is enforced by the translator on every run: only `beta_transac(trans, ..)` / `.read(trans)` read shapes are accepted, a non-transactional read is a refused shape. Trusted: Lean kernel + 3 standard axioms; hand-written model of the log; that the OTHER real operations read shared state only "
                "through the transaction is tested by the differential run, not proved (the two exceptions it found — 3-D three_sew/"
                "three_unsew walking with orbit(), D4, and the vertex-insertion kernels testing spare darts with is_free, D3 — were repaired "
                "in /repo); streams: 2-D and 3-D core programs, vertex insertion / triangulation kernels, remeshing kernels.",
        "design_ref": "DESIGN.md §7 C08, §4.1",
    },
    "C18": {
        "text": "Lean 4 theorems (any number of beta rows and storages): add_free_dart(s) returns n and the new ids n..n+k-1 are non-null, "
                "new, below the new count, in use, free and valueless, counters move as documented; insert_free_dart returns the smallest "
                "removed slot (non-null because the null dart is never flagged, proved) or appends; remove_free_dart refuses iff linked or "
                "already removed; every id below the dart count is addressable in every storage (part of WF, preserved by every call: C01); "
                "iterators exclude removed darts. The clause 'a new dart has no value' is proved FALSE for reused slots (negation witness, "
                "finding D10) and proved under the blank-slot hypothesis. Tie: allocation histories on real CMap2/CMap3 with every "
                "attribute mask, every id probed in every storage after each allocation, diffed against the model, oracle on the real map.",
        "note": "add_free_dart(s), insert_free_dart, remove_free_dart(_transac) of dim2/ and dim3/basic_ops.rs and AttrStorageManager::extend_storages / get_map of attributes/manager.rs are RE-TRANSLATED from the source on every run (Gen/Alloc.lean: which components are extended and by how much, which buckets of the manager, the bucket of every bind policy, what insertion searches / writes, what removal replaces and asserts in which order) and the meaning of these tables is proved equal to the allocation functions of the model (Props/C18Gen.lean). C18_remove_twice_in_one_transaction: a second transactional removal of the same dart inside one transaction is refused. Trusted: Lean kernel + 3 standard axioms; otherwise hand-written model of allocation (Vec growth = array append); known finding D10.",
        "design_ref": "DESIGN.md §7 C18",
    },
    "C02": {
        "text": "Lean 4 theorems: every modelled editing call of CMap3 (link/unlink/sew/unsew in dimensions 1, 2, 3, force_ forms, dart "
                "allocation and removal) preserves WF 4 under the property's argument guard AND the mirror condition of 3-glued faces "
                "(closed and open faces), lifted to every finite history by induction (C02_history_preserves_WF_and_Mirror); a request to "
                "3-link/3-sew faces that cannot be mirrored (closed/closed of different lengths, closed/open, open/open with different "
                "numbers of darts ahead or behind) is refused with an error (C02_refusal, C02_refusal_sew) and a refused or failed call "
                "changes nothing; removed darts are nobody's image. Tie: exhaustive WF 3-maps n<=3, glued-faces family, random and "
                "polyhedra histories, composed transactions on the real CMap3 vs the model; WF and Mirror evaluated on the real map. Props/C02b.lean: the two extra shape predicates used by the 3-D face clauses of C03/C20 — Sided (a face is 3-linked as a whole) and NoSelfGlue — are NOT invariants under C02's guards alone (decide-checked counterexample histories) and ARE preserved under the additional guard 'a 1-link joins two darts that are both 3-linked or both 3-free' (C02b_history_preserves_all).",
        "note": "The PUBLIC API of CMap3 end to end: the dispatch of link / unlink / sew / unsew ::<I> and of their force_ forms (dim3/links/mod.rs, dim3/sews/mod.rs, the wrappers of links/{one,two,three}.rs) is re-translated (Gen/Dispatch3.lean) and Props/C02GenApi.lean proves that the transactional closure C02.prog the history theorems are about IS the translated dispatch into the translated function bodies, for every I (C02_gen_api, C02_gen_force_tables, C02_gen_api_step_preserves_WF). CMap3::three_link / three_unlink of dim3/links/three.rs -- the lock-step walks with BOTH while loops, the mutable pair (lside, rside), every AsymmetricalFaces guard and the assert_eq! -- are re-translated on every run (Gen/Links3Loops.lean, 30 instructions) and proved equal as programs to threeLink3 / threeUnlink3 (Props/C02Gen3.lean: a generic while combinator run with the fuel of the model, whileL_linkBody / whileL_unlinkBody by induction). CMap3::one_link / one_unlink of dim3/links/one.rs are likewise re-translated (Gen/Links3.lean) and proved equal to oneLink3 / oneUnlink3 (Props/C02Gen.lean). The six *_core functions of components/betas.rs are RE-TRANSLATED from the source on every run (Gen/LinkCores.lean) and proved equal as programs to the link cores of the model (Props/C01Gen.lean); the rest of the model is hand-written. Trusted: Lean kernel + 3 standard axioms; hand-written model (Model/Ops3.lean). Defect D1/D1b (three_link accepted "
                "non-mirrorable faces) found and repaired (243b216).",
        "design_ref": "DESIGN.md §7 C02, §13",
    },
    "C05": {
        "text": "Lean 4 theorems: a successful 3-D sew/unsew of dimension 1, 2, 3 has exactly the topology of the link/unlink (six "
                "C05_*_topology theorems); data placement per storage (MergedIn/SplitIn: new id carries merge* of the two old values, old "
                "ids cleared, all other slots unchanged) for 1-sew/1-unsew, the four arms of 2-sew, 2-unsew, and for 3-sew/3-unsew as "
                "chains of merges over the collected (edge, edge) and (vertex, vertex) id pairs, with the proviso theorem for pairwise "
                "disjoint pairs; at CELL level for 1-sew/1-unsew on every WF 4 map, open faces included (C05_oneSew3_cells, "
                "C05_oneUnsew3_cells: ids = cell minima, new cell = union, nothing else changes; needs the repaired vertex orbit, D13). "
                "Tie: polyhedral complexes (hexahedra, tetrahedra, prisms, pyramids; rings of tets/cubes closing around an edge), glued "
                "faces families, histories and tx blocks with free-term attribute values on the real CMap3 vs the model; Python oracle "
                "recomputes cells independently and checks placement, round trips and 'unsew succeeds on embedded meshes'.",
        "note": "CMap3::one_sew / one_unsew / two_sew / two_unsew (dim3/sews/one.rs, two.rs; 107 instructions, orientation test and early return included) are RE-TRANSLATED from the source on every run (Gen/Sews3.lean) and proved equal as programs to oneSew3 / oneUnsew3 / twoSew3 / twoUnsew3 (Props/C05Gen.lean; C05_gen_sews_topology / C05_gen_unsews_topology state C05 (a) on the translated code); CMap3::three_sew / three_unsew (dim3/sews/three.rs: the two collected face walks, the zip loops with their bodies, the orientation test, the merge / split calls with their argument order, the filter closures; 79 instructions) likewise (Gen/Sews3Loops.lean, Props/C05Gen3.lean: C05_gen_threeSew3, C05_gen_threeUnsew3, loops by induction over the zipped walk). AttrSparseVec::merge / split of attributes/collections.rs (guard, reads, law dispatch table, writes in order) are RE-TRANSLATED from the source on every run (Gen/AttrMoves.lean) and proved equal as programs to mergeS / splitS of the model (Props/C04Gen.lean). Trusted: Lean kernel + 3 standard axioms; hand-written model. Cell level (C05Cells, C05Cells2): 1-sew/1-unsew on every WF 4 "
                "map; 2- and 3-sew/unsew on closed faces; C05Succ: 1-/2-/3-unsew SUCCEED on an embedded mesh (built-in vertices; the result "
                "is embedded again), open-face arms of 2-(un)sew, cell-level proviso => id-level proviso for 3-sew. C05Cells3(+Data): 3-sew / 3-unsew at cell level on OPEN faces; "
                "C05SuccLaw: the unsews succeed for ANY attribute law that splits the values held at the splitting cells' identifiers "
                "(first failing law's error otherwise, state unchanged by C06). NOT proved: the edge analogue of the Disj data clause, "
                "behaviour outside the proviso (a cell in two merges of one call). Defects found and repaired: three_unsew max/min (af9cf00), D4 (f79acf8), D13 (e8bc83e).",
        "design_ref": "DESIGN.md §7 C05, §13",
    },
    "C03": {
        "text": "Lean 4 theorems (2-D): a generic BFS lemma (result starts with the dart, no duplicates, no null dart, exactly the "
                "reachable non-null darts, fuel n+1 suffices) instantiated for every orbit policy incl. arbitrary Custom slices; on WF "
                "maps the generator sets of vertex/edge/face are inverse-closed so the orbit is the equivalence class; vertex/edge/face "
                "ids are the minimum of the cell (incl. the edge shortcut), equal ids iff same cell; iterators are strictly increasing and "
                "yield exactly the ids of in-use darts; linear policies agree on closed cells; transactional = plain. Tie: exhaustive "
                "WF 2-maps n<=4 x all darts x 14 policies x all id/iterator calls on the real CMap2 vs the model, plus an independent "
                "Python closure oracle.",
        "note": "Trusted: Lean kernel + 3 standard axioms; hand-written model, EXCEPT the image lists of the orbit policies and of the 3-D "
                "identifier walks, which are re-translated from dim2/orbits.rs, dim3/orbits.rs, dim3/basic_ops.rs on every run "
                "(Gen/OrbitArms.lean; Props/C03Gen.lean proves they are the model's g2 / g3 / g3v, that every policy has an arm and that "
                "orbit and orbit_transac examine the same images). 3-D (Props/C03b.lean): C03_orbit3_spec for every policy and "
                "Custom slice; vertex/edge/volume ids = cell minima and iterators on EVERY WF 4 map (after repair of D13); face ids under "
                "FaceScope = Mirror + 'a dart is 3-free iff its successor is' — weaker than the property's 'glued faces closed and mirrored' "
                "(closedness not needed; both conditions necessary, counterexamples on the real code in the file); linear policies on closed "
                "cells; transactional = plain. Defects D13, D14 found by the tie and repaired. Not claimed: face ids outside FaceScope",
        "design_ref": "DESIGN.md §7 C03, Appendix A2",
    },
    "C04": {
        "text": "Lean 4 theorems for every attribute configuration (any storages, laws, order): a successful 1-/2-sew (1-/2-unsew) changes "
                "the topology exactly as the link (unlink); in every storage bound to the cell kind — independently of the others — the new "
                "id (computed after the link) carries merge*(values at the two old ids computed before), old ids are cleared, coinciding "
                "old ids only move the value (repaired defect D2), every other slot of every storage is unchanged; unsew mirrored with "
                "split*; BadGeometry refusal exactly when all four coordinates are defined and the direction test fails; a rejected law "
                "fails the call. Tie: exhaustive WF 2-maps n<=3/4 x all sews x value patterns with free-term attribute values on the "
                "real CMap2 vs the model; Python oracle recomputes CELLS independently and checks merge/split placement per cell.",
        "note": "All four sews of a 2-map (one_sew, one_unsew, two_sew with its orientation test, two_unsew; dim2/sews/one.rs and two.rs) are re-translated too (Gen/Sews2.lean) and proved equal as programs to oneSew2 / oneUnsew2 / twoSew2 / twoUnsew2 (Props/C01Gen2.lean). AttrSparseVec::merge / split of attributes/collections.rs (guard, reads, law dispatch table, writes in order) are RE-TRANSLATED from the source on every run (Gen/AttrMoves.lean) and proved equal as programs to mergeS / splitS of the model (Props/C04Gen.lean). Trusted: Lean kernel + 3 standard axioms; hand-written model. Cell level (Props/C04Cells*.lean, cell calculus in "
                "Lemmas/CellCalc.lean): for 1-sew, 1-unsew, all four arms of 2-sew and every arm of 2-unsew the computed ids ARE "
                "the minima of the cells and 'new cell = union of the two old cells, every other cell unchanged' is a theorem (for the "
                "2-sew of two darts with successors the minima statement is under the property's proviso).",
        "design_ref": "DESIGN.md §7 C04",
    },
    "C09": {
        "text": "Lean 4 theorems at token level: for every WF 2-map (any size below 2^32 darts) load(serialize m) returns a map with the same "
                "dart count, beta images, removal flags and vertex values on every vertex id, and re-serialising reproduces the token "
                "lines (numeral round trip proved from core lemmas; coordinate tokens proved for rationals up to 18 digits). Tie: the real "
                "serializer output is tokenised and compared with the model's tokens, the rebuilt real map is snapshotted and compared; "
                "byte-identical second serialisation and bit-identical coordinates (f32/f64, +-0, subnormals, +-inf, column-width sizes "
                "9/10/99/100/999/1000) are checked on the implementation directly.",
        "note": "Trusted: Lean kernel + 3 standard axioms; hand-written model. Props/C09b.lean: CHARACTER level — serializeChars mirrors every write! "
                "of serialize (headers, META, column padding, trailing blanks, newlines; coordinate fields through a parameter fmt assumed "
                "non-empty and blank-free), the reader's line/section/comment/split_whitespace handling is modelled on characters with Rust's "
                "full White_Space set and Rust's unsigned from_str; tokenising the written characters gives exactly the token lines "
                "(C09_chars_tokenise_to_tokens), the character reader is the token reader after tokenising, hence C09_char_level_round_trip; "
                "the real serializer's BYTES are compared with the character model (all but the two coordinate fields). NOT proved: the "
                "decimal text of f64/f32 (Display/FromStr), validated by bit-identical round trips on the implementation.",
        "design_ref": "DESIGN.md §7 C09",
    },
    "C10": {
        "text": "Lean 4 theorems over the loader model (mirroring build_2d_from_cmap_file after the repair of D5, commit 7170072): for EVERY "
                "token text the loader returns an error or a map m with WF 3 m that agrees with the text (C10_load_wf_or_error), never a "
                "panic; under the explicit validator validFile it succeeds; the pre-repair failure classes (seven defect classes D5a-g, nine witnesses) (out-of-range image, "
                "non-inverse b0/b1, asymmetric b2, ignored null column, linked/repeated unused id, id >= n, vertex on null/removed dart) "
                "are rejected with an error. Tie: mutation streams and random texts on the real loader vs the model; oracle on the real "
                "result (error, or WF map agreeing with the text).",
        "note": "Trusted: Lean kernel + 3 standard axioms; hand-written model. Props/C10b.lean: for EVERY character string the loader returns an "
                "error or a WF map agreeing with the text and never panics (C10_chars_load_wf_or_error, C10_chars_never_panics), with a raw "
                "character stream (CRLF, tabs, Unicode blanks and look-alikes, signs, overflow, non-digits, broken headers) in the tie. The "
                "seven defect classes D5a-g found here were repaired in /repo by one fix: commit. Outside the quantifier: non-UTF-8 files "
                "(read_to_string panics, compared as panic), memory exhaustion on a huge META count.",
        "design_ref": "DESIGN.md §7 C10, §13.4",
    },
    "C12": {
        "text": "Lean 4 theorems for ALL nx, ny(, nz) >= 1 over the beta tables REGENERATED from grid.rs on every run (tools/gen_lean.py): WF of "
                "the 2-D grid, split grid and 3-D hex grid; b2 null iff boundary side else the facing dart of the adjacent cell; faces = "
                "b1-cycles in bijection with cells; vertex ids <-> lattice points with exact coordinates origin+(i lx, j ly) over Rat; CCW "
                "faces of area lx*ly (lx*ly/2); hex cells and b3 gluing; descriptor parsing errors exactly on missing/non-positive "
                "parameters and agreement of the three descriptor forms; zero count (after the fix: commit 9dd602d). Tie: exhaustive size "
                "boxes on the real builders vs the model (full snapshots) + independent Python oracle.",
        "note": "The descriptor logic of builder/grid.rs -- the match over (n_cells, len_per_cell, lens) with its patterns, the formula of every arm as an expression tree (division and .ceil() kept as nodes), the check_parameters! checks in source order with field, component and message, the macro condition is_sign_negative | is_zero -- is RE-TRANSLATED on every run too (Gen/GridDesc.lean) and proved equal to parse2 / parse3 of the model for all 8 combinations of given fields (Props/C12Gen.lean: C12_gen_parse2, C12_gen_parse3, gdBad_eq, C12_gen_arms, C12_gen_checks; corollaries C12_gen_parse*_forms_agree, C12_gen_parse2_refusals). Trusted: Lean kernel + 3 standard axioms; translator gen_lean.py (parses the grid arithmetic, fails loudly); hand-written "
                "builder loops. C12b: 3-D lattice vertices, volumes, counts, build() total; C12c: the third descriptor form in binary64 — "
                "count = ceil(rnd 53 (L/l)) is ceil(L/l) or one less, exact on exact multiples (C12_ceil_count_f64_multiple), one short on a "
                "concrete pair of floats (reproduced on the real builder; outside the property: not an exact multiple). NOT proved: that "
                "the hardware division is rnd 53 (validated by C19's flop stream), overflow/subnormal quotients, u32 wrap-around. C12d: 3-D vertex / edge / "
                "face / volume counts and the Euler relation for ALL sizes through the real identifier walks (C12_hex3_counts_all, "
                "C12_hex3_faces, C12_hex3_edges); the 3-D split grid is unimplemented!() in the code (mirrored panic proved).",
        "design_ref": "DESIGN.md §7 C12, §3.4",
    },
    "C19": {
        "text": "Lean 4 theorems over a model with one definition per Rust impl block: every compound-assignment / by-reference operator equals "
                "its binary counterpart (any coordinate type); over any field v-v=0, (v+u)-v=u, dot symmetric, cross antisymmetric and "
                "orthogonal, orientation = shoelace sign with swap/cyclic laws, average symmetric and between; unit_dir/normal_dir fail iff "
                "null vector and over the reals return a unit vector parallel resp. quarter-turn CCW; under an explicit rounding-model "
                "hypothesis structure: fl(v-v)=0, the (v+u)-v bound, the orientation sign outside an explicit band; skewness in [0,1), "
                "0 iff equiangular, invariant under rotation/reversal of the corner list and similarities. Tie: ~60 operators run on the "
                "real crates with exact dyadic inputs vs the model (identical), plus random f32/f64 oracles evaluated with exact Fractions.",
        "note": "EVERY arithmetic function and operator impl of honeycomb-core/src/geometry/dim2/{vector,vertex}.rs and dim3/{vector,vertex}.rs (by-value and by-reference Add / Sub / Mul / Div / Neg and their Assign forms, dot, cross_product, the radicand of norm, normal_dir, average, cross_product_from_vertices, the From impls, accessors; Div with its zero-divisor assertion) is RE-TRANSLATED from the source on every run into expression trees per output component (Gen/Geometry.lean) and proved equal, by rfl, to the operator of the model the C19 laws are about (Props/C19Gen.lean: 70 per-function theorems C19_gen_*, plus C19_gen_*_complete fixing the list of impls per file, so that an impl that appears or disappears is noticed); unit_dir (control flow around norm and Div), the marker / attribute impls are pinned textually, not translated. Trusted: Lean kernel + 3 standard axioms; single Mathlib modules in proof files. Props/C19b.lean + Lemmas/Rounding.lean: the "
                "rounding-model hypothesis is DISCHARGED for idealised IEEE arithmetic — rnd p = round-to-nearest-even to p bits with "
                "unbounded exponent is odd, monotone, exact on representable numbers, relative error <= 2^-p — so every fl-theorem is "
                "unconditional for rnd 53 / rnd 24; the real f64/f32 + - * / are compared EXACTLY with rnd (48000 hardware operations per "
                "run incl. 7500 exact ties, plus the Lean rnd through the driver). NOT proved: that the hardware is rnd (validated by that "
                "stream), accuracy of hypot/sqrt/acos, the polygon angle sum. Props/C19c.lean: 'moderate magnitude' made explicit — "
                "rndB p emin emax (round-to-nearest-even with a real format's exponent range, gradual underflow, overflow = none) equals rnd p "
                "under explicit magnitude bounds on the inputs for every C19 operator (binary32 and binary64 instances), so the C19b "
                "theorems apply to the bounded arithmetic; a single quotient only (a quotient lies on no grid). Defect D12 found and "
                "repaired (90eb331).",
        "design_ref": "DESIGN.md §7 C19",
    },
    "C20": {
        "text": "Lean 4 theorems (2-D, WF map with closed faces): the start-up system does not panic on embedded maps; vertex entities = "
                "iter_vertices; index_map injective/onto and table[index_map v] = coordinates of v; dart start/end rows = rows of "
                "vertexId d / vertexId (b1 d); edge ends; face corner list = index_map of vertex ids along the b1-cycle; exactly one dart "
                "entity per in-use dart; 3-D: vertex/edge/face entity and dart start statements conditional on success. Tie: a headless "
                "bevy App (MinimalPlugins) runs the REAL extract_data_from_map / _3d_map systems (harness-render); the dumped world is "
                "diffed against the model's scene on exhaustive WF 2-maps n<=4, 3-maps n<=3, meshes, edit histories, polyhedra; "
                "independent Python oracle; normals checked finite/unit on the real output.",
        "note": "Trusted: Lean kernel + 3 standard axioms; bevy ECS command application; hook cfg(honeycomb_verif) accessors for Dart. Props/C20b.lean: "
                "3-D dart ends, face corners, two-sided dart enumeration = face orbit, exactly one dart entity per in-use dart, no panic (under "
                "Mirror + Sided (+ NoSelfGlue): Mirror is preserved by the API, C02; Sided/NoSelfGlue under the extra guard of C02b); a "
                "self-glued face provably gets every dart entity twice; exact normals over Q: zero normal iff the corner is straight "
                "(C20_D20a_zero_normal_iff = known finding D20a: NaN FaceNormals), plane normal of the scene = cross product of the map's "
                "coordinates. Props/C20c.lean: glam's Vec3::normalize operation by "
                "operation in the rounding model (rnd 24; sqrt ASSUMED within relative error u, true of a correctly rounded sqrt): every "
                "nonzero input is normalised to |norm - 1| <= 10 * 2^-24 < 1e-6, a corner's plane normal is nonzero iff the corner is "
                "not straight (D20a is exactly the excluded case). PARTIAL: the finally stored (a*n1+b*n2).normalize() when the computed "
                "sum vanishes; NOT proved: the f32 rounding of the cross products themselves, glam's SIMD paths.",
        "design_ref": "DESIGN.md §7 C20",
    },
    "C07": {
        "text": "Lean 4 theorems on a protocol model of fast-stm at commit granularity (per-variable version stamps, logged first reads, "
                "validate-then-publish commit, restart on failed validation, abort returns without publishing): for every number of "
                "threads, programs and interleavings, the final memory and the values returned by committed transactions equal the "
                "sequential execution of the committed transactions in commit order (C07_serializable, via T3: a validated commit is a "
                "sequential run on the current memory); memory changes only at validated commits; the same serializability theorem at LOCK "
                "granularity (C07_serializable_B: commit takes one lock at a time, validates under the lock, blocks on incompatible "
                "locks, for every lock order; lock exclusivity is an invariant; with the address order of the real commit no reachable "
                "state has all unfinished threads waiting for a lock: C07_no_deadlock_B). Tie: a deterministic schedule explorer "
                "runs REAL honeycomb transactions on real OS threads over a byte-checked vendored fast-stm with cooperative yield points "
                "(DFS with preemption bound, random, PCT); every distinct outcome must be free of panic/hang/deadlock, equal a real "
                "sequential run in commit order, equal the Lean model's sequential run in commit order, and be well-formed.",
        "note": "Trusted: Lean kernel + 3 standard axioms; the protocol model is hand-written after fast-stm 0.5.0; one thread runs at a "
                "time in the explorer. Deadlock freedom IS proved for the lock-granularity model with locks taken in one global order "
                "(C07_no_deadlock_B; the unordered variant deadlocks, decide example). NOT covered: livelock/fair termination of the retry "
                "loop, parking_lot queueing, the individual stores of the final "
                "publish step, memory ordering, wait_for_change wake-ups; the premise that operations access shared memory only through Transaction::read/write is "
                "tested by the explorer (defects D3/D4 found this way were repaired). Interleavings INSIDE commit() are explored at lock granularity "
                "on the real parking_lot locks for a subset of scenarios (try-lock + yield at every acquisition); a reversed lock order "
                "is found to deadlock by the explorer's self-test. Known finding D15h: collapse_edge hangs alone on a corner triangle.",
        "design_ref": "DESIGN.md §7 C07, §4.1",
    },
    "C13": {
        "text": "Lean 4 theorems: check_requirements exact characterisation and error kinds; shoelace step identity and area-sum theorems "
                "for the vertex-list computations of fan and ear clipping (every successful run: triangle areas add up to the polygon's; "
                "every clipped ear has the announced orientation and contains no other vertex: ear test soundness); kernel ties: a "
                "successful kernel run performed exactly that vertex-list computation; fan: an accepted apex sees every non-incident side "
                "with one sign (strict except for the first examined side, exactly as the code tests), strictly convex CCW polygons are "
                "accepted (after repair of D7, commit 00af791). Tie: convex/star/reflex-at-every-index/random simple polygons (4-10 sides, "
                "both orientations, isolated and embedded) on the real kernels vs the model + exact Python oracle (triangle count, "
                "orientation, area sum, adjacency, untouched faces, WF). Props/C13c.lean: exact triangle structure after ear clipping (n-2 listed triangles, each a closed b1 3-cycle) under the decidable hypothesis that the ear is never found at the last index (necessary: the kernel's vector surgery drops the wrong dart there; holds on simple polygons by the two-ears theorem, not proved); C13_fan_test_iff: exactly what the star test accepts (nothing about the magnitude of the first examined side, with a decide witness of an accepted zero-area triangle).",
        "note": "check_requirements (triangulation/mod.rs: both matches with their patterns and range kinds, the constants, the error variants and messages) and BOTH fan kernels process_cell / process_convex_cell of triangulation/fan.rs (the star search: range start, the two vertex indices of a side, the argument order of the cross product, the != sign comparison, the strict comparison with epsilon; the chunks_exact(2) loop body, the start and update of d0, the tail) are RE-TRANSLATED from the source on every run (Gen/Fan.lean) and proved equal as programs to checkRequirements / fanCell / fanConvexCell of the model (Props/C13Gen.lean: C13_gen_check_requirements, C13_gen_fanTest, C13_gen_fan_loop_step + C13_gen_fan_loop by induction, C13_gen_fanConvex, C13_gen_fan; corollaries C13_gen_check_requirements_ok_iff, C13_gen_fan_kernel_star); the ear-clipping kernel of triangulation/ear_clipping.rs likewise (Gen/EarClip.lean, Props/C13GenB.lean: the two orientation closures C13_gen_earInside_ccw / _cw, C13_gen_earTest, one clipping step C13_gen_earclip_step with the dart-list bookkeeping interpreted literally, C13_gen_earclip_loop, C13_gen_earclip(_ccw/_cw) -- the whole-function tie is an equality of RUNS, since the code keeps n in a variable of its own where the model uses the list length; corollary C13_gen_earclip_kernel_triangles). Trusted: Lean kernel + 3 standard axioms; otherwise hand-written kernel models. C13b: WF through fan/fan_convex/earclip, exact structure "
                "after a fan; C13c: exact triangle structure after ear clipping under EarsNotLast (decidable; holds on simple polygons by "
                "the two-ears theorem), C13_fan_test_iff; C13d: for both fan kernels the triangles of the RESULT map carry the coordinates of "
                "the vertex-list triangles, hence area conservation, orientation and untouched coordinates in the map (fresh spare darts). "
                "C13e: the same coordinate tie for ear clipping (C13_earclip_triangles_carry_list_coordinates, area conserved and "
                "every clipped ear correctly oriented IN THE RESULT MAP, old vertices keep their coordinates) and the clockwise twin of "
                "the convex acceptance. Streams also translate the polygons by 2^47 / 2^50 (differences and their products still exact). "
                "NOT proved: ear clipping succeeds on every simple polygon in general position (two-ears theorem), the sign of the LAST "
                "ear-clip triangle (the code never tests it), spare darts that already carry links or values — evaluated by the oracle.",
        "design_ref": "DESIGN.md §7 C13",
    },
    "C14": {
        "text": "Lean 4 theorems: insert_vertex_on_edge / insert_vertices_on_edge preserve WF 3 at full strength under the user-side guards "
                "(after repair of D8), validation errors are returned exactly under the stated conditions and before any write (state "
                "unchanged: instance of C06), success implies the guards, the i-th new point sits at v1+(v2-v1)*t_i in the slot of the "
                "vertex id of the i-th new dart (after repair of D11) and lies strictly between the end points in order over Q. Tie: every "
                "edge of every WF 2-map n<=3 (+k spare darts, k<=3, natural and permuted order), grids, invalid inputs, tx blocks on the "
                "real kernels vs the model; oracle: chain of k+1 segments on both sides, positions, frame incl. all images of dart 0. Props/C14c.lean: every old dart keeps its vertex orbit, vertex id and coordinates (in every storage), in particular the two end points.",
        "note": "The single-vertex kernel insert_vertex_on_edge of honeycomb-kernels/src/cell_insertion/vertices.rs (validation prefix with its error variants and messages, both arms, every guarded unlink / link with its argument order, the written value v1 + (v2 - v1) * t / average), its is_free_transac and the dispatch of CMap2::link / unlink ::<I> down to the link cores are RE-TRANSLATED from the source on every run (Gen/VertexInsertion.lean, 36 instructions) and proved equal as a program to insertVertexOnEdge of the model (Props/C14Gen.lean: C14_gen_insertVertexOnEdge, C14_gen_isFreeTx, C14_gen_link_dispatch; corollaries C14_gen_insertVertex_preserves_WF, C14_gen_bound_single). insert_vertices_on_edge, the MULTI-vertex kernel, likewise (Gen/VertexInsertionN.lean, 32 instructions + three loop bodies; Props/C14GenN.lean: validation prefix with both factors of the amount check and the three messages as data, the three loops tied by a one-step theorem and induction over the list, C14_gen_insertVerticesOnEdge for the whole function, corollaries C14_gen_insertVertices_preserves_WF, C14_gen_wrong_count). Trusted: Lean kernel + 3 standard axioms; otherwise hand-written kernel model. Props/C14b.lean: exact b chain after insertion on both "
                "sides, b2 pairing in reverse order, frame for every other image, new darts in pairwise distinct vertices; Props/C14c.lean: "
                "every old dart keeps its vertex orbit, id and coordinates (in particular the two end points). Props/C14d.lean: the answer is "
                "UndefinedEdge exactly when an end point of the edge has no value, and then the map is unchanged "
                "(C14_undefined_edge_iff, _single). NOT proved: insert_vertex_on_edge on a dart with no second end point (oracle only).",
        "design_ref": "DESIGN.md §7 C14",
    },
    "C11": {
        "text": "Lean 4 theorems: a map returned by the VTK import is WF 3 for EVERY point list and cell list (conforming or not); the pre-sew "
                "map has one b1-cycle of consecutive darts per cell carrying the cell's points in order; a returned map keeps those darts, "
                "b0 and b1, its b2 only joins sides traversed in opposite directions and — when no directed side is repeated — joins every "
                "such pair; a 2-sew merging equal coordinates keeps them; export: points = iter_vertices values in order, cells = Lines of "
                "2-free edges then faces, each polygon is a duplicate-free b1 walk from the face id (the whole cycle on closed faces) with "
                "indices = positions of the C03 vertex ids. Tie: the real to_vtk_ascii/binary output is parsed back with vtkio and compared "
                "with the model's piece; real imports through from_vtk_file (ascii and binary temp files) are compared with the model; "
                "Python oracle compares meshes up to renumbering (faces as cyclic coordinate sequences, glued sides, boundary).",
        "note": "Trusted: Lean kernel + 3 standard axioms; vtkio's BINARY writer and its reader for both formats. C11b: conforming import is Ok, "
                "WF, coordinates preserved; C11c: export/import isomorphism for exportable maps without crack; C11d: 2-D grids and split "
                "grids of every size are exportable without crack, hence C11_grid_round_trip / C11_split_round_trip; C11e: the results of "
                "fan and insert_vertex_on_edge keep closed faces >= 3 sides and their boundary (positional hypotheses explicit); C11f: "
                "the ASCII writer modelled at token level (renderTokens), the real ASCII output tokenised and compared, a "
                "specification-level reader gives back the piece. Known finding C11-crack. NOT proved: floating point (all over Q), the "
                "positional hypotheses after kernels, ear clipping / k-vertex insertion / remeshing outputs, maps outside Exportable.",
        "design_ref": "DESIGN.md §7 C11",
    },
    "C15": {
        "text": "Lean 4 theorems over hand-written models of swap_edge, cut_outer_edge, cut_inner_edge and collapse_edge (one definition "
                "per Rust function, same reads in the same order) and over the anchor merge table REGENERATED from utils/anchors.rs on "
                "every run: swap and both cuts preserve WF 3 for every outcome under the guards the kernels need (faces closed at the edge "
                "darts, free in-use spare darts); collapse preserves WF for the kernel with non-null assertions at its sew sites, which the "
                "real kernel refines whenever it succeeds; a failed call leaves the map unchanged; the topology guards of swap/collapse as "
                "equations; the anchor rule of is_collapsible is total and picks the stated target; anchor algebra; the cut vertex is the "
                "exact midpoint and cuts conserve signed area (ring over Q); the midpoint is stored under the vertex id and both halves of "
                "a cut boundary edge keep its anchor (after repair of D15c/D15b). The clauses the code does NOT satisfy are proved false by "
                "decide witnesses and recorded as known findings (D9, D15a,d,e; D15f by replay only). Tie: every dart of "
                "1x1..3x3 split grids x swap/cut/collapse, plain/anchored/multi-surface/pre-refined meshes, adaptive histories, tx blocks "
                "on the real kernels vs the model; independent oracle on exact Fractions (triangles, counts, areas, coordinates, flags, "
                "anchors, orientation). Props/C15b.lean: b-level topology theorems on arbitrary WF maps for swap (twelve images, frame, triangles), outer and inner cut (spare darts placed as documented, pairings, frame), cells and face iterator after cut_outer_edge, midpoint at the vertex id in the FINAL map, and collapse_edge itself (interior edge, no anchors): WF unconditionally, exactly the six triangle darts flagged and free, neighbours re-glued, frame.",
        "note": "swap_edge (remeshing/swap.rs: guards with their error variants, reads, the short-circuit topology test, six unsews and six sews with their argument order), cut_outer_edge and cut_inner_edge (remeshing/cut.rs: 30 and 51 instructions, the anchor reads / writes with the attribute kind inferred from the value type, the midpoint with its retry) and the dispatch of CMap2::sew / unsew ::<I> (dim2/sews/mod.rs) are RE-TRANSLATED from the source on every run (Gen/Remesh.lean) and proved equal as programs to swapEdge / cutOuterEdge / cutInnerEdge of the model (Props/C15Gen.lean: C15_gen_swapEdge, C15_gen_cutOuterEdge, C15_gen_cutInnerEdge, C15_gen_sew_dispatch; corollaries C15_gen_*_preserves_WF, C15_gen_swap_guards); of collapse.rs the guard is_collapsible (early return, reads, the three anchor reads, merge arguments, dimension comparisons, arm table, both messages) and the helpers collapse_halfcell_to_midpoint, collapse_halfcell_to_base, collapse_edge_to_midpoint are translated and tied too (Gen/Collapse.lean, Props/C15GenB.lean: C15_gen_collapse_isCollapsible, C15_gen_collapse_choice, C15_gen_collapse_halfMid, C15_gen_collapse_halfBase, C15_gen_collapse_edgeToMidpoint); collapse_edge_to_base, the top level of collapse_edge (null check, both BadTopology guards, the match on the choice with its argument triples, the InvertedOrientation abort) and the orientation post-check is_orbit_orientation_consistent of utils/routines.rs (which darts and vertices, the argument order of the cross product, rejection of a ZERO cross product in the reference triangle and in the loop) are tied as well (Props/C15GenB.lean, C15GenC.lean: C15_gen_collapse_edgeToBase, C15_gen_collapse_edge, C15_gen_collapse_orient, C15_gen_collapse_edge_full = collapse_edge with every callee translated; corollary C15_gen_collapse_no_flat_triangle). Props/C15d.lean: anchors after cut_outer_edge / cut_inner_edge as theorems for every subset of the anchor storages (every slot of every storage), the inner cut never succeeds on a map with a VertexAnchor storage (theorem), collapse: no FaceAnchor slot is ever written (root of D15a), end-point target, midpoint vertex count under a hypothesis excluding D15f. Partial: the property is FALSE on the current tree in the recorded ways (known findings D9, D15a, D15d, D15e, D15f, each with a "
                "structural matcher; D9, D15a,d,e also with decide witnesses in Lean, D15f by replay only; D15b, D15c, D15g repaired). "
                "C15b: b-level topology of swap/cuts on arbitrary WF maps; C15c: V/E/F counts through the iterators for swap, cuts and the "
                "interior midpoint collapse, inner-cut cells and final-map midpoint, C15_swap_cells and C15_swap_moves_corners (D9 "
                "characterised), end-point collapse on interior edges. NOT proved (oracle only): vertex count of collapse (false on "
                "D15f configurations), anchors kept or lawfully merged after cut/collapse, boundary configurations of collapse. Trusted: "
                "Lean kernel + 3 standard axioms; translator gen_lean.py (anchors).",
        "design_ref": "DESIGN.md §7 C15, §13.4",
    },
    "C16": {
        "text": "Lean 4 theorems for the discrete clauses: detect_orientation_issue returns the error iff some vertex starts two segments or "
                "ends two segments, for all geometries as lists of index pairs (with companions: closed loops and disjoint boundaries "
                "accepted, repeated origin/end point rejected); grid sizing over Q: every geometry coordinate has at least one full cell "
                "of margin on both sides and the grid ends less than two cells above the maximum. The geometric end-to-end clauses "
                "(crossings are vertices, tiling, areas, coverage, orientation, clipping sides) are NOT theorems: they are evaluated by an "
                "exact oracle (Fractions on the exact f64 values, explicit tolerances) on the REAL grisubal over generated simple polygons "
                "and nested polygon sets in general position, cell sizes, three clip modes, mis-oriented variants. Tie for the modelled "
                "parts: orient/grid-sizing commands answered by both drivers. Props/C16Cross.lean: the intersection step for one segment (all three code paths, any grid, eps-general position) is modelled over Q and tied (new commands gcross/gchain; exact family compared as equal rationals): every reported crossing lies on the segment and on the named grid side, none is missed, strictly sorted, count = |di|+|dj| (the pre-allocated identifiers), one cell between consecutive crossings. Props/C16Clip.lean: clip_left/right on Boundary-tagged maps (HashSet order a parameter): exactly the darts of the faces reachable from a tagged dart are removed and unlinked, the result is WF, remaining boundary darts 2-free, order-independent; Props/C16Insert.lean: steps 2-3 (grouping per edge, ids, insertion): every written slot k gets its dart at res[k] for every HashMap order (after repair of D16c), distinct darts, composed with C14's insertion theorems for one edge; tied through the cfg(honeycomb_verif) hooks intersection_data / intersection_darts / clip (exact text equality on the exact family).",
        "note": "Step 1 of the pipeline, generate_intersection_data of grisubal/routines/compute_intersecs.rs, is RE-TRANSLATED from the source on every run (Gen/GCross.lean: the s / t formulas of the four *_intersec! macros as expression trees, the cx / cy divisors of the cell coordinates, per arm of the case analysis the pattern, dart offset, macro and cell size, the range bounds of the straight arms, the ranges, sides and comparison operators of the diagonal arm) and proved equal to crossingsOf of the model (Props/C16Gen.lean: C16_gen_cross_step, per-arm and per-macro theorems, C16_gen_cross_arms_complete, corollary C16_gen_cross_sorted); the control skeleton around the arms is fixed by a token template (a change there is a refused shape). Partial. Steps 1-5 of the pipeline and the clip are each MODELLED over exact rationals, PROVED (C16Cross, C16Insert, C16Grid, "
                "C16Edges, C16EdgeInsert, C16Clip: crossings sound/complete/sorted/counted; ids per slot for every HashMap order; the "
                "origin-shift loop terminates and leaves no vertex on a grid corner; edge data and edge insertion with Left/Right tags, "
                "WF preserved; the hypotheses of the clip theorems are ESTABLISHED for pipeline outputs, C16_pipeline_clip_WF) and TIED step "
                "by step through the cfg(honeycomb_verif) wrappers grisubal::verif::{intersection_data, intersection_darts, segments, "
                "edge_data, insert_edges, clip_left, clip_right} (identical text on the exact family). Props/C16Chain.lean chains steps 1-5: for every "
                "grid and geometry in general position, if the run succeeds every crossing of a segment with a grid line "
                "(C16_crossings_are_vertices) and every point of interest on a chain between two crossings (C16_poi_are_vertices) is a "
                "vertex of the result at its coordinates, ; EdgeDartsInUse and KeysOK are proved, SideCoords is proved on the grid of the model's builder "
                "(C16ChainGrid: the _on_grid forms carry no hypothesis about the map); success: C16_buildBaseEdge_ok_iff, forward totality of "
                "insert_vertices_on_edge, of steps 2-3 (C16_steps23_total_on_grid: every geometry in general position inside the margins, "
                "every HashMap order) and of step 5 under decidable conditions the tie evaluates (pipelineReadyAll). Remaining hypotheses: "
                "two HashMap facts (KeysAreHitEdges, step-4 keys are intersections), OnChain (false exactly for D16a), Ready / Valued / "
                "Indep of the step-4 edges. NOT proved: f64 rounding, the other end-to-end geometric clauses (areas, tiling, coverage, sides: exact oracle on the "
                "implementation). Known findings D16a (a boundary loop inside one cell is dropped) "
                "and D16b (negatively oriented face on a same-side dip); D16c repaired (2e893a8).",
        "design_ref": "DESIGN.md §7 C16",
    },
    "C17": {
        "text": "Lean 4 theorems on any WF 2-map carrying the three anchor storages, over the anchor merge table REGENERATED from "
                "utils/anchors.rs on every run: merge algebra (commutative, idempotent, associative where defined, lower-dimensional anchor "
                "wins, failure iff equal dimension and different ids); classify_capture never touches the topology nor removes an anchor "
                "(WF preserved), is total (Ok / UnsupportedGeometry / final-assertion panic; never an index panic, never out of fuel); after "
                "Ok every vertex, edge and face id of in-use darts is anchored; mark_curve terminates, only writes Curve(c), keeps anchored "
                "vertices, succeeds on closed boundaries and errs only when the walk leaves the boundary. Tie: classify on anchored grids, "
                "every WF 2-map n<=3 x anchor patterns, real capture meshes re-loaded into both drivers, sew/unsew on anchored maps; the "
                "capture phase itself (points of interest anchored to nodes, curves/surfaces) is evaluated by the oracle on the real code. Props/C17Surf.lean: after Ok, faces reachable from each other without crossing a curve-anchored edge carry the same Surface id and two faces with the same id are linked by a chain of edges anchored to it (regions separated by curves get different ids).",
        "note": "The on-grid-line tests of detect_overlaps (which coordinate, which origin component, which modulus cx / cy, the is_zero test, the joining operators) and the grid sizing of compute_overlapping_grid of grisubal/routines/pre_processing.rs are RE-TRANSLATED from the source on every run (Gen/PreProc.lean, tools/gen_pre.py) and tied to the model (Props/C17Gen.lean: C17_gen_on_grid, C17_gen_on_grid_axes, C17_gen_refl_guard, C16_gen_grid_origin, C16_gen_grid_cells); step 1 of the capture pipeline likewise (Gen/GCross.lean, Props/C16Gen.lean: C16_gen_cross_step). Partial: classification (incl. surface ids per region, C17Surf), the origin-shift loop (C17_no_vertex_on_grid_line) and the "
                "capture pipeline steps 1-5 (shared with C16, with the Node anchors written by the edge insertion) are modelled, proved "
                "and tied through the hooks; C17_poi_are_node_vertices (corollary of the C16 chain theorem): a point of interest on a chain between two "
                "crossings is a vertex of the result anchored Node(j); the rest of the geometric part of capture (curves, surfaces end "
                "to end) is evaluated by the oracle only. Known finding D17a (loop inside one cell dropped, twin of D16a); D17b repaired (2e893a8).",
        "design_ref": "DESIGN.md §7 C17",
    },
}

REASONS_NOT_YET = "check not built (see DESIGN.md §7); no claim is made"


def main():
    props = [json.loads(l) for l in open(os.path.join(VERIF, "properties.jsonl"))]
    checks, na = [], []
    for p in props:
        pid = p["id"]
        if pid in CLAIMED:
            c = CLAIMED[pid]
            checks.append({
                "property_id": pid,
                "quick_cmd": f"python3 tools/check.py {pid} --tier quick",
                "thorough_cmd": f"python3 tools/check.py {pid} --tier thorough",
                "evidence_file": f"/verif/evidence/{pid}.json",
                "replay_cmd_template": "python3 tools/replay.py {path}",
                "engine": "lean4-proof+correspondence",
                "level_claimed": {"category": "proof", "text": c["text"], "design_ref": c["design_ref"]},
                "level_note": c["note"],
                "technique": "machine-checked proof in Lean 4 over a hand-written executable model, tied to the code by a differential correspondence check",
            })
        else:
            na.append({"property_id": pid, "reason": REASONS_NOT_YET})
    man = {
        "version": 1,
        "setup_cmd": "python3 tools/setup.py",
        "hooks": {
            "guard": "--cfg honeycomb_verif",
            "enable": "RUSTFLAGS=--cfg honeycomb_verif via /verif/harness*/.cargo/config.toml",
            "baseline_off_cmd": BASE,
            "source_commits": ["2c3a5c4", "dbd85ff", "1a6fc02", "5e09671"],
            "add_only": True,
        },
        "engines": [{
            "name": "lean4-proof+correspondence",
            "path": "/verif/lean, /verif/harness, /verif/tools",
            "serves_properties": sorted(CLAIMED),
            "kind_free_text": "Lean 4 model + theorems (lake build, #print axioms audit, leanchecker in thorough); compiled model driver "
                              "hcmodel vs Rust harness hcimpl over the real crates; Python orchestrator tools/check.py; translator tools/gen_lean.py regenerates Gen/*.lean (grid tables, anchor laws, orbit arms, link cores, attribute merge/split, CMap3 1-links, all CMap2 sews) from /repo on every run",
        }],
        "checks": checks,
        "not_applicable": na,
        "notes": "See DESIGN.md. Checks rebuild the harness from /repo's working tree on every run (path dependencies).",
    }
    open(os.path.join(VERIF, "MANIFEST.json"), "w").write(json.dumps(man, indent=1))


if __name__ == "__main__":
    main()
