#!/usr/bin/env python3
"""sided_scan.py — standalone exploration: which editing calls of CMap3 preserve the predicates

    Sided(m)      := for d < n, b1 d != 0:  (b3 d = 0  <->  b3 (b1 d) = 0)        ("a face is 3-linked as a whole")
    NoSelfGlue(m) := for in-use d != 0 with b3 d != 0:  b3 d is not on the face (b1/b0 iterates) of d
                     (variant `fwd`: only the forward iterates b1^k d — the literal Lean definition)

on top of WF 4 and Mirror (Model/WF.lean), and under which guard on 1-link / 1-sew they become invariants.

Parts (python3 tools/sided_scan.py [--quick|--thorough] [--seed S] [--jobs J]):
  A/C  single calls: every WF 3-map with n <= 3 darts (removed darts included) x every call of C02's guard, on BOTH
       drivers (hcmodel, hcimpl; outputs must be identical); every WF map with n = 4 x every non-force call on hcmodel;
       random / structured maps with n = 5..9 (sampled calls).  Sews get random coordinates on every dart (several
       draws: the orientation test of 2-/3-sew refuses about half of them).
  B    random histories (length <= 12 by default) from the empty map, glued-face families, random invariant maps and
       pairs of polyhedra, every call chosen by a python simulator of the beta part so that it satisfies C02's guard
       and G(l, r) := (b3 l = 0 <-> b3 r = 0) for 1-links/1-sews; after every call the driver's `snap` must equal the
       simulator's state and satisfy WF, Mirror, Sided, NoSelfGlue.  A sew (unsew) is followed by the link (unlink)
       with the same arguments, so that the beta state is the predicted one whether or not the attribute part of
       the sew succeeded.  Mode A of the same engine drops G with probability 0.5 and stops at the first break.
  W    every reported witness is replayed on both drivers (load, snap, wf, call, snap, wf).

Nothing here is registered with check.py; the script only reads the two driver binaries.
"""
import argparse
import os
import random
import re
import subprocess
import sys
import time
from collections import Counter
from multiprocessing import Pool

sys.path.insert(0, os.path.dirname(os.path.abspath(__file__)))
import gens  # noqa: E402

HCM = "/verif/lean/.lake/build/bin/hcmodel"
HCI = "/verif/.build/harness-target/release/hcimpl"
OP_RE = re.compile(r"^(f?)(link|unlink|sew|unsew) ([0-9]+) ([0-9]+)(?: ([0-9]+))?$")


# ---------------------------------------------------------------------------------------------
# predicates (states are tuples (b0, b1, b2, b3, u) of lists of length n+1, index 0 = null dart)
# ---------------------------------------------------------------------------------------------

def wf4(st):
    b0, b1, b2, b3, u = st
    n = len(b0)
    for r in (b0, b1, b2, b3):
        if len(r) != n or r[0] != 0 or any(not (0 <= x < n) for x in r):
            return False
    if len(u) != n:
        return False
    for d in range(n):
        if b1[d] and b0[b1[d]] != d:
            return False
        if b0[d] and b1[b0[d]] != d:
            return False
        for r in (b2, b3):
            if r[d] and (r[r[d]] != d or r[d] == d):
                return False
        if u[d] and (b0[d] or b1[d] or b2[d] or b3[d]):
            return False
    return True


def no_image_of_unused(st):
    u = st[4]
    return all(not (r[e] and u[r[e]]) for r in st[:4] for e in range(len(u)))


def mirror(st):
    return gens.mirror3(st[1], st[3])


def sided(st):
    b1, b3 = st[1], st[3]
    return all((b3[d] == 0) == (b3[b1[d]] == 0) for d in range(len(b1)) if b1[d] != 0)


def face_of(st, d):
    """darts of the b1/b0-connected face of d (d != 0), in no particular order"""
    b0, b1 = st[0], st[1]
    out = [d]
    x = b1[d]
    k = 0
    while x != 0 and x != d and k <= len(b0):
        out.append(x)
        x = b1[x]
        k += 1
    if x == d:
        return out
    x = b0[d]
    k = 0
    while x != 0 and k <= len(b0):
        out.append(x)
        x = b0[x]
        k += 1
    return out


def nsg_both(st):
    b3, u = st[3], st[4]
    return all(not (b3[d] and b3[d] in face_of(st, d)) for d in range(1, len(b3)) if not u[d])


def nsg_fwd(st):
    b1, b3, u = st[1], st[3], st[4]
    n = len(b1)
    for d in range(1, n):
        if u[d] or b3[d] == 0:
            continue
        x = d
        for _ in range(n + 1):
            if x == b3[d]:
                return False
            x = b1[x]
            if x == 0:
                break
    return True


def classify(st):
    return {"wf": wf4(st), "noimg": no_image_of_unused(st), "mirror": mirror(st), "sided": sided(st),
            "nsg": nsg_both(st), "nsgf": nsg_fwd(st)}


def classes(c):
    """start classes (non exclusive) of a map with predicate values c"""
    out = []
    if c["wf"] and c["mirror"]:
        out.append("M")
        if c["sided"]:
            out.append("MS")
            if c["nsg"]:
                out.append("MSN")
        else:
            out.append("M~S")
            if c["nsg"]:
                out.append("MN~S")
    return out


def snap_state(line):
    s = gens.parse_snap(line)
    return (s["b0"], s["b1"], s["b2"], s["b3"], s["u"])


def load_of(st, mask=0):
    return gens.load_line(3, len(st[0]) - 1, mask, list(st[:4]), st[4])


def in_use(st):
    return [d for d in range(1, len(st[4])) if not st[4][d]]


def shape_left(st, d):
    """('closed', k) or ('open', k, ahead) walking b1 (what three_link sees on the left)"""
    b0, b1 = st[0], st[1]
    a, x = 0, b1[d]
    while x != 0 and x != d:
        a += 1
        x = b1[x]
    if x == d:
        return ("closed", a + 1)
    bk, x = 0, b0[d]
    while x != 0:
        bk += 1
        x = b0[x]
    return ("open", a + bk + 1, a)


def shape_right(st, d):
    """same for the right dart (walks b0 first)"""
    b0, b1 = st[0], st[1]
    a, x = 0, b0[d]
    while x != 0 and x != d:
        a += 1
        x = b0[x]
    if x == d:
        return ("closed", a + 1)
    bk, x = 0, b1[d]
    while x != 0:
        bk += 1
        x = b1[x]
    return ("open", a + bk + 1, a)


# ---------------------------------------------------------------------------------------------
# python simulator of the beta part (mirrors Model/Ops.lean, Model/Ops3.lean; validated against the drivers
# on every call of every run)
# ---------------------------------------------------------------------------------------------

class Abort(Exception):
    pass


def _one_link_core(b, l, r):
    if b[1][l]:
        raise Abort
    if b[0][r]:
        raise Abort
    b[1][l] = r
    b[0][r] = l


def _i_link_core(b, i, l, r):
    if b[i][l]:
        raise Abort
    if b[i][r]:
        raise Abort
    b[i][l] = r
    b[i][r] = l


def _one_unlink_core(b, l):
    r = b[1][l]
    b[1][l] = 0
    if r == 0:
        raise Abort
    b[0][r] = 0


def _i_unlink_core(b, i, l):
    r = b[i][l]
    b[i][l] = 0
    if r == 0:
        raise Abort
    b[i][r] = 0


def _three_link(b, ld, rd):
    _i_link_core(b, 3, ld, rd)
    ls, rs = b[1][ld], b[0][rd]
    while ls != ld and ls != 0:
        if rs == 0:
            raise Abort
        _i_link_core(b, 3, ls, rs)
        ls, rs = b[1][ls], b[0][rs]
    if ls == 0:
        if rs != 0:
            raise Abort
        ls, rs = b[0][ld], b[1][rd]
        while ls != 0:
            if rs == 0:
                raise Abort
            _i_link_core(b, 3, ls, rs)
            ls, rs = b[0][ls], b[1][rs]
        if rs != 0:
            raise Abort
    elif rs != rd:
        raise Abort


def _three_unlink(b, ld):
    rd = b[3][ld]
    _i_unlink_core(b, 3, ld)
    ls, rs = b[1][ld], b[0][rd]
    while ls != ld and ls != 0:
        if ls != b[3][rs]:
            raise Abort
        _i_unlink_core(b, 3, ls)
        ls, rs = b[1][ls], b[0][rs]
    if ls == 0:
        if rs != 0:
            raise Abort
        ls, rs = b[0][ld], b[1][rd]
        while ls != 0:
            if ls != b[3][rs]:
                raise Abort
            _i_unlink_core(b, 3, ls)
            ls, rs = b[0][ls], b[1][rs]


def sim(st, op):
    """(ok?, new state) of the beta part of `op` (a sew is its link); arguments must be valid darts"""
    t = op.split()
    b = [list(r) for r in st[:4]]
    u = list(st[4])
    n = len(u)
    if t[0] == "rm":
        d = int(t[1])
        if d >= n or any(b[i][d] for i in range(4)) or u[d]:
            return False, st
        u[d] = 1
        return True, (b[0], b[1], b[2], b[3], u)
    if t[0] == "ins":
        for d in range(n):
            if u[d]:
                u[d] = 0
                return True, (b[0], b[1], b[2], b[3], u)
        t = ["add", "1"]
    if t[0] == "add":
        k = int(t[1])
        for r in b:
            r += [0] * k
        u += [0] * k
        return True, (b[0], b[1], b[2], b[3], u)
    m = OP_RE.match(op)
    verb, i, l = m.group(2), int(m.group(3)), int(m.group(4))
    r = int(m.group(5)) if m.group(5) else None
    try:
        if verb in ("link", "sew"):
            if i == 1:
                _one_link_core(b, l, r)
                x, y = b[3][l], b[3][r]
                if x and y:
                    _one_link_core(b, y, x)
            elif i == 2:
                _i_link_core(b, 2, l, r)
            else:
                _three_link(b, l, r)
        else:
            if i == 1:
                r = b[1][l]
                _one_unlink_core(b, l)
                x, y = b[3][l], b[3][r]
                if x and y:
                    if b[1][y] != x:
                        raise Abort
                    _one_unlink_core(b, y)
            elif i == 2:
                _i_unlink_core(b, 2, l)
            else:
                _three_unlink(b, l)
    except Abort:
        return False, st
    return True, (b[0], b[1], b[2], b[3], u)


# ---------------------------------------------------------------------------------------------
# running the drivers
# ---------------------------------------------------------------------------------------------

def run_driver(binary, lines):
    p = subprocess.run([binary], input=("\n".join(lines) + "\n").encode(), stdout=subprocess.PIPE,
                       stderr=subprocess.DEVNULL, timeout=3600)
    out = p.stdout.decode().split("\n")
    if out and out[-1] == "":
        out.pop()
    if len(out) != len(lines):
        raise RuntimeError(f"{binary}: {len(out)} output lines for {len(lines)} input lines (exit {p.returncode})")
    return out


def repo_clean():
    r = subprocess.run(["git", "-C", "/repo", "status", "--porcelain"], stdout=subprocess.PIPE, text=True)
    return r.stdout.strip() == ""


def wait_repo_clean():
    for _ in range(120):
        if repo_clean():
            return True
        time.sleep(5)
    return False


# ---------------------------------------------------------------------------------------------
# judging one call
# ---------------------------------------------------------------------------------------------

def kind_of(op):
    m = OP_RE.match(op)
    if not m:
        return op.split()[0], None, None, None
    return m.group(2) + m.group(3), int(m.group(3)), int(m.group(4)), (int(m.group(5)) if m.group(5) else None)


def wkey(st):
    return (len(st[0]), len(in_use(st)), sum(1 for r in st[:4] for x in r if x))


def witness(W, key, st, op, pre_lines=()):
    cand = (wkey(st) + (op.startswith("f"), "sew" in op), load_of(st), op, tuple(pre_lines))
    if key not in W or cand < W[key]:
        W[key] = cand


def judge(st, pre, op, res, snapline, wfline, S, W, pre_lines=(), tag=""):
    """update the statistics S / witnesses W with the outcome of `op` called in state st"""
    kind, dim, l, r = kind_of(op)
    b3 = st[3]
    cls = classes(pre)
    post = snap_state(snapline)
    ok = res.startswith("ok")
    same_face = kind in ("link3", "sew3") and r in face_of(st, l)
    if same_face:
        S[("C1", kind, "same-face calls")] += 1
    if not ok:
        S[("any", kind, "fail")] += 1
        if post != st:
            S[("any", kind, "CHANGED-ON-FAIL")] += 1
            witness(W, ("CHANGED-ON-FAIL", kind), st, op, pre_lines)
        if kind in ("unlink3", "unsew3") and b3[l] != 0 and not res.startswith("err Failed") \
                and not res.startswith("err Insuff"):
            for c in cls:
                S[(c, kind, "refused on a 3-linked dart")] += 1
            if "MS" in cls:
                S[("MS", kind, "refused on a 3-linked dart, face self-glued" if b3[l] in face_of(st, l)
                   else "refused on a 3-linked dart, face NOT self-glued")] += 1
            if "M~S" in cls:
                witness(W, ("M~S", kind, "refused"), st, op, pre_lines)
            if "MS" in cls:
                witness(W, ("MS", kind, "refused"), st, op, pre_lines)
        return post
    pp = classify(post)
    if wfline is not None:
        want = "wf %s %s %s" % tuple(str(bool(x)).lower() for x in (pp["wf"], pp["noimg"], pp["mirror"]))
        if wfline != want:
            S[("any", kind, "WF-ORACLE-MISMATCH")] += 1
    if pp["nsg"] != pp["nsgf"] and pp["wf"]:
        S[("any", kind, "NSG-variants-differ")] += 1
    if same_face:
        S[("C1", kind, "same-face OK")] += 1
        witness(W, ("C1", kind, "same-face ok"), st, op, pre_lines)
    for c in cls:
        S[(c, kind, "ok")] += 1
        if not pp["wf"]:
            S[(c, kind, "breaks WF")] += 1
            witness(W, (c, kind, "breaks WF"), st, op, pre_lines)
        if not pp["mirror"]:
            S[(c, kind, "breaks Mirror")] += 1
            witness(W, (c, kind, "breaks Mirror"), st, op, pre_lines)
        if c in ("MS", "MSN") and not pp["sided"]:
            S[(c, kind, "breaks Sided")] += 1
            witness(W, (c, kind, "breaks Sided"), st, op, pre_lines)
        if c in ("MSN", "MN~S") and not pp["nsg"]:
            S[(c, kind, "breaks NoSelfGlue")] += 1
            witness(W, (c, kind, "breaks NoSelfGlue"), st, op, pre_lines)
        if c == "MSN" and not pp["nsgf"]:
            S[(c, kind, "breaks NoSelfGlue(fwd)")] += 1
    if kind in ("link1", "sew1"):
        g = (b3[l] == 0) == (b3[r] == 0)
        if "MS" in cls:
            S[("MS", kind, ("G" if g else "notG") + (" -> Sided" if pp["sided"] else " -> NOT Sided"))] += 1
            if not g:
                S[("MS", kind, ("only l 3-linked" if b3[l] else "only r 3-linked")
                   + (" -> Sided" if pp["sided"] else " -> NOT Sided"))] += 1
        if "MN~S" in cls and not pp["nsg"]:
            S[("MN~S", kind, "breaks NoSelfGlue with " + ("G" if g else "notG"))] += 1
            if g:
                witness(W, ("MN~S", kind, "breaks NoSelfGlue with G"), st, op, pre_lines)
    if kind in ("unlink3", "unsew3"):
        fl, fr = face_of(st, l), face_of(st, b3[l])
        cleared = all(post[3][d] == 0 for d in fl + fr)
        for c in cls:
            if c in ("MS", "M~S"):
                S[(c, kind, "ok, both faces wholly 3-free after" if cleared else "ok, faces NOT wholly cleared")] += 1
                S[(c, kind, "ok -> Sided" if pp["sided"] else "ok -> NOT Sided")] += 1
                if c == "M~S" and not pp["sided"]:
                    # did the call itself leave a half-linked face, or was the defect elsewhere?
                    if not cleared:
                        witness(W, ("M~S", kind, "partial clear"), st, op, pre_lines)
                if c == "M~S" and cleared and len(fl) != len(fr):
                    witness(W, ("M~S", kind, "ok on faces of different sizes"), st, op, pre_lines)
                    S[(c, kind, "ok on faces of different sizes")] += 1
    return post


def merge(S, W, S2, W2):
    S.update(S2)
    for k, v in W2.items():
        if k not in W or v < W[k]:
            W[k] = v


# ---------------------------------------------------------------------------------------------
# part A / C: single calls
# ---------------------------------------------------------------------------------------------

def ops_for(st, pre, opts, rng):
    iu = in_use(st)
    if not (pre["wf"] and pre["mirror"]):
        # non-mirrored WF maps: only the same-face 3-links of question (C)
        ops = []
        for l in iu:
            f = face_of(st, l)
            for r in f:
                if r != l:
                    ops += [f"link 3 {l} {r}", f"sew 3 {l} {r}"]
                    if opts["force"]:
                        ops += [f"flink 3 {l} {r}", f"fsew 3 {l} {r}"]
        return ops
    ops = gens.ops3_all(iu, force=False, distinct=True)
    if opts["force"]:
        ops += gens.ops3_all(iu, force=True, extra=False, distinct=True)
    if not opts["sews"]:
        ops = [o for o in ops if "sew" not in o]
    if opts.get("per_map") and len(ops) > opts["per_map"]:
        ops = rng.sample(ops, opts["per_map"])
    return ops


def single_worker(args):
    maps, opts = args
    rng = random.Random(opts["seed"])
    lines, cases = [], []
    for st in maps:
        pre = classify(st)
        load = load_of(st)
        iu = in_use(st)
        for op in ops_for(st, pre, opts, rng):
            kind, dim, l, r = kind_of(op)
            is_sew = "sew" in op
            reps = opts["sewreps"] if kind in ("sew2", "sew3") else 1
            for _ in range(reps):
                lines.append(load)
                wvs = []
                if is_sew:
                    wvs = [f"wv {d} {gens.dy(rng)} {gens.dy(rng)} {gens.dy(rng)}" for d in iu]
                    lines += wvs
                cases.append((st, pre, op, len(lines), tuple(wvs)))
                lines += [op, "snap"] + (["wf"] if opts["wf"] else [])
    S, W = Counter(), {}
    if not lines:
        return S, W, 0
    out = run_driver(HCM, lines)
    if opts["both"]:
        out2 = run_driver(HCI, lines)
        if out != out2:
            bad = [k for k in range(len(out)) if out[k] != out2[k]]
            S[("any", "-", "MODEL/IMPL DISAGREE (lines)")] += len(bad)
            W[("DISAGREE",)] = ((0, 0, 0), lines[bad[0]], f"model `{out[bad[0]]}` impl `{out2[bad[0]]}`", ())
        S[("any", "-", "lines compared model=impl")] += len(out)
    for st, pre, op, k, wvs in cases:
        judge(st, pre, op, out[k], out[k + 1], out[k + 2] if opts["wf"] else None, S, W, wvs)
        # the simulator must agree with the driver on the beta part
        oks, post = sim(st, op)
        dpost = snap_state(out[k + 1])
        if out[k].startswith("ok"):
            if not oks or [list(x) for x in post] != [list(x) for x in dpost]:
                S[("any", "-", "SIMULATOR DISAGREES")] += 1
        elif "sew" not in op and oks:
            S[("any", "-", "SIMULATOR DISAGREES")] += 1
    S[("any", "-", "maps")] += len(maps)
    S[("any", "-", "calls")] += len(cases)
    return S, W, len(lines)


def all_wf_maps(n):
    return [tuple(m) for m in gens.wf_maps3(n, with_unused=True)]


def random_wf_map(rng, n, pun=0.15):
    darts = list(range(1, n + 1))
    used = [d for d in darts if rng.random() > pun]
    b0, b1, b2, b3 = ([0] * (n + 1) for _ in range(4))
    tg = used[:]
    rng.shuffle(tg)
    p1 = rng.choice([0.3, 0.6, 0.9])
    for a, t in zip(used, tg):
        if rng.random() < p1:
            b1[a] = t
            b0[t] = a
    for row, p in ((b2, rng.choice([0.2, 0.6])), (b3, rng.choice([0.3, 0.7, 1.0]))):
        s = used[:]
        rng.shuffle(s)
        for k in range(0, len(s) - 1, 2):
            if rng.random() < p:
                row[s[k]] = s[k + 1]
                row[s[k + 1]] = s[k]
    u = [0] + [0 if d in used else 1 for d in darts]
    return (b0, b1, b2, b3, u)


def structured_map(rng, nfaces, max_sides=4, self_glue=0.0):
    """faces of random shapes, pairs of equal shape 3-linked mirror-wise (as three_link does), random b2:
    satisfies WF, Mirror, Sided (and NoSelfGlue unless `self_glue`)"""
    shapes = [rng.choice(gens.face_shapes(max_sides)) for _ in range(nfaces)]
    if rng.random() < 0.7 and nfaces >= 2:
        shapes[1] = shapes[0]
    if rng.random() < 0.5 and nfaces >= 4:
        shapes[3] = shapes[2]
    n, rows, faces = gens.faces3_rows(shapes)
    b0, b1, b2, b3 = rows
    free_faces = list(range(len(faces)))
    rng.shuffle(free_faces)
    while len(free_faces) >= 2:
        a = free_faces.pop()
        cands = [f for f in free_faces if shapes[f] == shapes[a]]
        if not cands or rng.random() < 0.2:
            continue
        c = rng.choice(cands)
        free_faces.remove(c)
        da, dc = faces[a][0], faces[c][0]
        k = len(da)
        if shapes[a][1]:
            off = rng.randrange(k)
            for s in range(k):
                x, y = da[s], dc[(off - s) % k]
                b3[x], b3[y] = y, x
        else:
            for s in range(k):
                x, y = da[s], dc[k - 1 - s]
                b3[x], b3[y] = y, x
    if self_glue and rng.random() < self_glue:
        # a closed face of even length glued on itself: satisfies Mirror and Sided, violates NoSelfGlue
        for f, (ds, closed) in enumerate(faces):
            k = len(ds)
            if closed and k % 2 == 0 and all(b3[d] == 0 for d in ds):
                for s in range(k):
                    b3[ds[s]] = ds[(1 - s) % k]
                if all(b3[b3[d]] == d and b3[d] != d for d in ds):
                    break
                for d in ds:
                    b3[d] = 0
    ds = list(range(1, n + 1))
    rng.shuffle(ds)
    p = rng.choice([0.0, 0.4, 0.9])
    for k in range(0, n - 1, 2):
        if rng.random() < p:
            b2[ds[k]], b2[ds[k + 1]] = ds[k + 1], ds[k]
    return (b0, b1, b2, b3, [0] * (n + 1))


def chunks(xs, k):
    return [xs[i:i + k] for i in range(0, len(xs), k)]


def run_single(pool, title, maps, opts, S, W, per_chunk=120):
    t = time.time()
    jobs = [(c, dict(opts, seed=opts["seed"] + 7919 * i)) for i, c in enumerate(chunks(maps, per_chunk))]
    s0, nl = Counter(), 0
    for s, w, k in pool.imap_unordered(single_worker, jobs):
        merge(s0, W, s, w)
        nl += k
    S.update(s0)
    print(f"[single] {title}: {s0[('any', '-', 'maps')]} maps, {s0[('any', '-', 'calls')]} calls, {nl} protocol lines"
          + (f", {s0[('any', '-', 'lines compared model=impl')]} lines model=impl" if opts["both"] else " (model)")
          + f", {time.time() - t:.1f}s", flush=True)
    return s0


# ---------------------------------------------------------------------------------------------
# part B: histories
# ---------------------------------------------------------------------------------------------

def choose_op(rng, st, guard_g, maxn):
    b0, b1, b2, b3, u = st
    n = len(b0)
    iu = in_use(st)
    if not iu:
        return rng.choice(["ins", "add 1", "add 2"])
    if rng.random() < 0.06:
        c = rng.random()
        if c < 0.4:
            free = [d for d in iu if not (b0[d] or b1[d] or b2[d] or b3[d])]
            return f"rm {rng.choice(free or iu)}"
        if c < 0.7 and (n < maxn or any(u)):
            return "ins"
        k = rng.randint(1, 3)
        if n + k <= maxn:
            return f"add {k}"
    f = "f" if rng.random() < 0.25 else ""
    for _ in range(40):
        verb = rng.choices(["link", "sew", "unlink", "unsew"], [4, 3, 2, 2])[0]
        i = rng.choice([1, 1, 2, 3, 3])
        smart = rng.random() < 0.75
        if verb in ("link", "sew"):
            if i == 1:
                ls = [d for d in iu if b1[d] == 0] if smart else iu
                rs = [d for d in iu if b0[d] == 0] if smart else iu
                if not ls or not rs:
                    continue
                l, r = rng.choice(ls), rng.choice(rs)
                if guard_g and (b3[l] == 0) != (b3[r] == 0):
                    continue
                return f"{f}{verb} 1 {l} {r}"
            row = b2 if i == 2 else b3
            cs = [d for d in iu if row[d] == 0] if smart else iu
            if len(cs) < 2:
                continue
            l, r = rng.sample(cs, 2)
            if i == 3 and smart and rng.random() < 0.85:
                sl = shape_left(st, l)
                fl = face_of(st, l)
                rs = [d for d in cs if d not in fl and shape_right(st, d) == sl]
                if not rs:
                    continue
                r = rng.choice(rs)
            return f"{f}{verb} {i} {l} {r}"
        row = (None, b1, b2, b3)[i]
        cs = [d for d in iu if row[d]] if smart else iu
        if not cs:
            continue
        return f"{f}{verb} {i} {rng.choice(cs)}"
    return "add 1" if n < maxn else f"unlink 1 {rng.choice(iu)}"


def gen_history(rng, start_lines, st0, length, p_guard, maxn):
    """lines + checks [(index of the op line, pre state, op, predicted post, exact?, wv lines)]"""
    lines = list(start_lines)
    checks = []
    st = st0
    for _ in range(length):
        guard = rng.random() < p_guard
        op = choose_op(rng, st, guard, maxn)
        oks, post = sim(st, op)
        if "sew" in op:
            wvs = [f"wv {d} {gens.dy(rng)} {gens.dy(rng)} {gens.dy(rng)}" for d in in_use(st)]
            lines += wvs
            checks.append((len(lines), st, op, post, False, tuple(wvs)))
            lines += [op, "snap"]
            fb = op.replace("unsew", "unlink").replace("sew", "link")
            checks.append((len(lines), None, fb, post, True, ()))
            lines += [fb, "snap"]
        else:
            checks.append((len(lines), st, op, post, True, ()))
            lines += [op, "snap"]
        st = post
        if p_guard < 1.0 and not sided(st):
            break
    return lines, checks


def same(a, b):
    return [list(x) for x in a] == [list(x) for x in b]


def history_worker(args):
    specs, opts = args
    rng = random.Random(opts["seed"])
    S, W = Counter(), {}
    all_lines, metas = [], []
    for start_lines, st0 in specs:
        length = rng.randint(max(1, opts["maxlen"] // 2), opts["maxlen"])
        lines, checks = gen_history(rng, start_lines, st0, length, opts["p_guard"], opts["maxn"])
        metas.append((len(all_lines), start_lines, checks, lines))
        all_lines += lines
    out = run_driver(HCM, all_lines)
    if opts["both"]:
        out2 = run_driver(HCI, all_lines)
        if out != out2:
            bad = [k for k in range(len(out)) if out[k] != out2[k]]
            S[("any", "-", "MODEL/IMPL DISAGREE (lines)")] += len(bad)
            W[("DISAGREE",)] = ((0, 0, 0), all_lines[bad[0]], f"model `{out[bad[0]]}` impl `{out2[bad[0]]}`", ())
        S[("any", "-", "lines compared model=impl")] += len(out)
    mode = "B" if opts["p_guard"] >= 1.0 else "A"
    for base, start_lines, checks, lines in metas:
        S[("hist" + mode, "-", "histories")] += 1
        cur = None
        for k, pre_st, op, post, exact, wvs in checks:
            res, snapline = out[base + k], out[base + k + 1]
            drv = snap_state(snapline)
            if pre_st is None:
                pre_st = cur  # fallback link after a sew: the pre-state is whatever the driver had
            cur = drv
            if exact:
                if not same(drv, post):
                    S[("any", "-", "SIMULATOR DISAGREES")] += 1
            else:
                if not (same(drv, post) or same(drv, pre_st)):
                    S[("any", "-", "SIMULATOR DISAGREES")] += 1
            pre = classify(pre_st)
            S[("hist" + mode, "-", "calls")] += 1
            if res.startswith("ok"):
                S[("hist" + mode, "-", "successful calls")] += 1
            judge(pre_st, pre, op, res, snapline, None, S, W, wvs)
            if mode == "B":
                pp = classify(drv)
                if not (pp["wf"] and pp["mirror"] and pp["sided"] and pp["nsg"]):
                    S[("histB", "-", "INVARIANT LOST UNDER G")] += 1
                    hist = [ln for ln in lines[:k + 1] if not ln.startswith("wv ") and ln != "snap"]
                    cand = ((len(hist), 0, 0), " / ".join(hist), op, ())
                    if ("histB", "counterexample") not in W or cand < W[("histB", "counterexample")]:
                        W[("histB", "counterexample")] = cand
                    break
            elif pre["sided"] and not sided(drv):
                break
    return S, W, len(all_lines)


def poly_start(rng):
    name, pa, pb = rng.choice(gens.cell_pairs())
    if rng.random() < 0.5:
        pa, pb = pb, pa
    glue = rng.random() < 0.7
    lines, a, b, pair = gens.two_cells_lines(rng, pa, pb, mask=0, values=False, sew=False, force=rng.random() < 0.5,
                                             glue="link")
    if pair and not glue:
        lines = lines[:-1]
    n = a.ndarts + b.ndarts
    st = tuple([0] * (n + 1) for _ in range(5))
    for ln in lines[1:]:
        ok, st = sim(st, ln)
        assert ok, ln
    return lines, st


def history_starts(rng, count, pool_maps, polys=True):
    specs = []
    shapes = gens.face_shapes(4)
    for k in range(count):
        c = rng.random()
        if c < 0.25:
            n = rng.randint(2, 9)
            specs.append(([f"new 3 {n} 0"], tuple([0] * (n + 1) for _ in range(5))))
        elif c < 0.55:
            st = structured_map(rng, rng.randint(2, 4))
            specs.append(([load_of(st)], st))
        elif c < 0.65:
            n, rows, faces = gens.faces3_rows([rng.choice(shapes) for _ in range(rng.randint(2, 4))])
            st = tuple(rows) + ([0] * (n + 1),)
            specs.append(([load_of(st)], st))
        elif c < 0.9 or not polys:
            st = rng.choice(pool_maps)
            specs.append(([load_of(st)], st))
        else:
            specs.append(poly_start(rng))
    return specs


def run_histories(pool, title, specs, opts, S, W, per_chunk=60):
    t = time.time()
    jobs = [(c, dict(opts, seed=opts["seed"] + 104729 * i)) for i, c in enumerate(chunks(specs, per_chunk))]
    s0, nl = Counter(), 0
    for s, w, k in pool.imap_unordered(history_worker, jobs):
        merge(s0, W, s, w)
        nl += k
    S.update(s0)
    mode = "B" if opts["p_guard"] >= 1.0 else "A"
    print(f"[hist {mode}] {title}: {s0[('hist' + mode, '-', 'histories')]} histories, {s0[('hist' + mode, '-', 'calls')]} calls "
          f"({s0[('hist' + mode, '-', 'successful calls')]} ok), {nl} lines"
          + (f", {s0[('any', '-', 'lines compared model=impl')]} lines model=impl" if opts["both"] else " (model)")
          + f", {time.time() - t:.1f}s", flush=True)
    return s0


# ---------------------------------------------------------------------------------------------
# bounded exhaustive reachability from the empty map (python simulator, replayed on the drivers)
# ---------------------------------------------------------------------------------------------

def skey(st):
    return tuple(tuple(r) for r in st)


def bfs_ops(st, guard_g):
    iu = in_use(st)
    b3 = st[3]
    ops = []
    for l in iu:
        for r in iu:
            if not guard_g or (b3[l] == 0) == (b3[r] == 0):
                ops.append(f"link 1 {l} {r}")
            if l != r:
                ops.append(f"link 2 {l} {r}")
                ops.append(f"link 3 {l} {r}")
        ops += [f"unlink 1 {l}", f"unlink 2 {l}", f"unlink 3 {l}", f"rm {l}"]
    if any(st[4]):
        ops.append("ins")
    return ops


def bfs(n, guard_g, stop_at=None):
    """all states reachable from `new 3 n 0` by link/unlink (dims 1-3), rm, ins (sews and force variants have the same
    beta part); returns {state key: (parent key, op, depth)}.  `stop_at(st)`: return the first state satisfying it."""
    st0 = tuple([0] * (n + 1) for _ in range(5))
    seen = {skey(st0): (None, None, 0)}
    frontier = [st0]
    depth = 0
    while frontier:
        depth += 1
        nxt = []
        for st in frontier:
            k0 = skey(st)
            for op in bfs_ops(st, guard_g):
                ok, post = sim(st, op)
                if not ok:
                    continue
                k = skey(post)
                if k in seen:
                    continue
                seen[k] = (k0, op, depth)
                if stop_at and stop_at(post):
                    return seen, k
                nxt.append(post)
        frontier = nxt
    return seen, None


def path_to(seen, k):
    ops = []
    while seen[k][0] is not None:
        ops.append(seen[k][1])
        k = seen[k][0]
    return ops[::-1]


def bfs_worker(args):
    n, = args
    seen, _ = bfs(n, True)
    bad = 0
    lines, expect = [], []
    for k, (par, op, depth) in seen.items():
        c = classify(k)
        if not (c["wf"] and c["mirror"] and c["sided"] and c["nsg"]):
            bad += 1
        lines += [f"new 3 {n} 0"] + path_to(seen, k) + ["snap"]
        expect.append((len(lines) - 1, k))
    out = run_driver(HCM, lines)
    out2 = run_driver(HCI, lines)
    mism = sum(1 for i, k in expect if skey(snap_state(out[i])) != k)
    return n, len(seen), max(v[2] for v in seen.values()), bad, mism, out == out2, len(lines)


def run_bfs(pool, nmax):
    print("[bfs] states reachable from `new 3 n 0` by calls satisfying C02's guard + G (python simulator; the shortest history of "
          "every state is replayed on both drivers):", flush=True)
    total_bad = 0
    for n, cnt, depth, bad, mism, agree, nl in pool.imap(bfs_worker, [(n,) for n in range(1, nmax + 1)]):
        print(f"      n={n}: {cnt} reachable states, longest shortest history {depth}, violating WF&Mirror&Sided&NoSelfGlue: {bad}; "
              f"replay: {nl} lines, driver state != simulator: {mism}, model=impl: {agree}", flush=True)
        total_bad += bad + mism + (0 if agree else 1)
    return total_bad


def shortest_breaks(nmax=4):
    """shortest histories from the empty map, C02's guard only, reaching a non-Sided / a self-glued state"""
    out = []
    for name, pred in (("NOT Sided", lambda st: not sided(st)), ("NOT NoSelfGlue", lambda st: not nsg_both(st))):
        for n in range(1, nmax + 1):
            seen, k = bfs(n, False, stop_at=pred)
            if k is not None:
                out.append((name, [f"new 3 {n} 0"] + path_to(seen, k)))
                break
        else:
            out.append((name, None))
    return out


# ---------------------------------------------------------------------------------------------
# report
# ---------------------------------------------------------------------------------------------

KINDS = ["link1", "sew1", "link2", "sew2", "link3", "sew3", "unlink1", "unsew1", "unlink2", "unsew2", "unlink3",
         "unsew3", "rm", "ins", "add"]


def table_a(S):
    print("\n(A) successful calls from WF&Mirror&Sided [MS] / WF&Mirror&Sided&NoSelfGlue [MSN] maps, and how many broke what")
    print(f"{'kind':9} {'ok[MS]':>9} {'!Sided':>8} {'!Mirror':>8} {'!WF':>6} | {'ok[MSN]':>9} {'!NSG':>7} {'!NSGfwd':>8} {'!Sided':>8}"
          f" | {'ok[M,NSG,~Sided]':>17} {'!NSG':>7}")
    for k in KINDS:
        print(f"{k:9} {S[('MS', k, 'ok')]:9d} {S[('MS', k, 'breaks Sided')]:8d} {S[('MS', k, 'breaks Mirror')]:8d} "
              f"{S[('MS', k, 'breaks WF')]:6d} | {S[('MSN', k, 'ok')]:9d} {S[('MSN', k, 'breaks NoSelfGlue')]:7d} "
              f"{S[('MSN', k, 'breaks NoSelfGlue(fwd)')]:8d} {S[('MSN', k, 'breaks Sided')]:8d} | "
              f"{S[('MN~S', k, 'ok')]:17d} {S[('MN~S', k, 'breaks NoSelfGlue')]:7d}")
    print("\n    1-link / 1-sew from MS maps, by G(l,r) := (b3 l = 0 <-> b3 r = 0):")
    for k in ("link1", "sew1"):
        print(f"    {k}: " + ", ".join(f"{e}: {S[('MS', k, e)]}" for e in
                                       ("G -> Sided", "G -> NOT Sided", "notG -> Sided", "notG -> NOT Sided",
                                        "only l 3-linked -> Sided", "only l 3-linked -> NOT Sided",
                                        "only r 3-linked -> Sided", "only r 3-linked -> NOT Sided")))
    for k in ("link1", "sew1"):
        print(f"    {k} from WF&Mirror&NoSelfGlue&~Sided maps breaking NoSelfGlue: with G "
              f"{S[('MN~S', k, 'breaks NoSelfGlue with G')]}, with notG {S[('MN~S', k, 'breaks NoSelfGlue with notG')]}")


def table_c(S):
    print("\n(C) 3-links on one face / 3-unlinks")
    for k in ("link3", "sew3"):
        print(f"    {k} with ld != rd on the same b1/b0 face: {S[('C1', k, 'same-face calls')]} calls, "
              f"{S[('C1', k, 'same-face OK')]} successful")
    for k in ("unlink3", "unsew3"):
        print(f"    {k} from MSN (no self-glued face): ok {S[('MSN', k, 'ok')]}; refused on a 3-linked dart: "
              f"{S[('MSN', k, 'refused on a 3-linked dart')]}")
    for c in ("MS", "M~S"):
        for k in ("unlink3", "unsew3"):
            keys = sorted(kk[2] for kk in S if kk[0] == c and kk[1] == k and kk[2] not in ("ok",)
                          and not kk[2].startswith("breaks"))
            print(f"    {k} from {c}: ok {S[(c, k, 'ok')]}; " + "; ".join(f"{e}: {S[(c, k, e)]}" for e in keys))


def alarms(S):
    bad = [(k, v) for k, v in S.items() if k[2].isupper() or "DISAGREE" in k[2] or "MISMATCH" in k[2]
           or k[2] in ("NSG-variants-differ",)]
    print("\nsanity counters (must all be absent): " + (", ".join(f"{k}: {v}" for k, v in bad) if bad else "none raised"))
    return bad


def replay_witnesses(W):
    print("\nwitnesses (smallest found), replayed on both drivers:")
    for key in sorted(W, key=str):
        wk, load, op, wvs = W[key]
        if key == ("DISAGREE",):
            print(f"  {key}: line `{load}`: {op}")
            continue
        if key == ("histB", "counterexample"):
            lines = load.split(" / ")
            lines = [x for ln in lines for x in (ln, "snap", "wf")]
        else:
            lines = [load, "snap", "wf"] + list(wvs) + [op, "snap", "wf"]
        om = run_driver(HCM, lines)
        oi = run_driver(HCI, lines)
        print(f"  {' / '.join(map(str, key))}   [drivers {'AGREE' if om == oi else 'DISAGREE'}]")
        for ln, o in zip(lines, oi):
            if ln.startswith("wv "):
                continue
            print(f"      {ln}\n        -> {o}")


def main():
    ap = argparse.ArgumentParser()
    ap.add_argument("--quick", action="store_true", help="skip n = 4 exhaustive and use smaller samples")
    ap.add_argument("--thorough", action="store_true", help="larger samples, n = 4 with force variants and sews")
    ap.add_argument("--seed", type=int, default=1)
    ap.add_argument("--jobs", type=int, default=8)
    ap.add_argument("--maxlen", type=int, default=12)
    a = ap.parse_args()
    rng = random.Random(a.seed)
    scale = 0.25 if a.quick else (4.0 if a.thorough else 1.0)
    if not wait_repo_clean():
        print("/repo is not clean (someone is patching it): hcimpl cannot be trusted now")
        return 2
    S, W = Counter(), {}
    t0 = time.time()
    with Pool(a.jobs) as pool:
        base = {"seed": a.seed, "force": True, "sews": True, "sewreps": 3, "wf": True, "both": True}
        # --- exhaustive, both drivers ---
        for n in (1, 2, 3):
            run_single(pool, f"every WF map n={n} (removed darts incl.) x every call, force + sews", all_wf_maps(n), base, S, W,
                       per_chunk=40)
        # --- n = 4 exhaustive on the model ---
        if not a.quick:
            o4 = dict(base, both=False, wf=False, force=a.thorough, sews=a.thorough, sewreps=2)
            run_single(pool, "every WF map n=4 (removed darts incl.) x every "
                       + ("call" if a.thorough else "link/unlink/rm/ins/add"), all_wf_maps(4), o4, S, W, per_chunk=400)
            # a sample of n = 4 with sews and force variants, on both drivers
            m4 = [m for m in all_wf_maps(4) if mirror(m)]
            rng.shuffle(m4)
            run_single(pool, "sample of WF&Mirror maps n=4 x every call, force + sews", m4[:int(600 * scale)], base, S, W,
                       per_chunk=40)
        # --- random maps n = 5, 6 ---
        rm = []
        want = int(3000 * scale)
        while len(rm) < want:
            m = random_wf_map(rng, rng.choice([5, 5, 6]))
            if mirror(m):
                rm.append(m)
        run_single(pool, "random WF&Mirror maps n=5,6 x every link/unlink/rm/ins/add", rm,
                   dict(base, both=False, wf=False, force=False, sews=False), S, W, per_chunk=150)
        run_single(pool, "random WF&Mirror maps n=5,6 x 60 sampled calls (force + sews)", rm[:int(600 * scale)],
                   dict(base, per_map=60), S, W, per_chunk=40)
        # --- structured maps (glued faces, 3-linked pairs, some self-glued) ---
        sm = [structured_map(rng, rng.randint(1, 4), self_glue=0.3) for _ in range(int(2500 * scale))]
        run_single(pool, "glued-face maps (1-4 faces <=4 sides, mirrored 3-links, some self-glued) x 120 sampled calls", sm,
                   dict(base, both=False, wf=False, per_map=120), S, W, per_chunk=100)
        run_single(pool, "glued-face maps x 40 sampled calls", sm[:int(400 * scale)], dict(base, per_map=40), S, W,
                   per_chunk=40)
        # single faces up to 6 sides: every same-face 3-link
        sf = []
        for k in range(2, 7):
            for closed in (True, False):
                n, rows, faces = gens.faces3_rows([(k, closed)])
                sf.append(tuple(rows) + ([0] * (n + 1),))
        run_single(pool, "single fresh faces of 2..6 sides, closed and open x every call", sf, base, S, W, per_chunk=2)

        # --- histories ---
        inv_pool = [m for m in rm + sm + [m for n in (2, 3) for m in all_wf_maps(n)]
                    if all(classify(m)[k] for k in ("wf", "mirror", "sided", "nsg"))]
        hb = dict(seed=a.seed, both=False, maxlen=a.maxlen, p_guard=1.0, maxn=14)
        run_histories(pool, f"guards C02 + G, length <= {a.maxlen}", history_starts(rng, int(20000 * scale), inv_pool),
                      hb, S, W, per_chunk=250)
        run_histories(pool, f"guards C02 + G, length <= {a.maxlen}", history_starts(rng, int(1500 * scale), inv_pool),
                      dict(hb, both=True, seed=a.seed + 1), S, W, per_chunk=50)
        run_histories(pool, "guards C02 + G, length <= 40", history_starts(rng, int(3000 * scale), inv_pool),
                      dict(hb, maxlen=40, seed=a.seed + 2), S, W, per_chunk=100)
        run_histories(pool, "guard C02 only (G dropped half of the time), stop at first break",
                      history_starts(rng, int(8000 * scale), inv_pool), dict(hb, p_guard=0.5, seed=a.seed + 3), S, W,
                      per_chunk=250)
        run_histories(pool, "guard C02 only, both drivers", history_starts(rng, int(800 * scale), inv_pool),
                      dict(hb, p_guard=0.5, both=True, seed=a.seed + 4), S, W, per_chunk=50)

        bfs_bad = run_bfs(pool, 3 if a.quick else 4)

    print("\nshortest histories from the empty map under C02's guard alone (no G), replayed on both drivers:")
    for name, hist in shortest_breaks(3 if a.quick else 4):
        if hist is None:
            print(f"  reaching {name}: none with n <= 4")
            continue
        lines = [x for ln in hist for x in ((ln, "snap", "wf") if not ln.startswith("new") else (ln,))]
        om, oi = run_driver(HCM, lines), run_driver(HCI, lines)
        print(f"  reaching {name}: {' / '.join(hist)}   [drivers {'AGREE' if om == oi else 'DISAGREE'}]")
        for ln, o in zip(lines, oi):
            if ln not in ("wf",) and not ln.startswith("new"):
                print(f"      {ln} -> {o}")
    table_a(S)
    print(f"\n(B) histories under C02's guard + G: {S[('histB', '-', 'histories')]} histories, "
          f"{S[('histB', '-', 'calls')]} calls, {S[('histB', '-', 'successful calls')]} successful; "
          f"invariant (WF & Mirror & Sided & NoSelfGlue) lost: {S[('histB', '-', 'INVARIANT LOST UNDER G')]}")
    print(f"    histories without G: {S[('histA', '-', 'histories')]} histories, {S[('histA', '-', 'calls')]} calls")
    table_c(S)
    bad = alarms(S)
    if not wait_repo_clean():
        print("WARNING: /repo became dirty during the run; rerun")
    replay_witnesses(W)
    print(f"\ntotal {time.time() - t0:.0f}s; /repo clean at the end: {repo_clean()}")
    return 1 if (bad or bfs_bad) else 0


if __name__ == "__main__":
    sys.exit(main())
