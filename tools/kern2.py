"""Shared helpers of the 2-D kernel checks (C13, C14): snapshot parsing, cells of a 2-map given as
beta arrays, exact polygon geometry on Fractions, polygon generators."""
from fractions import Fraction as Fr


# ---------------------------------------------------------------------------------------------
# snapshots
# ---------------------------------------------------------------------------------------------

class Snap:
    """`snap n=7 | b0: … | b1: … | b2: … | u: … | a0: … [| a1: …]`"""
    __slots__ = ("n", "b", "u", "a0", "others", "raw")

    def __init__(self, line):
        self.raw = line
        parts = [p.strip() for p in line.split("|")]
        if not parts[0].startswith("snap n="):
            raise ValueError("not a snapshot: " + line[:60])
        self.n = int(parts[0][7:])
        self.b = [None, None, None]
        self.u = None
        self.a0 = None
        self.others = {}
        for p in parts[1:]:
            k, _, v = p.partition(":")
            toks = v.split()
            if k in ("b0", "b1", "b2"):
                self.b[int(k[1])] = [int(x) for x in toks]
            elif k == "u":
                self.u = [int(x) for x in toks]
            elif k == "a0":
                self.a0 = [parse_pt(x) for x in toks]
            else:
                self.others[k] = toks


def parse_pt(tok):
    if tok == "none":
        return None
    assert tok[0] == "(" and tok[-1] == ")", tok
    x, y, _z = tok[1:-1].split(",")
    return (Fr(x), Fr(y))


def fr_tok(q):
    q = Fr(q)
    return str(q.numerator) if q.denominator == 1 else f"{q.numerator}/{q.denominator}"


# ---------------------------------------------------------------------------------------------
# cells of a 2-map (independent re-implementation of the definitions, not of the code)
# ---------------------------------------------------------------------------------------------

def vertex_orbit(b, d):
    """darts sharing the origin of d: closure under β1∘β2 and β2∘β0 (null dart excluded)"""
    n = len(b[0])
    seen = {d}
    todo = [d]
    while todo:
        x = todo.pop()
        for y in (b[1][b[2][x]] if 0 < b[2][x] < n else 0, b[2][b[0][x]] if 0 < b[0][x] < n else 0):
            if y != 0 and y < n and y not in seen:
                seen.add(y)
                todo.append(y)
    return seen


def vid(b, d):
    return min(vertex_orbit(b, d))


def coord(s, d):
    """coordinates of the origin of dart d, read at its vertex id"""
    v = vid(s.b, d)
    return s.a0[v] if v < len(s.a0) else None


def face_cycle(b, d, limit=None):
    """β1 walk from d: returns (darts, closed)"""
    out = [d]
    x = b[1][d]
    limit = limit or len(b[0]) + 2
    while x != 0 and x != d and len(out) <= limit:
        out.append(x)
        x = b[1][x]
    return out, x == d


def all_faces(s):
    """closed β1 cycles of the map as tuples starting at their min dart; open chains are returned
    separately"""
    seen, closed, opened = set(), [], []
    for d in range(1, s.n):
        if d in seen or s.u[d]:
            continue
        # go back to the start of an open chain
        x, steps = d, 0
        while s.b[0][x] != 0 and s.b[0][x] != d and steps <= s.n:
            x = s.b[0][x]
            steps += 1
        start = x if s.b[0][x] == 0 else d
        ds, cl = face_cycle(s.b, start)
        seen.update(ds)
        if cl:
            k = ds.index(min(ds))
            closed.append(tuple(ds[k:] + ds[:k]))
        else:
            opened.append(tuple(ds))
    return closed, opened


# ---------------------------------------------------------------------------------------------
# exact planar geometry
# ---------------------------------------------------------------------------------------------

def cross3(a, b, c):
    """(b - a) × (c - a): twice the signed area of the triangle"""
    return (b[0] - a[0]) * (c[1] - a[1]) - (b[1] - a[1]) * (c[0] - a[0])


def area2(poly):
    """twice the signed area (shoelace)"""
    s = Fr(0)
    for i in range(len(poly)):
        a, b = poly[i], poly[(i + 1) % len(poly)]
        s += a[0] * b[1] - b[0] * a[1]
    return s


def seg_intersect(p, q, r, s):
    """do the closed segments pq and rs share a point?"""
    def on(a, b, c):
        return min(a[0], b[0]) <= c[0] <= max(a[0], b[0]) and min(a[1], b[1]) <= c[1] <= max(a[1], b[1])
    d1, d2 = cross3(r, s, p), cross3(r, s, q)
    d3, d4 = cross3(p, q, r), cross3(p, q, s)
    if ((d1 > 0 and d2 < 0) or (d1 < 0 and d2 > 0)) and ((d3 > 0 and d4 < 0) or (d3 < 0 and d4 > 0)):
        return True
    return (d1 == 0 and on(r, s, p)) or (d2 == 0 and on(r, s, q)) or (d3 == 0 and on(p, q, r)) or (d4 == 0 and on(p, q, s))


def is_simple(poly):
    n = len(poly)
    if len(set(poly)) != n:
        return False
    for i in range(n):
        for j in range(i + 1, n):
            if j == i + 1 or (i == 0 and j == n - 1):
                continue
            if seg_intersect(poly[i], poly[(i + 1) % n], poly[j], poly[(j + 1) % n]):
                return False
    return True


def general_position(poly):
    n = len(poly)
    for i in range(n):
        for j in range(i + 1, n):
            for k in range(j + 1, n):
                if cross3(poly[i], poly[j], poly[k]) == 0:
                    return False
    return True


def strictly_convex(poly):
    n = len(poly)
    sg = [cross3(poly[i], poly[(i + 1) % n], poly[(i + 2) % n]) for i in range(n)]
    return is_simple(poly) and (all(x > 0 for x in sg) or all(x < 0 for x in sg))


def sees_all(poly, k):
    """vertex k is a strict star point of the simple polygon: every triangle (v_k, v_i, v_{i+1}) over
    the sides not incident to v_k has the strict orientation of the polygon"""
    n = len(poly)
    o = 1 if area2(poly) > 0 else -1
    for i in range(n):
        j = (i + 1) % n
        if i == k or j == k:
            continue
        if cross3(poly[k], poly[i], poly[j]) * o <= 0:
            return False
    return True


def reflex_indices(poly):
    n = len(poly)
    o = 1 if area2(poly) > 0 else -1
    return [i for i in range(n) if cross3(poly[(i - 1) % n], poly[i], poly[(i + 1) % n]) * o < 0]
