#!/usr/bin/env python3
"""Regenerates seeded/DETECTION.md from seeded/*/meta.json and detection.json."""
import glob, json, os
rows = []
for d in sorted(glob.glob("/verif/seeded/*/")):
    sid = os.path.basename(d.rstrip("/"))
    if not os.path.exists(d + "meta.json"):
        continue
    meta = json.load(open(d + "meta.json"))
    det = json.load(open(d + "detection.json")) if os.path.exists(d + "detection.json") else {}
    caught = [k for k, v in det.items() if any(l.startswith("VIOLATION") for l in v["lines"])]
    missed = [k for k, v in det.items() if k not in caught]
    how = []
    for k in caught:
        line = next(l for l in det[k]["lines"] if l.startswith("VIOLATION"))
        how.append(k + (" (no-failing-input-found)" if "no-failing-input-found" in line else " (failing input as replay)"))
    rows.append((sid, meta.get("summary", "").replace("\n", " ").replace("|", "/")[:160], meta.get("needs", "").replace("\n", " ").replace("|", "/")[:140],
                 ", ".join(how) or "—", ", ".join(missed) or "—"))
with open("/verif/seeded/DETECTION.md", "w") as f:
    f.write("# Seeded changes and the checks that catch them\n\n| seed | change | needs | caught by (quick tier) | ran without alarm |\n|---|---|---|---|---|\n")
    for r in rows:
        f.write("| " + " | ".join(r) + " |\n")
print(len(rows), "seeds")
