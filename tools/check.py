#!/usr/bin/env python3
"""Entry point of every registered check: `python3 tools/check.py Cxx --tier quick|thorough`.

Decision rule (DESIGN.md §2, §6):
  proof obligations of Props/Cxx build + axiom audit clean
  ∧ model/implementation streams identical
  ∧ the property oracle never fails on the implementation        ⇒ exit 0
otherwise a VIOLATION line (replay = concrete failing input when one is found, else the name of
the theorem / correspondence that no longer checks, ending in no-failing-input-found), unless
the failing input is listed in known_findings.json (KNOWN-FINDING line, exit 0).
"""
import argparse
import importlib
import json
import os
import sys
import time

sys.path.insert(0, os.path.dirname(os.path.abspath(__file__)))
import hv  # noqa: E402


def main():
    ap = argparse.ArgumentParser()
    ap.add_argument("pid")
    ap.add_argument("--tier", default=os.environ.get("VERIF_TIER", "quick"), choices=["quick", "thorough"])
    ap.add_argument("--replay", default=None)
    ap.add_argument("--no-build", action="store_true")
    args = ap.parse_args()
    seed = int(os.environ.get("VERIF_SEED", "20260926"))
    pid = args.pid
    t0 = time.time()
    prop = importlib.import_module(f"props.{pid.lower()}")
    spec = prop.SPEC

    violations = []   # dicts: kind, what, replay payload
    known_hits = []
    notes = []

    # ---------------- 1. proofs --------------------------------------------------------------
    modules = spec["lean_modules"]
    gen_ok, gen_log = True, ""
    # the generated parts of the model are regenerated from /repo's CURRENT sources whenever a module of this property is built
    # from them (directly or through an import), so that a table left behind by a run on other sources is never used
    gens_needed = list(spec.get("gen") or [])
    closure = hv.import_closure(modules + ["Driver.Main"])
    for name, fname in (("grid", "GridTables.lean"), ("anchors", "Anchors.lean"), ("orbits", "OrbitArms.lean"),
                        ("cores", "LinkCores.lean"), ("attrs", "AttrMoves.lean"),
                        ("links3", "Links3.lean"), ("sews2", "Sews2.lean"), ("sews3", "Sews3.lean"), ("links3c", "Links3Loops.lean"), ("alloc", "Alloc.lean"), ("sews3c", "Sews3Loops.lean"), ("dispatch3", "Dispatch3.lean"), ("dispatch2", "Dispatch2.lean"), ("vins", "VertexInsertion.lean"), ("geom", "Geometry.lean"), ("remesh", "Remesh.lean"), ("vinsn", "VertexInsertionN.lean"), ("collapse", "Collapse.lean"), ("fan", "Fan.lean"), ("earclip", "EarClip.lean"), ("griddesc", "GridDesc.lean"), ("gcross", "GCross.lean"), ("pre", "PreProc.lean")):
        if name not in gens_needed and any(f.endswith(os.path.join("Gen", fname)) for f in closure):
            gens_needed.append(name)
    if gens_needed:
        import gen_lean
        gen_ok, gen_log = gen_lean.run(gens_needed)
    ok_build, build_log = hv.lake_build(modules + ["hcmodel"])
    theorems, axioms = [], {}
    proof_ok = ok_build and gen_ok
    proof_fail_reason = ""
    if not gen_ok:
        proof_fail_reason = "translator gen_lean.py did not recognise the source shape: " + gen_log[-800:]
    elif not ok_build:
        errs = [l for l in build_log.split("\n") if "error" in l]
        proof_fail_reason = "lake build failed: " + " | ".join(errs[:6])
    else:
        # only the files the property's modules (and the model driver) are built from: work in progress elsewhere in the
        # library is not part of this property's proof
        forb = hv.grep_forbidden(hv.import_closure(modules + ["Driver.Main"]))
        if forb:
            proof_ok = False
            proof_fail_reason = "forbidden construct: " + "; ".join(forb[:5])
        for mod in modules:
            names = hv.theorems_of(mod)
            theorems += names
            ok_ax, res, lg = hv.audit_axioms(mod, names)
            axioms.update(res)
            if not ok_ax:
                proof_ok = False
                proof_fail_reason = f"axiom audit failed in {mod}: {lg[-600:]}"
        if args.tier == "thorough" and proof_ok:
            for mod in modules:
                rc, out = hv.sh(["lake", "env", "leanchecker", mod], cwd=hv.LEAN, timeout=3000)
                if rc != 0:
                    proof_ok = False
                    proof_fail_reason = f"leanchecker rejected {mod}: {out[-400:]}"
    required = spec.get("required_theorems", [])
    missing = [t for t in required if not any(n.endswith(t) for n in theorems)]
    if proof_ok and missing:
        proof_ok = False
        proof_fail_reason = "required theorems missing: " + ", ".join(missing)

    # ---------------- 2. tie: correspondence + oracle ---------------------------------------
    ok_cargo, cargo_log = (True, "") if args.no_build else hv.cargo_build()
    stats = {}
    samples = []
    if not ok_cargo:
        errs = [l for l in cargo_log.split("\n") if l.startswith("error")]
        violations.append({"kind": "harness-build", "what": "the harness no longer builds against /repo: " + " | ".join(errs[:5]),
                           "replay": {"theorem_or_correspondence": "cargo build of /verif/harness", "log": cargo_log[-3000:]}, "found_input": False})
    elif not ok_build and not os.path.exists(hv.HCMODEL):
        pass
    else:
        # broken proof ⇒ search for a failing input: first at the bounds asked for; when that finds no failing input that is not a
        # listed finding, at thorough bounds (a failing input found early makes the long search pointless: the verdict is the same)
        tier = args.tier
        res = prop.run(tier, seed)
        if not proof_ok and tier != "thorough":
            kn = hv.load_known()
            unlisted = [v for v in res["violations"] if v.get("found_input") and
                        not any(k["property"] == pid and prop.matches(k, v) for k in kn.get("findings", []))]
            if not unlisted:
                tier = "thorough"
                res = prop.run(tier, seed)
        stats = res["stats"]
        samples = res["samples"]
        for v in res["violations"]:
            violations.append(v)
        notes += res.get("notes", [])

    # ---------------- 3. known findings -----------------------------------------------------
    # only failures of the property on a concrete input can be known findings; a broken proof obligation, a broken
    # harness build or a broken translator never is
    known = hv.load_known()
    final = []
    for v in violations:
        hit = None
        if v.get("kind") not in ("proof", "harness-build"):
            for k in known.get("findings", []):
                if k["property"] == pid and prop.matches(k, v):
                    hit = k
                    break
        if hit:
            known_hits.append((hit, v))
        else:
            final.append(v)
    if not proof_ok:
        # the proof no longer checks: report the failing input the search found (one that is not a listed finding), else the
        # obligation itself with no-failing-input-found
        found = [v for v in final if v.get("found_input")]
        if not found:
            final.append({"kind": "proof", "what": proof_fail_reason, "found_input": False,
                          "replay": {"theorem_or_correspondence": proof_fail_reason, "modules": modules}})
    seen = set()
    for hit, v in known_hits:
        if hit["id"] in seen:
            continue
        seen.add(hit["id"])
        print(f"KNOWN-FINDING: property={pid} {hit['id']}: {hit['description']}")

    # ---------------- 4. evidence + exit ----------------------------------------------------
    coverage = {
        "obligations": len(theorems),
        "discharged": len(theorems) if proof_ok else 0,
        "checker_cmd": "cd /verif/lean && lake build " + " ".join(modules) + " && #print axioms on every theorem (lake env lean)" + (" && lake env leanchecker" if args.tier == "thorough" else ""),
        "trusted_base": spec["trusted_base"],
        "theorems": theorems,
        "axioms": {k: v for k, v in axioms.items()},
        "not_proved": spec.get("not_proved", []),
        "evaluations": stats.get("cases", 0),
        "distinct_nontrivial": stats.get("distinct_nontrivial", 0),
        "rule": spec.get("rule", ""),
        "samples": samples[:5],
        "correspondence": stats,
        "known_findings_hit": sorted(seen),
        "notes": notes,
        "exhaustive": bool(stats.get("exhaustive", False)),
    }
    hv.write_evidence(pid, args.tier, seed, coverage, spec["assumptions"], time.time() - t0, len(final))
    if final:
        # one line per distinct kind, first instance as the replay
        v = final[0]
        payload = {"property": pid, "kind": v["kind"], "what": v["what"], "tier": args.tier, "seed": seed}
        payload.update(v.get("replay", {}))
        path = hv.write_replay(pid, payload)
        tail = "" if v.get("found_input") else " no-failing-input-found"
        hv.log(f"[{pid}] {len(final)} violation(s); first: {v['kind']}: {v['what'][:400]}")
        print(f"VIOLATION property={pid} replay={path}{tail}")
        sys.exit(1)
    print(f"OK property={pid} tier={args.tier} theorems={len(theorems)} cases={stats.get('cases', 0)} "
          f"known={len(seen)} wall={time.time() - t0:.1f}s")
    sys.exit(0)


if __name__ == "__main__":
    main()
